//! E11 - compile-fail witnesses (thorough tier): the representation invariants decided by E1 / E4 rest on the
//! invariant fields and raw constructors being unreachable for code outside the defining module. Each
//! `compile_fail,E0xxx` doctest is written as an external user would write it and is paired with a compiling twin
//! that differs only in the offending line (a witness whose path is merely wrong would also "fail to compile").
//! Run with `cargo +nightly test --doc` (the stable toolchain ignores the error code).

/// Ratio: fields are private.
/// ```compile_fail,E0616
/// let mut r = yui::Ratio::new(1i64, 2);
/// r.numer = 2;
/// ```
/// ```
/// let r = yui::Ratio::new(2i64, 4);
/// assert_eq!(*r.numer(), 1);
/// ```
pub struct RatioFields;

/// Ratio: no struct literal from outside.
/// ```compile_fail,E0451
/// let r = yui::Ratio::<i64> { numer: 2, denom: 4 };
/// ```
pub struct RatioLiteral;

/// Ratio: the raw constructor is private.
/// ```compile_fail,E0624
/// let r = yui::Ratio::<i64>::new_raw(2, 4);
/// ```
/// ```
/// let r = yui::Ratio::<i64>::new(2, 4);
/// ```
pub struct RatioNewRaw;

/// Lc: the term map is private.
/// ```compile_fail,E0616
/// use yui::lc::{Lc, Free};
/// let mut z = Lc::<Free<i64>, i64>::from(Free(1i64));
/// z.data.clear();
/// ```
/// ```
/// use yui::lc::{Lc, Free};
/// let z = Lc::<Free<i64>, i64>::from(Free(1i64));
/// assert_eq!(z.nterms(), 1);
/// ```
pub struct LcData;

/// MultiDeg: the exponent map is private.
/// ```compile_fail,E0616
/// let mut d = yui::poly::MultiDeg::<usize>::from((0, 1));
/// d.data.insert(3, 0);
/// ```
/// ```
/// let d = yui::poly::MultiDeg::<usize>::from((0, 1));
/// assert_eq!(d.ninds(), 1);
/// ```
pub struct MultiDegData;

/// BitSeq: no struct literal / field access from outside.
/// ```compile_fail,E0451
/// let b = yui::bitseq::BitSeq { val: 3, len: 1 };
/// ```
/// ```compile_fail,E0616
/// let mut b = yui::bitseq::BitSeq::new(1, 1);
/// b.len = 65;
/// ```
/// ```
/// let b = yui::bitseq::BitSeq::new(1, 1);
/// assert_eq!(b.len(), 1);
/// ```
pub struct BitSeqFields;

/// FF: the tuple constructor is private.
/// ```compile_fail,E0423
/// let x = yui::FF::<3>(7);
/// ```
/// ```
/// let x = yui::FF::<3>::new(7);
/// assert_eq!(*x.rep(), 1);
/// ```
pub struct FFCtor;

/// Tng / Cob: the component vectors are private.
/// ```compile_fail,E0616
/// let mut t = yui_kh::kh::internal::v2::tng::Tng::empty();
/// t.comps.clear();
/// ```
/// ```compile_fail,E0616
/// let mut c = yui_kh::kh::internal::v2::cob::Cob::empty();
/// c.comps.clear();
/// ```
/// ```
/// let t = yui_kh::kh::internal::v2::tng::Tng::empty();
/// let c = yui_kh::kh::internal::v2::cob::Cob::empty();
/// assert!(t.is_empty() && c.is_empty());
/// ```
pub struct TngCobComps;
