#!/bin/sh
# Builds the framework from files on disk only (offline).
set -e
cd "$(dirname "$0")"
export CARGO_NET_OFFLINE=true
(cd driver && cargo +nightly build --offline)
if [ -d tablex ]; then (cd tablex && cargo build --offline); fi
echo setup ok
