// MIR fact extractor for the yui static checks.
//
// Used as RUSTC_WORKSPACE_WRAPPER under `cargo +nightly check`: for every workspace
// crate it writes ONE json file into $YUI_FACTS_DIR describing every MIR body
// (statements, terminators, resolved callees), ADTs (fields + visibility) and impls.
// Nothing is executed; the compiler is only asked for its type-checked program.
#![feature(rustc_private)]

extern crate rustc_abi;
extern crate rustc_driver;
extern crate rustc_hir;
extern crate rustc_interface;
extern crate rustc_middle;
extern crate rustc_session;
extern crate rustc_span;

use rustc_driver::Compilation;
use rustc_hir::def::DefKind;
use rustc_hir::def_id::{DefId, LOCAL_CRATE};
use rustc_middle::mir::{
    self, AggregateKind, BorrowKind, Operand, Place, ProjectionElem, Rvalue, StatementKind,
    TerminatorKind,
};
use rustc_middle::ty::print::with_no_trimmed_paths;
use rustc_middle::ty::{self, Ty, TyCtxt};
use rustc_span::Span;
use std::fmt::Write as _;

// ---------------------------------------------------------------- tiny JSON

enum J {
    Null,
    Bool(bool),
    Int(i128),
    Str(String),
    Arr(Vec<J>),
    Obj(Vec<(&'static str, J)>),
}

fn s<T: Into<String>>(x: T) -> J {
    J::Str(x.into())
}

impl J {
    fn write(&self, out: &mut String) {
        match self {
            J::Null => out.push_str("null"),
            J::Bool(b) => out.push_str(if *b { "true" } else { "false" }),
            J::Int(i) => {
                let _ = write!(out, "{}", i);
            }
            J::Str(st) => {
                out.push('"');
                for c in st.chars() {
                    match c {
                        '"' => out.push_str("\\\""),
                        '\\' => out.push_str("\\\\"),
                        '\n' => out.push_str("\\n"),
                        '\r' => out.push_str("\\r"),
                        '\t' => out.push_str("\\t"),
                        c if (c as u32) < 0x20 => {
                            let _ = write!(out, "\\u{:04x}", c as u32);
                        }
                        c => out.push(c),
                    }
                }
                out.push('"');
            }
            J::Arr(v) => {
                out.push('[');
                for (i, x) in v.iter().enumerate() {
                    if i > 0 {
                        out.push(',');
                    }
                    x.write(out);
                }
                out.push(']');
            }
            J::Obj(v) => {
                out.push('{');
                for (i, (k, x)) in v.iter().enumerate() {
                    if i > 0 {
                        out.push(',');
                    }
                    let _ = write!(out, "\"{}\":", k);
                    x.write(out);
                }
                out.push('}');
            }
        }
    }
}

// ---------------------------------------------------------------- helpers

struct Cx<'tcx> {
    tcx: TyCtxt<'tcx>,
    krate: String,
}

impl<'tcx> Cx<'tcx> {
    fn crate_of(&self, did: DefId) -> String {
        self.tcx.crate_name(did.krate).to_string()
    }

    /// crate-qualified, untrimmed def path (stable key used in all reports)
    fn path(&self, did: DefId) -> String {
        let p = with_no_trimmed_paths!(self.tcx.def_path_str(did));
        if did.is_local() {
            format!("{}::{}", self.krate, p)
        } else {
            p
        }
    }

    /// crate-independent identifier: the same for a def seen from its own crate or from a dependent one
    fn id(&self, did: DefId) -> String {
        format!("{}{}", self.crate_of(did), self.tcx.def_path(did).to_string_no_crate_verbose())
    }

    fn ty(&self, t: Ty<'tcx>) -> String {
        with_no_trimmed_paths!(format!("{}", t))
    }

    fn loc(&self, sp: Span) -> (String, i128, i128, bool) {
        let sm = self.tcx.sess.source_map();
        let exp = sp.from_expansion();
        let lo = sm.lookup_char_pos(sp.lo());
        let file = match &lo.file.name {
            rustc_span::FileName::Real(r) => match r.local_path() {
                Some(p) => p.to_string_lossy().to_string(),
                None => format!("{:?}", lo.file.name),
            },
            other => format!("{:?}", other),
        };
        let cs = sp.source_callsite();
        let cl = sm.lookup_char_pos(cs.lo()).line as i128;
        (file, lo.line as i128, cl, exp)
    }

    fn field_name(&self, base: Ty<'tcx>, variant: Option<rustc_abi::VariantIdx>, idx: usize) -> (String, J) {
        match base.kind() {
            ty::Adt(adt, _) => {
                let v = match variant {
                    Some(v) => adt.variant(v),
                    None => {
                        if adt.is_enum() {
                            return (format!("{}", idx), s(self.path(adt.did())));
                        }
                        adt.non_enum_variant()
                    }
                };
                let name = v
                    .fields
                    .iter()
                    .nth(idx)
                    .map(|f| f.name.to_string())
                    .unwrap_or_else(|| format!("{}", idx));
                (name, s(self.path(adt.did())))
            }
            ty::Closure(did, _) => {
                let names = self.tcx.closure_saved_names_of_captured_variables(*did);
                let name = names
                    .iter()
                    .nth(idx)
                    .map(|x| x.to_string())
                    .unwrap_or_else(|| format!("{}", idx));
                (name, s(format!("closure:{}", self.path(*did))))
            }
            _ => (format!("{}", idx), J::Null),
        }
    }

    fn place(&self, body: &mir::Body<'tcx>, p: &Place<'tcx>) -> J {
        let mut projs = vec![];
        let mut pty = mir::PlaceTy::from_ty(body.local_decls[p.local].ty);
        for elem in p.projection.iter() {
            let j = match elem {
                ProjectionElem::Deref => s("deref"),
                ProjectionElem::Field(f, _) => {
                    let (n, adt) = self.field_name(pty.ty, pty.variant_index, f.as_usize());
                    J::Obj(vec![("f", J::Int(f.as_usize() as i128)), ("n", s(n)), ("adt", adt)])
                }
                ProjectionElem::Index(l) => J::Obj(vec![("index", J::Int(l.as_usize() as i128))]),
                ProjectionElem::ConstantIndex { offset, .. } => {
                    J::Obj(vec![("cindex", J::Int(offset as i128))])
                }
                ProjectionElem::Subslice { .. } => s("subslice"),
                ProjectionElem::Downcast(name, v) => J::Obj(vec![(
                    "downcast",
                    s(name.map(|n| n.to_string()).unwrap_or_else(|| format!("{}", v.as_usize()))),
                )]),
                ProjectionElem::OpaqueCast(_) => s("opaque"),
                ProjectionElem::UnwrapUnsafeBinder(_) => s("unbinder"),
            };
            projs.push(j);
            pty = pty.projection_ty(self.tcx, elem);
        }
        J::Obj(vec![("l", J::Int(p.local.as_usize() as i128)), ("p", J::Arr(projs))])
    }

    fn fn_ref(&self, owner: DefId, def: DefId, args: ty::GenericArgsRef<'tcx>) -> J {
        let tcx = self.tcx;
        let mut o: Vec<(&'static str, J)> = vec![
            ("def", s(self.path(def))),
            ("id", s(self.id(def))),
            ("crate", s(self.crate_of(def))),
            ("args", J::Arr(args.iter().map(|a| s(with_no_trimmed_paths!(format!("{}", a)))).collect())),
        ];
        if let Some(tr) = tcx.trait_of_assoc(def) {
            o.push(("trait", s(self.path(tr))));
            if !args.is_empty() {
                if let Some(t) = args.get(0).and_then(|a| a.as_type()) {
                    o.push(("self_ty", s(self.ty(t))));
                }
            }
        }
        if let Some(im) = tcx.impl_of_assoc(def) {
            let st = tcx.type_of(im).instantiate_identity().skip_norm_wip();
            o.push(("impl_self", s(self.ty(st))));
        }
        let env = ty::TypingEnv::post_analysis(tcx, owner);
        match ty::Instance::try_resolve(tcx, env, def, args) {
            Ok(Some(inst)) => {
                let kind = match inst.def {
                    ty::InstanceKind::Item(_) => "item",
                    ty::InstanceKind::Intrinsic(_) => "intrinsic",
                    ty::InstanceKind::Virtual(..) => "virtual",
                    ty::InstanceKind::ClosureOnceShim { .. } => "closure_once_shim",
                    ty::InstanceKind::FnPtrShim(..) => "fnptr_shim",
                    ty::InstanceKind::CloneShim(..) => "clone_shim",
                    ty::InstanceKind::DropGlue(..) => "drop_glue",
                    ty::InstanceKind::ReifyShim(..) => "reify_shim",
                    _ => "other",
                };
                o.push(("res", s(self.path(inst.def_id()))));
                o.push(("res_id", s(self.id(inst.def_id()))));
                o.push(("res_crate", s(self.crate_of(inst.def_id()))));
                o.push(("res_kind", s(kind)));
            }
            _ => {
                o.push(("res", J::Null));
            }
        }
        J::Obj(o)
    }

    fn constant(&self, owner: DefId, c: &mir::ConstOperand<'tcx>) -> J {
        let tcx = self.tcx;
        let t = c.const_.ty();
        let mut o: Vec<(&'static str, J)> = vec![("ty", s(self.ty(t)))];
        match t.kind() {
            ty::FnDef(def, args) => {
                o.push(("fn", self.fn_ref(owner, *def, args)));
            }
            _ => {
                let env = ty::TypingEnv::post_analysis(tcx, owner);
                // scalar ints only (bool, char, integers); never ICE on other widths
                if t.is_integral() || t.is_bool() || t.is_char() {
                    if let Some(sc) = c.const_.try_eval_scalar_int(tcx, env) {
                        let size = sc.size();
                        let v: i128 = if t.is_signed() {
                            sc.to_int(size)
                        } else {
                            let u = sc.to_uint(size);
                            if u > i128::MAX as u128 { -1 } else { u as i128 }
                        };
                        o.push(("val", J::Int(v)));
                        if !t.is_signed() && sc.to_uint(size) > i128::MAX as u128 {
                            o.push(("val_str", s(format!("{}", sc.to_uint(size)))));
                        }
                    }
                } else if t.is_floating_point() {
                    o.push(("float", J::Bool(true)));
                }
                o.push(("repr", s(with_no_trimmed_paths!(format!("{}", c.const_)))));
            }
        }
        J::Obj(vec![("const", J::Obj(o))])
    }

    fn operand(&self, owner: DefId, body: &mir::Body<'tcx>, op: &Operand<'tcx>) -> J {
        match op {
            Operand::Copy(p) => J::Obj(vec![("copy", self.place(body, p))]),
            Operand::Move(p) => J::Obj(vec![("move", self.place(body, p))]),
            Operand::Constant(c) => self.constant(owner, c),
            #[allow(unreachable_patterns)]
            _ => J::Obj(vec![("other", s(format!("{:?}", op)))]),
        }
    }

    fn rvalue(&self, owner: DefId, body: &mir::Body<'tcx>, rv: &Rvalue<'tcx>) -> J {
        match rv {
            Rvalue::Use(op, ..) => J::Obj(vec![("k", s("use")), ("op", self.operand(owner, body, op))]),
            Rvalue::Repeat(op, _) => {
                J::Obj(vec![("k", s("repeat")), ("op", self.operand(owner, body, op))])
            }
            Rvalue::Ref(_, bk, p) => {
                let m = matches!(bk, BorrowKind::Mut { .. });
                J::Obj(vec![("k", s("ref")), ("mut", J::Bool(m)), ("place", self.place(body, p))])
            }
            Rvalue::RawPtr(k, p) => J::Obj(vec![
                ("k", s("rawptr")),
                ("mut", J::Bool(format!("{:?}", k).contains("Mut"))),
                ("place", self.place(body, p)),
            ]),
            Rvalue::Cast(kind, op, t) => J::Obj(vec![
                ("k", s("cast")),
                ("kind", s(format!("{:?}", kind))),
                ("op", self.operand(owner, body, op)),
                ("ty", s(self.ty(*t))),
                ("from_ty", s(self.ty(op.ty(&body.local_decls, self.tcx)))),
            ]),
            Rvalue::BinaryOp(bop, ops) => J::Obj(vec![
                ("k", s("bin")),
                ("op", s(format!("{:?}", bop))),
                ("a", self.operand(owner, body, &ops.0)),
                ("b", self.operand(owner, body, &ops.1)),
                ("ty", s(self.ty(ops.0.ty(&body.local_decls, self.tcx)))),
            ]),
            Rvalue::UnaryOp(uop, op) => J::Obj(vec![
                ("k", s("un")),
                ("op", s(format!("{:?}", uop))),
                ("a", self.operand(owner, body, op)),
            ]),
            Rvalue::Discriminant(p) => {
                J::Obj(vec![("k", s("discr")), ("place", self.place(body, p))])
            }
            Rvalue::Aggregate(kind, ops) => {
                let mut o: Vec<(&'static str, J)> = vec![("k", s("agg"))];
                match &**kind {
                    AggregateKind::Array(_) => o.push(("agg", s("array"))),
                    AggregateKind::Tuple => o.push(("agg", s("tuple"))),
                    AggregateKind::Adt(did, variant, _, _, _) => {
                        o.push(("agg", s("adt")));
                        o.push(("adt", s(self.path(*did))));
                        let adt = self.tcx.adt_def(*did);
                        let v = adt.variant(*variant);
                        o.push(("variant", s(v.name.to_string())));
                        o.push((
                            "fields",
                            J::Arr(v.fields.iter().map(|f| s(f.name.to_string())).collect()),
                        ));
                    }
                    AggregateKind::Closure(did, _) => {
                        o.push(("agg", s("closure")));
                        o.push(("closure", s(self.path(*did))));
                        o.push(("closure_id", s(self.id(*did))));
                    }
                    AggregateKind::Coroutine(did, _) | AggregateKind::CoroutineClosure(did, _) => {
                        o.push(("agg", s("coroutine")));
                        o.push(("closure", s(self.path(*did))));
                    }
                    AggregateKind::RawPtr(..) => o.push(("agg", s("rawptr"))),
                }
                o.push(("ops", J::Arr(ops.iter().map(|x| self.operand(owner, body, x)).collect())));
                J::Obj(o)
            }
            Rvalue::CopyForDeref(p) => J::Obj(vec![
                ("k", s("use")),
                ("op", J::Obj(vec![("copy", self.place(body, p))])),
            ]),
            Rvalue::ThreadLocalRef(did) => {
                J::Obj(vec![("k", s("tls")), ("def", s(self.path(*did)))])
            }
            _ => J::Obj(vec![("k", s("other")), ("repr", s(format!("{:?}", rv)))]),
        }
    }

    fn body(&self, did: DefId) -> J {
        let body = self.tcx.optimized_mir(did);
        self.body_json(did, body, None)
    }

    fn body_json(&self, did: DefId, body: &mir::Body<'tcx>, promoted: Option<usize>) -> J {
        let tcx = self.tcx;
        let kind = tcx.def_kind(did);
        let (file, line, _cl, exp) = self.loc(body.span);
        let hi = tcx.sess.source_map().lookup_char_pos(body.span.hi()).line as i128;
        let defname = match promoted {
            Some(i) => format!("{}::promoted[{}]", self.path(did), i),
            None => self.path(did),
        };
        let idname = match promoted {
            Some(i) => format!("{}::promoted[{}]", self.id(did), i),
            None => self.id(did),
        };
        let mut o: Vec<(&'static str, J)> = vec![
            ("def", s(defname)),
            ("id", s(idname)),
            ("kind", s(if promoted.is_some() { "Promoted".to_string() } else { format!("{:?}", kind) })),
            ("file", s(file)),
            ("line", J::Int(line)),
            ("line_hi", J::Int(hi)),
            ("from_expansion", J::Bool(exp)),
            ("arg_count", J::Int(body.arg_count as i128)),
        ];
        if promoted.is_some() {
            o.push(("promoted_of", s(self.path(did))));
        }
        if promoted.is_none() && matches!(kind, DefKind::Fn | DefKind::AssocFn) {
            let vis = tcx.visibility(did);
            let v = match vis {
                ty::Visibility::Public => "pub".to_string(),
                ty::Visibility::Restricted(m) => format!("restricted:{}", self.path(m)),
            };
            o.push(("vis", s(v)));
            o.push(("name", s(tcx.item_name(did).to_string())));
        }
        if tcx.is_closure_like(did) {
            let parent = tcx.parent(did);
            o.push(("parent", s(self.path(parent))));
            o.push(("root", s(self.path(tcx.typeck_root_def_id(did)))));
        }
        let assoc_owner = if tcx.is_closure_like(did) { tcx.typeck_root_def_id(did) } else { did };
        if let Some(im) = tcx.impl_of_assoc(assoc_owner) {
            let st = tcx.type_of(im).instantiate_identity().skip_norm_wip();
            let mut io: Vec<(&'static str, J)> = vec![("self_ty", s(self.ty(st)))];
            if let ty::Adt(adt, _) = st.kind() {
                io.push(("self_adt", s(self.path(adt.did()))));
            }
            if let Some(tr) = tcx.impl_opt_trait_ref(im) {
                let tr = tr.instantiate_identity().skip_norm_wip();
                io.push(("trait", s(self.path(tr.def_id))));
                io.push(("trait_ref", s(with_no_trimmed_paths!(format!("{}", tr)))));
            }
            let (ifile, iline, _, iexp) = self.loc(tcx.def_span(im));
            io.push(("file", s(ifile)));
            io.push(("line", J::Int(iline)));
            io.push(("from_expansion", J::Bool(iexp)));
            o.push(("impl", J::Obj(io)));
        } else if let Some(tr) = tcx.trait_of_assoc(assoc_owner) {
            o.push(("trait_default", s(self.path(tr))));
        }
        // locals
        let mut names: Vec<Option<String>> = vec![None; body.local_decls.len()];
        for vdi in body.var_debug_info.iter() {
            if let mir::VarDebugInfoContents::Place(p) = &vdi.value {
                if p.projection.is_empty() {
                    names[p.local.as_usize()] = Some(vdi.name.to_string());
                }
            }
        }
        let locals: Vec<J> = body
            .local_decls
            .iter_enumerated()
            .map(|(l, d)| {
                let mut lo: Vec<(&'static str, J)> = vec![("ty", s(self.ty(d.ty)))];
                if let Some(n) = &names[l.as_usize()] {
                    lo.push(("name", s(n.clone())));
                }
                if let ty::Adt(adt, _) = d.ty.peel_refs().kind() {
                    lo.push(("adt", s(self.path(adt.did()))));
                }
                if d.ty.is_floating_point() {
                    lo.push(("float", J::Bool(true)));
                }
                J::Obj(lo)
            })
            .collect();
        o.push(("locals", J::Arr(locals)));
        // upvar debug names (closure captures referenced through _1)
        let mut blocks = vec![];
        for (_bb, data) in body.basic_blocks.iter_enumerated() {
            let mut stmts = vec![];
            for st in data.statements.iter() {
                let (_f, line, cl, exp) = self.loc(st.source_info.span);
                let mut so: Vec<(&'static str, J)> = vec![];
                match &st.kind {
                    StatementKind::Assign(b) => {
                        so.push(("k", s("assign")));
                        so.push(("lhs", self.place(body, &b.0)));
                        so.push(("rv", self.rvalue(did, body, &b.1)));
                    }
                    StatementKind::SetDiscriminant { place, variant_index } => {
                        so.push(("k", s("setdiscr")));
                        so.push(("lhs", self.place(body, place)));
                        so.push(("variant", J::Int(variant_index.as_usize() as i128)));
                    }
                    StatementKind::StorageLive(l) => {
                        so.push(("k", s("live")));
                        so.push(("l", J::Int(l.as_usize() as i128)));
                    }
                    StatementKind::StorageDead(l) => {
                        so.push(("k", s("dead")));
                        so.push(("l", J::Int(l.as_usize() as i128)));
                    }
                    _ => continue,
                }
                so.push(("line", J::Int(line)));
                if exp {
                    so.push(("cline", J::Int(cl)));
                }
                stmts.push(J::Obj(so));
            }
            let term = data.terminator();
            let (_f, line, cl, exp) = self.loc(term.source_info.span);
            let mut to: Vec<(&'static str, J)> = vec![];
            let bbj = |b: mir::BasicBlock| J::Int(b.as_usize() as i128);
            match &term.kind {
                TerminatorKind::Goto { target } => {
                    to.push(("k", s("goto")));
                    to.push(("target", bbj(*target)));
                }
                TerminatorKind::SwitchInt { discr, targets } => {
                    to.push(("k", s("switch")));
                    to.push(("discr", self.operand(did, body, discr)));
                    to.push(("discr_ty", s(self.ty(discr.ty(&body.local_decls, tcx)))));
                    let ts: Vec<J> = targets
                        .iter()
                        .map(|(v, b)| {
                            J::Arr(vec![
                                if v > i128::MAX as u128 { s(format!("{}", v)) } else { J::Int(v as i128) },
                                bbj(b),
                            ])
                        })
                        .collect();
                    to.push(("targets", J::Arr(ts)));
                    to.push(("otherwise", bbj(targets.otherwise())));
                }
                TerminatorKind::Return => to.push(("k", s("return"))),
                TerminatorKind::Unreachable => to.push(("k", s("unreachable"))),
                TerminatorKind::UnwindResume => to.push(("k", s("resume"))),
                TerminatorKind::UnwindTerminate(_) => to.push(("k", s("abort"))),
                TerminatorKind::Drop { place, target, unwind, .. } => {
                    to.push(("k", s("drop")));
                    to.push(("place", self.place(body, place)));
                    to.push(("ty", s(self.ty(place.ty(&body.local_decls, tcx).ty))));
                    to.push(("target", bbj(*target)));
                    if let mir::UnwindAction::Cleanup(b) = unwind {
                        to.push(("unwind", bbj(*b)));
                    }
                }
                TerminatorKind::Call { func, args, destination, target, unwind, .. } => {
                    to.push(("k", s("call")));
                    to.push(("func", self.operand(did, body, func)));
                    to.push((
                        "args",
                        J::Arr(args.iter().map(|a| self.operand(did, body, &a.node)).collect()),
                    ));
                    to.push(("dest", self.place(body, destination)));
                    to.push(("dest_ty", s(self.ty(destination.ty(&body.local_decls, tcx).ty))));
                    if let Some(t) = target {
                        to.push(("target", bbj(*t)));
                    }
                    if let mir::UnwindAction::Cleanup(b) = unwind {
                        to.push(("unwind", bbj(*b)));
                    }
                }
                TerminatorKind::TailCall { func, args, .. } => {
                    to.push(("k", s("tailcall")));
                    to.push(("func", self.operand(did, body, func)));
                    to.push((
                        "args",
                        J::Arr(args.iter().map(|a| self.operand(did, body, &a.node)).collect()),
                    ));
                }
                TerminatorKind::Assert { cond, expected, msg, target, unwind } => {
                    to.push(("k", s("assert")));
                    to.push(("cond", self.operand(did, body, cond)));
                    to.push(("expected", J::Bool(*expected)));
                    let (mk, mops): (String, Vec<J>) = match &**msg {
                        mir::AssertKind::Overflow(op, a, b) => (
                            format!("Overflow({:?})", op),
                            vec![self.operand(did, body, a), self.operand(did, body, b)],
                        ),
                        mir::AssertKind::OverflowNeg(a) => {
                            ("OverflowNeg".into(), vec![self.operand(did, body, a)])
                        }
                        mir::AssertKind::DivisionByZero(a) => {
                            ("DivisionByZero".into(), vec![self.operand(did, body, a)])
                        }
                        mir::AssertKind::RemainderByZero(a) => {
                            ("RemainderByZero".into(), vec![self.operand(did, body, a)])
                        }
                        mir::AssertKind::BoundsCheck { len, index } => (
                            "BoundsCheck".into(),
                            vec![self.operand(did, body, len), self.operand(did, body, index)],
                        ),
                        other => (format!("{:?}", other).chars().take(40).collect(), vec![]),
                    };
                    to.push(("msg", s(mk)));
                    to.push(("msg_ops", J::Arr(mops)));
                    to.push(("target", bbj(*target)));
                    if let mir::UnwindAction::Cleanup(b) = unwind {
                        to.push(("unwind", bbj(*b)));
                    }
                }
                TerminatorKind::FalseEdge { real_target, .. } => {
                    to.push(("k", s("goto")));
                    to.push(("target", bbj(*real_target)));
                }
                TerminatorKind::FalseUnwind { real_target, .. } => {
                    to.push(("k", s("goto")));
                    to.push(("target", bbj(*real_target)));
                }
                other => {
                    to.push(("k", s("other")));
                    to.push(("repr", s(format!("{:?}", other).chars().take(80).collect::<String>())));
                }
            }
            to.push(("line", J::Int(line)));
            if exp {
                to.push(("cline", J::Int(cl)));
            }
            blocks.push(J::Obj(vec![
                ("cleanup", J::Bool(data.is_cleanup)),
                ("stmts", J::Arr(stmts)),
                ("term", J::Obj(to)),
            ]));
        }
        o.push(("ret_ty", s(self.ty(body.return_ty()))));
        o.push(("blocks", J::Arr(blocks)));
        J::Obj(o)
    }
}

fn dump(tcx: TyCtxt<'_>) {
    let dir = match std::env::var("YUI_FACTS_DIR") {
        Ok(d) => d,
        Err(_) => return,
    };
    let krate = tcx.crate_name(LOCAL_CRATE).to_string();
    let cx = Cx { tcx, krate: krate.clone() };
    let mut bodies = vec![];
    for ldid in tcx.mir_keys(()).iter() {
        let did = ldid.to_def_id();
        let kind = tcx.def_kind(did);
        if !matches!(kind, DefKind::Fn | DefKind::AssocFn | DefKind::Closure) {
            continue;
        }
        if !tcx.is_mir_available(did) {
            continue;
        }
        bodies.push(cx.body(did));
        for (pi, pb) in tcx.promoted_mir(did).iter_enumerated() {
            bodies.push(cx.body_json(did, pb, Some(pi.as_usize())));
        }
    }
    // ADTs and impls
    let mut adts = vec![];
    let mut impls = vec![];
    for ldid in tcx.hir_crate_items(()).definitions() {
        let did = ldid.to_def_id();
        match tcx.def_kind(did) {
            DefKind::Struct | DefKind::Enum | DefKind::Union => {
                let adt = tcx.adt_def(did);
                let (file, line, _, exp) = cx.loc(tcx.def_span(did));
                let mut variants = vec![];
                for (vidx, v) in adt.variants().iter_enumerated() {
                    // discriminant value as MIR switches see it (explicit `= n` values included)
                    let dval: Option<u128> = if adt.is_enum() {
                        Some(adt.discriminant_for_variant(tcx, vidx).val)
                    } else {
                        None
                    };
                    let fields: Vec<J> = v
                        .fields
                        .iter()
                        .map(|f| {
                            let vis = match tcx.visibility(f.did) {
                                ty::Visibility::Public => "pub".to_string(),
                                ty::Visibility::Restricted(m) => {
                                    format!("restricted:{}", cx.path(m))
                                }
                            };
                            let fty = tcx.type_of(f.did).instantiate_identity().skip_norm_wip();
                            J::Obj(vec![
                                ("name", s(f.name.to_string())),
                                ("vis", s(vis)),
                                ("ty", s(cx.ty(fty))),
                            ])
                        })
                        .collect();
                    let mut vo = vec![
                        ("name", s(v.name.to_string())),
                        ("fields", J::Arr(fields)),
                    ];
                    if let Some(d) = dval {
                        vo.push(("discr", s(d.to_string())));
                    }
                    variants.push(J::Obj(vo));
                }
                adts.push(J::Obj(vec![
                    ("def", s(cx.path(did))),
                    ("kind", s(format!("{:?}", tcx.def_kind(did)))),
                    ("file", s(file)),
                    ("line", J::Int(line)),
                    ("from_expansion", J::Bool(exp)),
                    ("module", s(cx.path(tcx.parent_module_from_def_id(ldid).to_def_id()))),
                    ("variants", J::Arr(variants)),
                ]));
            }
            DefKind::Impl { .. } => {
                let st = tcx.type_of(did).instantiate_identity().skip_norm_wip();
                let mut io: Vec<(&'static str, J)> =
                    vec![("def", s(cx.path(did))), ("self_ty", s(cx.ty(st)))];
                if let ty::Adt(adt, _) = st.kind() {
                    io.push(("self_adt", s(cx.path(adt.did()))));
                }
                if let Some(tr) = tcx.impl_opt_trait_ref(did) {
                    let tr = tr.instantiate_identity().skip_norm_wip();
                    io.push(("trait", s(cx.path(tr.def_id))));
                }
                let (file, line, _, exp) = cx.loc(tcx.def_span(did));
                io.push(("file", s(file)));
                io.push(("line", J::Int(line)));
                io.push(("from_expansion", J::Bool(exp)));
                let items: Vec<J> = tcx
                    .associated_items(did)
                    .in_definition_order()
                    .filter(|a| matches!(a.kind, ty::AssocKind::Fn { .. }))
                    .map(|a| {
                        J::Obj(vec![
                            ("name", s(a.name().to_string())),
                            ("def", s(cx.path(a.def_id))),
                            ("id", s(cx.id(a.def_id))),
                            (
                                "trait_item_id",
                                match a.trait_item_def_id() {
                                    Some(t) => s(cx.id(t)),
                                    None => J::Null,
                                },
                            ),
                            (
                                "trait_item",
                                match a.trait_item_def_id() {
                                    Some(t) => s(cx.path(t)),
                                    None => J::Null,
                                },
                            ),
                        ])
                    })
                    .collect();
                io.push(("items", J::Arr(items)));
                impls.push(J::Obj(io));
            }
            _ => {}
        }
    }
    let cfgs: Vec<J> = {
        let mut v: Vec<String> = tcx
            .sess
            .config
            .iter()
            .filter_map(|(k, val)| {
                let k = k.to_string();
                if k == "feature" {
                    val.map(|x| format!("feature={}", x))
                } else if k == "test" || k == "debug_assertions" || k == "overflow_checks" {
                    Some(k)
                } else {
                    None
                }
            })
            .collect();
        v.sort();
        v.into_iter().map(s).collect()
    };
    let crate_type = format!("{:?}", tcx.crate_types());
    let root = J::Obj(vec![
        ("crate", s(krate.clone())),
        ("crate_types", s(crate_type)),
        ("cfg", J::Arr(cfgs)),
        ("bodies", J::Arr(bodies)),
        ("adts", J::Arr(adts)),
        ("impls", J::Arr(impls)),
    ]);
    let mut out = String::with_capacity(1 << 22);
    root.write(&mut out);
    let is_test = tcx.sess.opts.test;
    let fname = format!("{}/{}{}.json", dir, krate, if is_test { ".test" } else { "" });
    let tmp = format!("{}.{}.tmp", fname, std::process::id());
    std::fs::write(&tmp, out).expect("write facts");
    std::fs::rename(&tmp, &fname).expect("rename facts");
}

struct Cb;

impl rustc_driver::Callbacks for Cb {
    fn after_analysis<'tcx>(
        &mut self,
        _compiler: &rustc_interface::interface::Compiler,
        tcx: TyCtxt<'tcx>,
    ) -> Compilation {
        dump(tcx);
        Compilation::Continue
    }
}

fn main() {
    let mut args: Vec<String> = std::env::args().collect();
    // RUSTC_WORKSPACE_WRAPPER: argv = [wrapper, rustc, args...]
    if args.len() > 1 {
        args.remove(1);
    }
    rustc_driver::run_compiler(&args, &mut Cb);
}
