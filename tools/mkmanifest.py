#!/usr/bin/env python3
"""Regenerates /verif/MANIFEST.json from the table below (keeps checks / not_applicable consistent)."""
import json, os
V = os.path.dirname(os.path.dirname(os.path.abspath(__file__)))

CLAIMS = {
 'C15': dict(cat='other', tech='static analysis: MIR float-taint dataflow + path-sensitive symbolic return summaries',
   text='Static analysis (for all inputs, on the real MIR) of two necessary conditions of C15: no exact Euclidean operation has a float on its data/control path (so div_round and quadratic-integer division are exact at any magnitude), and every return path of gcd/gcdx/lcm (generic + overrides) yields the normalised associate with consistently rescaled Bezout coefficients. The arithmetic identities (a = q*b + r, s*a + t*b = d) are NOT decided.',
   ref='DESIGN.md §3 E2, E3; §4 C15',
   note='Trusted: rustc MIR of the current tree; CHA over-approximation for unresolved trait calls; num_integer gcd results non-negative; normalizing_unit tables correct.'),
 'C17': dict(cat='proof', tech='static analysis: abstract interpretation (linear inequalities + bit-width domain, Fourier-Motzkin) over MIR',
   text='Proof, for all lengths 0..64 and all arguments symbolically, of a stated obligation set over the real MIR of every body in misc::bitseq: every compiler-inserted overflow/shift check and pow call is discharged (so the 64-bit boundary and over-capacity operations are rejected by explicit asserts and never wrap), len <= 64 and width(val) <= len hold at every return, fields are private and every literal establishes the invariant, and Ord is the lexicographic chain (len, weight, val) covering all Eq fields. Functional equivalence of each operation with the list-of-booleans operation is NOT decided.',
   ref='DESIGN.md §3 E4; §4 C17',
   note='Trusted: MIR semantics of checked arithmetic; in-house Fourier-Motzkin and width algebra; explicit assert!s are the documented rejections.'),
}

NA = {
 'C02': 'invariance under Reidemeister/braid moves quantifies over pairs of diagrams and compares computed homology tables; no clause is a shape property of the source beyond the crossing tables decided under C18',
 'C03': 'universal-coefficient relations are arithmetic between ranks/torsion computed at run time; no static argument in reach bounds them',
 'C07': 'rank/torsion/coordinate-map correctness is linear algebra on runtime values (products of SNF outputs); no structural necessary condition beyond what shape asserts already enforce',
 'C08': 'chain-homotopy equivalence of the reduction is matrix arithmetic on runtime values; its schedule clause is decided under C11/C12',
}
PENDING = 'not claimed at this commit: its static check (DESIGN.md §4) is still being built'

def main():
    checks = []
    for pid in sorted(CLAIMS):
        c = CLAIMS[pid]
        checks.append({
            'property_id': pid,
            'quick_cmd': './check %s --tier quick' % pid,
            'thorough_cmd': './check %s --tier thorough' % pid,
            'evidence_file': '/verif/evidence/%s.json' % pid,
            'replay_cmd_template': './check %s --replay {path}' % pid,
            'engine': 'rules',
            'level_claimed': {'category': c['cat'], 'text': c['text'], 'design_ref': c['ref']},
            'level_note': c['note'],
            'technique': c['tech'],
        })
    na = []
    for i in range(1, 21):
        pid = 'C%02d' % i
        if pid in CLAIMS:
            continue
        na.append({'property_id': pid, 'reason': NA.get(pid, PENDING)})
    claimed = sorted(CLAIMS)
    m = {
        'version': 1,
        'setup_cmd': 'cd /verif && ./setup.sh',
        'hooks': {
            'guard': 'yui_verif (reserved, unused: static analysis needs no instrumentation of /repo)',
            'enable': 'none - checks run `cargo +nightly check --offline` on /repo\'s working tree through the fact driver (RUSTC_WORKSPACE_WRAPPER)',
            'baseline_off_cmd': 'cd /repo && cargo test --workspace --no-fail-fast --offline',
            'source_commits': [],
            'add_only': True,
        },
        'engines': [
            {'name': 'facts-driver', 'path': 'driver/', 'serves_properties': claimed,
             'kind_free_text': 'rustc_private driver dumping type-checked MIR (resolved callees, field names, overflow asserts) as JSON facts'},
            {'name': 'rules', 'path': 'rules/', 'serves_properties': claimed,
             'kind_free_text': 'Python rule engines over the MIR facts: taint dataflow, path-sensitive symbolic summaries, abstract interpretation, call-graph reachability'},
        ],
        'checks': checks,
        'not_applicable': na,
        'notes': 'Static-analysis family only; nothing executes yui code. See DESIGN.md. /repo carries only `fix:` commits (known_findings.json).',
    }
    json.dump(m, open(os.path.join(V, 'MANIFEST.json'), 'w'), indent=1)
    print('MANIFEST.json: %d checks, %d not_applicable' % (len(checks), len(na)))

if __name__ == '__main__':
    main()
