#!/usr/bin/env python3
"""Regenerates /verif/MANIFEST.json from the table below (keeps checks / not_applicable consistent)."""
import json, os
V = os.path.dirname(os.path.dirname(os.path.abspath(__file__)))

CLAIMS = {
 'C15': dict(cat='other', tech='static analysis: MIR float-taint dataflow + path-sensitive symbolic return summaries',
   text='Static analysis (for all inputs, on the real MIR) of two necessary conditions of C15: no exact Euclidean operation has a float on its data/control path (so div_round and quadratic-integer division are exact at any magnitude), and every return path of gcd/gcdx/lcm (generic + overrides) yields the normalised associate with consistently rescaled Bezout coefficients. The arithmetic identities (a = q*b + r, s*a + t*b = d) are NOT decided.',
   ref='DESIGN.md §3 E2, E3; §4 C15',
   note='Trusted: rustc MIR of the current tree; CHA over-approximation for unresolved trait calls; num_integer gcd results non-negative; normalizing_unit tables correct.'),
 'C17': dict(cat='proof', tech='static analysis: abstract interpretation (linear inequalities + bit-width domain, Fourier-Motzkin) over MIR',
   text='Proof, for all lengths 0..64 and all arguments symbolically, of a stated obligation set over the real MIR of every body in misc::bitseq: every compiler-inserted overflow/shift check and pow call is discharged (so the 64-bit boundary and over-capacity operations are rejected by explicit asserts and never wrap), len <= 64 and width(val) <= len hold at every return, fields are private and every literal establishes the invariant, and Ord is the lexicographic chain (len, weight, val) covering all Eq fields. Functional equivalence of each operation with the list-of-booleans operation is NOT decided.',
   ref='DESIGN.md §3 E4; §4 C17',
   note='Trusted: MIR semantics of checked arithmetic; in-house Fourier-Motzkin and width algebra; explicit assert!s are the documented rejections.'),
 'C14': dict(cat='other', tech='static analysis: path-sensitive symbolic summaries (canonical-form typestate), float-taint dataflow, operator-variant delegation check over MIR',
   text='Static analysis, for all operand values and all operation histories (induction over the API), of necessary conditions of C14: Ratio is in lowest terms with normalised denominator on every return path of every function that can touch its fields (reduce() itself checked path by path; two reviewed shortcut shapes; raw construction only at reviewed sites; fields private), FF<p> representatives come only from rem_euclid/0/1, no float is on any data/control path of ring operations, Eq or Ord of the scalar types (order consistent with equality at any magnitude), and every by-value/by-ref/assigning operator variant is a pure in-order delegation to one hand-written body. The ring axioms as arithmetic and the QuadInt product formula are NOT decided.',
   ref='DESIGN.md §3 E1, E2; §4 C14',
   note='Trusted: rustc MIR; operator-assign trait contract; theorem that a cross-cancelled product of reduced fractions is reduced; EucRing::gcd normalised (C15).'),
 'C16': dict(cat='other', tech='static analysis: typestate dataflow (dirty => normalise before escape) over MIR CFGs',
   text='Static must-analysis over the MIR (all paths incl. loops) of the representation invariants that polynomial equality relies on: Lc never escapes with a possibly-zero coefficient stored and MultiDeg never with a zero exponent - every dirtying event (field write, &mut into the map given to a non-preserving method, documented-dirty add_pair*) reaches clean()/reduce() before the value is returned or moved; raw construction only at reviewed, mechanically justified sites; fields private; callers of the dirty API workspace-wide are checked. By induction over the API equality, is_zero, term count are those of the mathematical object after any operation sequence. Ring axioms, evaluation homomorphism and order compatibility are NOT decided.',
   ref='DESIGN.md §3 E1; §4 C16',
   note='Trusted: container-method preservation table; received values clean by induction; unwinding paths not considered.'),
 'C01': dict(cat='other', tech='static analysis: normal-form typestate, symmetric-update check, affine formula extraction, relation tables read from MIR decision trees and verified by exact polynomial arithmetic, guard live-range analysis',
   text='Static analysis of structural necessary conditions of C01 only - the isomorphism with the cube-of-resolutions homology is NOT decided. Decided for every path, every (h,t) and every schedule: Tng/Cob keep their sorted normal form (they are hash-map keys of the differential), the doubly stored adjacency is updated symmetrically, the two genus recomputations and the Euler/degree formulas are the published affine forms, the complex and the transported cycles use the same elimination formula d - c a^-1 b in that operand order, the Bar-Natan relation tables (neck cutting, XY = t, X^2 = hX + t, Y^2 = -hY + t, closed evaluations, zero/unit predicates, delooping dual basis) are identities of Z[h,t][X]/(X^2-hX-t), and the write guard of connect_edges is neither re-acquired nor held across a rayon entry.',
   ref='DESIGN.md §3 E1, E13, E8, E9, E5; §4 C01',
   note='Trusted: Vec order-preserving method table; Frobenius algebra and grading as stated in the property anchor; finite grid justified by the thresholds (0,1,2, parity) the code compares against.'),
 'C04': dict(cat='other', tech='static analysis: affine formula extraction from MIR and sibling agreement',
   text='Static sibling-agreement check of the two independent encodings of the grading conventions on which chi_q(Kh) = Jones depends: the global shift (-n_neg, n_pos - 2 n_neg [+1 reduced]) versus the Jones prefactor (-1)^{n_neg} q^{n_pos - 2 n_neg}, and the generator bidegree (h0 + |s|, q0 + sum deg + #circles + |s| with deg 1 = 0, deg X = -2) versus the state-sum weight (-q)^{|s|} (q + q^-1)^{#circles}. A disagreement breaks the identity on every diagram with a crossing. The identity itself, isotopy invariance and q -> q^-1 under mirroring are NOT decided.',
   ref='DESIGN.md §3 E8; §4 C04',
   note='Trusted: atoms identified by their accessor (signed_crossing_nums, weight, label length).'),
 'C05': dict(cat='other', tech='static analysis: rewrite rules read from the MIR decision tree of part_eval, verified by exact polynomial arithmetic on a finite grid (induction step)',
   text='Static verification that every rewriting step applied to cobordisms (the only place where ring parameters enter the differential) is an identity of Z[h,t][X]/(X^2-hX-t) and homogeneous for deg X = Y = handle = -2, deg h = -2, deg t = -4, that no case falls through, and that cobordism degree is chi - e/2 - 2 dots: necessary for d.d = 0, for degree-0 homogeneity over any commutative ring (polynomial parameters included) and for compatibility with specialisation. d.d = 0 itself, the homological degree and equality of homologies after evaluation are NOT decided.',
   ref='DESIGN.md §3 E9, E8; §4 C05',
   note='Trusted: the algebra and grading named in the property; the grid covers every threshold the code compares against.'),
 'C06': dict(cat='other', tech='static analysis: affine formula agreement, must-precede / who-may-call over MIR paths and call graph, delooping table check',
   text='Static analysis of structural necessary conditions: ss = 2d + w - r + 1 is the same affine form over the same atoms at all five sites; canonical cycles are transported before the complex is rewritten at every deloop and elimination and the rewriting functions are reachable only through those wrappers; cycles are delooped with the same death dots and eliminated with the same formula as the complex. Non-torsion of the classes, rank 2^components, diagram independence, mirror sign and the crossing-change inequality are NOT decided.',
   ref='DESIGN.md §3 E8, E12, E9; §4 C06',
   note='Trusted: published ss formula; call graph over-approximation.'),
 'C13': dict(cat='other', tech='static analysis: sibling agreement of index-offset tables and fold orders read from MIR; float taint',
   text='Thin: three structural clauses only. The four-way split subtracts exactly the offsets that recombination adds (block by block), a composed transform multiplies its factors in the same order collapsed and uncollapsed, and no container operation returns/branches on/stores a float-derived value. The entries produced by the remaining operations are NOT decided.',
   ref='DESIGN.md §3 E8 F8, E10b; §4 C13',
   note='Trusted: Iterator::rev/fold semantics.'),
 'C19': dict(cat='other', tech='static analysis: who-may-write on the involution key map, symmetry of the pair helpers, literal key tables, formula agreement',
   text='Thin: tau must be an involution on keys for the cone of 1 + tau to be a complex. Decided: single key-map entries are written only through the two pair helpers, both symmetric in (k, tau k); the literal key tables are the coordinate swap and the identity; connecting combines pairs componentwise; both involutive s-invariants use 2d + w - r + 1 over the same atoms. That the homology is that of the mapping cone, agreement with ordinary Kh, s0 <= s1 and mirror behaviour are NOT decided.',
   ref='DESIGN.md §3 E7b, E8; §4 C19',
   note='Trusted: HashMap semantics.'),
}

NA = {
 'C02': 'invariance under Reidemeister/braid moves quantifies over pairs of diagrams and compares computed homology tables; no clause is a shape property of the source beyond the crossing tables decided under C18',
 'C03': 'universal-coefficient relations are arithmetic between ranks/torsion computed at run time; no static argument in reach bounds them',
 'C07': 'rank/torsion/coordinate-map correctness is linear algebra on runtime values (products of SNF outputs); no structural necessary condition beyond what shape asserts already enforce',
 'C08': 'chain-homotopy equivalence of the reduction is matrix arithmetic on runtime values; its schedule clause is decided under C11/C12',
}
PENDING = 'not claimed at this commit: its static check (DESIGN.md §4) is still being built'

def main():
    checks = []
    for pid in sorted(CLAIMS):
        c = CLAIMS[pid]
        checks.append({
            'property_id': pid,
            'quick_cmd': './check %s --tier quick' % pid,
            'thorough_cmd': './check %s --tier thorough' % pid,
            'evidence_file': '/verif/evidence/%s.json' % pid,
            'replay_cmd_template': './check %s --replay {path}' % pid,
            'engine': 'rules',
            'level_claimed': {'category': c['cat'], 'text': c['text'], 'design_ref': c['ref']},
            'level_note': c['note'],
            'technique': c['tech'],
        })
    na = []
    for i in range(1, 21):
        pid = 'C%02d' % i
        if pid in CLAIMS:
            continue
        na.append({'property_id': pid, 'reason': NA.get(pid, PENDING)})
    claimed = sorted(CLAIMS)
    m = {
        'version': 1,
        'setup_cmd': 'cd /verif && ./setup.sh',
        'hooks': {
            'guard': 'yui_verif (reserved, unused: static analysis needs no instrumentation of /repo)',
            'enable': 'none - checks run `cargo +nightly check --offline` on /repo\'s working tree through the fact driver (RUSTC_WORKSPACE_WRAPPER)',
            'baseline_off_cmd': 'cd /repo && cargo test --workspace --no-fail-fast --offline',
            'source_commits': [],
            'add_only': True,
        },
        'engines': [
            {'name': 'facts-driver', 'path': 'driver/', 'serves_properties': claimed,
             'kind_free_text': 'rustc_private driver dumping type-checked MIR (resolved callees, field names, overflow asserts) as JSON facts'},
            {'name': 'rules', 'path': 'rules/', 'serves_properties': claimed,
             'kind_free_text': 'Python rule engines over the MIR facts: taint dataflow, path-sensitive symbolic summaries, abstract interpretation, call-graph reachability'},
        ],
        'checks': checks,
        'not_applicable': na,
        'notes': 'Static-analysis family only; nothing executes yui code. See DESIGN.md. /repo carries only `fix:` commits (known_findings.json).',
    }
    json.dump(m, open(os.path.join(V, 'MANIFEST.json'), 'w'), indent=1)
    print('MANIFEST.json: %d checks, %d not_applicable' % (len(checks), len(na)))

if __name__ == '__main__':
    main()
