#!/usr/bin/env python3
"""Regenerates /verif/MANIFEST.json from the table below (keeps checks / not_applicable consistent)."""
import json, os
V = os.path.dirname(os.path.dirname(os.path.abspath(__file__)))

CLAIMS = {
 'C15': dict(cat='other', tech='static analysis: MIR float-taint dataflow, path-sensitive symbolic return summaries, polynomial-identity and sign-table (Fourier-Motzkin) checks on formulas read from MIR',
   text='Static analysis (for all inputs, on the real MIR) of two necessary conditions of C15: no exact Euclidean operation has a float on its data/control path (so div_round and quadratic-integer division are exact at any magnitude), and every return path of gcd/gcdx/lcm (generic + overrides) yields the normalised associate with consistently rescaled Bezout coefficients. Additionally: the nearest-integer quotient is overflow-free for every machine width (linear model, Fourier-Motzkin); the QuadInt inverse is norm^-1 * conj, Gauss / Eisenstein division rounds the exact numerator self*conj(rhs) by norm(rhs) after a checked linear change of basis, rem = a - b*(a/b), and the quadrant / sextant normalising-unit tables provably send every z into one fundamental sector (so normalisation is idempotent and constant on associates). The Bezout values s*a + t*b = d and the remainder-norm bound are NOT decided. Polynomial long division: each step is (0, f) or (q, f - q g) with q = lt(f)/lt(g), repeated deg f - deg g + 1 times.',
   ref='DESIGN.md §3 E2, E3, E15, E20; §4 C15',
   note='Trusted: rustc MIR of the current tree; CHA over-approximation for unresolved trait calls; num_integer gcd results non-negative; normalizing_unit of the integer / polynomial types (the QuadInt tables are checked, E20.Q6).'),
 'C17': dict(cat='proof', tech='static analysis: abstract interpretation (linear inequalities + bit-width domain, Fourier-Motzkin) over MIR',
   text='Proof, for all lengths 0..64 and all arguments symbolically, of a stated obligation set over the real MIR of every body in misc::bitseq: every compiler-inserted overflow/shift check and pow call is discharged (so the 64-bit boundary and over-capacity operations are rejected by explicit asserts and never wrap), len <= 64 and width(val) <= len hold at every return, fields are private and every literal establishes the invariant, and Ord is the lexicographic chain (len, weight, val) covering all Eq fields. Functional equivalence of each operation with the list-of-booleans operation is NOT decided. Also (outside the proof obligations, level other): Display writes one character per element and never formats the packed word; no narrowing cast of a 64-bit value in the module.',
   ref='DESIGN.md §3 E4; §4 C17',
   note='Trusted: MIR semantics of checked arithmetic; in-house Fourier-Motzkin and width algebra; explicit assert!s are the documented rejections.'),
 'C14': dict(cat='other', tech='static analysis: path-sensitive symbolic summaries (canonical-form typestate), float-taint dataflow, operator-variant delegation check, polynomial identities of the QuadInt formulas over MIR',
   text='Static analysis, for all operand values and all operation histories (induction over the API), of necessary conditions of C14: Ratio is in lowest terms with normalised denominator on every return path of every function that can touch its fields (reduce() itself checked path by path; two reviewed shortcut shapes; raw construction only at reviewed sites; fields private), FF<p> representatives come only from rem_euclid/0/1, no float is on any data/control path of ring operations, Eq or Ord of the scalar types (order consistent with equality at any magnitude), and every by-value/by-ref/assigning operator variant is a pure in-order delegation to one hand-written body. The QuadInt product / conjugate / norm formulas are verified as polynomial identities of Z[w] symbolically in D (per congruence class, per zero-test shortcut). The ring axioms of the underlying integer types (num-traits, num-bigint) and overflow are NOT decided. Ratio *= cancels before it multiplies: no reduce() or division after a product, so no intermediate exceeds the result.',
   ref='DESIGN.md §3 E1, E2, OPV, E20; §4 C14',
   note='Trusted: rustc MIR; operator-assign trait contract; theorem that a cross-cancelled product of reduced fractions is reduced; EucRing::gcd normalised (C15).'),
 'C16': dict(cat='other', tech='static analysis: typestate dataflow (dirty => normalise before escape) over MIR CFGs, lex / grlex order shape (increasing variable index over both supports), universal shortcut predicates',
   text='Static must-analysis over the MIR (all paths incl. loops) of the representation invariants that polynomial equality relies on: Lc never escapes with a possibly-zero coefficient stored and MultiDeg never with a zero exponent - every dirtying event (field write, &mut into the map given to a non-preserving method, documented-dirty add_pair*) reaches clean()/reduce() before the value is returned or moved; raw construction only at reviewed, mechanically justified sites; fields private; callers of the dirty API workspace-wide are checked. By induction over the API equality, is_zero, term count are those of the mathematical object after any operation sequence. Ring axioms, evaluation homomorphism and order compatibility are NOT decided. Additionally: every cmp_lex compares the exponents in increasing variable index, self against other, over an index source that is increasing and covers both supports (dense range; a concatenation of the two key lists is rejected). Lc -= negates every coefficient it takes from rhs.',
   ref='DESIGN.md §3 E1; §4 C16',
   note='Trusted: container-method preservation table; received values clean by induction; unwinding paths not considered.'),
 'C01': dict(cat='other', tech='static analysis: normal-form typestate, symmetric-update check, affine formula extraction, relation tables read from MIR decision trees and verified by exact polynomial arithmetic, guard live-range analysis, shortcut justification under ring guards',
   text='Static analysis of structural necessary conditions of C01 only - the isomorphism with the cube-of-resolutions homology is NOT decided. Decided for every path, every (h,t) and every schedule: Tng/Cob keep their sorted normal form (they are hash-map keys of the differential), the doubly stored adjacency is updated symmetrically, the two genus recomputations and the Euler/degree formulas are the published affine forms, the complex and the transported cycles use the same elimination formula d - c a^-1 b in that operand order, the Bar-Natan relation tables (neck cutting, XY = t, X^2 = hX + t, Y^2 = -hY + t, closed evaluations, zero/unit predicates, delooping dual basis) are identities of Z[h,t][X]/(X^2-hX-t), and the write guard of connect_edges is neither re-acquired nor held across a rayon entry. Also: the Koszul sign of the tensor differential sits on exactly one edge family with the degree of the other factor as exponent; the pivot gate of Gaussian elimination implies a single invertible term (inv() reads only the first); every shortcut of part_eval is justified under the ring guards it tests; one based-circle predicate for complex and cycles.',
   ref='DESIGN.md §3 E1, E13, E8, E9, E5; §4 C01',
   note='Trusted: Vec order-preserving method table; Frobenius algebra and grading as stated in the property anchor; finite grid justified by the thresholds (0,1,2, parity) the code compares against.'),
 'C04': dict(cat='other', tech='static analysis: affine formula extraction from MIR and sibling agreement',
   text='Static sibling-agreement check of the two independent encodings of the grading conventions on which chi_q(Kh) = Jones depends: the global shift (-n_neg, n_pos - 2 n_neg [+1 reduced]) versus the Jones prefactor (-1)^{n_neg} q^{n_pos - 2 n_neg}, and the generator bidegree (h0 + |s|, q0 + sum deg + #circles + |s| with deg 1 = 0, deg X = -2) versus the state-sum weight (-q)^{|s|} (q + q^-1)^{#circles}. A disagreement breaks the identity on every diagram with a crossing. The identity itself, isotopy invariance and q -> q^-1 under mirroring are NOT decided. Also: the bigraded complex the ranks are read from contains every generator (support over all summands, min..max, piece predicate q_deg = j); the orientation sweep tries every crossing as a start.',
   ref='DESIGN.md §3 E8; §4 C04',
   note='Trusted: atoms identified by their accessor (signed_crossing_nums, weight, label length).'),
 'C05': dict(cat='other', tech='static analysis: rewrite rules read from the MIR decision tree of part_eval, verified by exact polynomial arithmetic on a finite grid (induction step); shortcut justification: every return path of the part_eval wrappers that bypasses the table is zero on all grid points it applies to under the ring guards it tests',
   text='Static verification that every rewriting step applied to cobordisms (the only place where ring parameters enter the differential) is an identity of Z[h,t][X]/(X^2-hX-t) and homogeneous for deg X = Y = handle = -2, deg h = -2, deg t = -4, that no case falls through, and that cobordism degree is chi - e/2 - 2 dots: necessary for d.d = 0, for degree-0 homogeneity over any commutative ring (polynomial parameters included) and for compatibility with specialisation. d.d = 0 itself, the homological degree and equality of homologies after evaluation are NOT decided. Also: Koszul sign of the tensor differential; pivot gate implies a single invertible term.',
   ref='DESIGN.md §3 E9, E8; §4 C05',
   note='Trusted: the algebra and grading named in the property; the grid covers every threshold the code compares against.'),
 'C06': dict(cat='other', tech='static analysis: affine formula agreement, must-precede / who-may-call over MIR paths and call graph, delooping table check, relation tables and shortcut justification by exact arithmetic in the Frobenius algebra',
   text='Static analysis of structural necessary conditions: ss = 2d + w - r + 1 is the same affine form over the same atoms at all five sites; canonical cycles are transported before the complex is rewritten at every deloop and elimination and the rewriting functions are reachable only through those wrappers; cycles are delooped with the same death dots and eliminated with the same formula as the complex. Non-torsion of the classes, rank 2^components, diagram independence, mirror sign and the crossing-change inequality are NOT decided. Additionally the relation table, the zero / unit / should-evaluate predicates and every shortcut of part_eval are identities of the Frobenius algebra for every (h, t), in particular t != 0. Also: canonical cycles carry one dot per Seifert circle (X iff colour agrees with the orientation bit) over the bipartite colouring; c-divisibility = minimum over non-zero free coordinates of the number of exact divisions.',
   ref='DESIGN.md §3 E8, E12, E9; §4 C06',
   note='Trusted: published ss formula; call graph over-approximation.'),
 'C13': dict(cat='other', tech='static analysis: sibling agreement of index-offset tables and fold orders read from MIR; float taint',
   text='Thin: three structural clauses only. The four-way split subtracts exactly the offsets that recombination adds (block by block), a composed transform multiplies its factors in the same order collapsed and uncollapsed, and no container operation returns/branches on/stores a float-derived value. The entries produced by the remaining operations are NOT decided. Also: the index maps of permute / submat / from_dense_data / from_*_perm / concat / stack / extract are the tabulated ones (a differing shape is judged by value on a grid), extend_cols yields ncols(a) + ncols(b) columns on every path, and Trans composes and collapses its factor lists consistently (words f2 f1 f0 / b0 b1 b2, shortcut guard = list used).',
   ref='DESIGN.md §3 E8 F8, E10b; §4 C13',
   note='Trusted: Iterator::rev/fold semantics.'),
 'C19': dict(cat='other', tech='static analysis: who-may-write on the involution key map, symmetry of the pair helpers, literal key tables, formula agreement',
   text='Thin: tau must be an involution on keys for the cone of 1 + tau to be a complex. Decided: single key-map entries are written only through the two pair helpers, both symmetric in (k, tau k); the literal key tables are the coordinate swap and the identity; connecting combines pairs componentwise; both involutive s-invariants use 2d + w - r + 1 over the same atoms. That the homology is that of the mapping cone, agreement with ordinary Kh, s0 <= s1 and mirror behaviour are NOT decided. Also: from_kh_complex is the cone of 1 + tau (generators B(C_i) + Q(C_{i-1}), d(Bx) = B dx + Qx + Q tau x, d(Qx) = Q dx); InvLink stores the crossing involution symmetrically, its edge map is an involution fixing the base point, mirror mirrors both sides; off-axis crossings are grouped by a union over all adjacent pairs; the reduced symmetric builder is based at the axis point; every chosen crossing is appended.',
   ref='DESIGN.md §3 E7b, E8; §4 C19',
   note='Trusted: HashMap semantics.'),
 'C11': dict(cat='other', tech='static analysis: guard live-range dataflow, call-graph reachability to rayon, dominance/must-pass-through on MIR',
   text='Static analysis that holds for EVERY thread interleaving because it is a property of the code: the shared pivot table is written only inside the critical section that validated the choice (write() -> update_diff(&*guard) -> no-retry edge of should_retry() -> set(), one guard, never dropped in between; retry edge re-acquires and refreshes the snapshot first), no lock/cell is re-acquired while one of its guards can be alive, and no rayon entry is reachable while a thread-local RefCell borrow or the write guard is alive (work stealing would otherwise double-borrow or self-deadlock on some schedules). That the committed pivot set is acyclic for all inputs (completeness of the conflict test) is NOT decided, nor are pivot-condition values. Also: the re-validation under the write lock re-examines every newly committed pivot column that carries any mark of the worker.',
   ref='DESIGN.md §3 E5; §4 C11',
   note='Trusted: MIR drop elaboration; over-approximating call graph (CHA, closures invocable where passed); only rayon spawns parallel work.'),
 'C12': dict(cat='other', tech='static analysis: guard live-range dataflow + call-graph reachability to rayon over MIR, stale-read (lost-update) flow between critical sections, non-commutative block algebra of the Schur reduction',
   text='Static analysis of the concurrency structure of the sparse kernels, valid for one thread and many alike: the thread-local scratch vector of the triangular solver is never borrowed across a call that can reach rayon, and the union-find mutex of the block splitter is never re-locked while a guard on it is alive. The numerical clauses (A*X = Y, S = D - C A^-1 B, transfer-map identities, block decomposition, scratch returning to zero) are NOT decided. Additionally: no call made through a second acquisition of a lock receives a value read under an earlier, released guard of the same lock (lost update). Also: a true answer of col_intersects compares a row index of column j1 with one of column j2 (provenance of both operands).',
   ref='DESIGN.md §3 E5; §4 C12',
   note='Trusted: as C11.'),
 'C09': dict(cat='other', tech='static analysis: path-sensitive symbolic summaries of the mirroring wrappers, who-may-write and ordering checks, scan-to-fixpoint exit condition on the CFG, float taint over MIR',
   text='Static analysis of necessary conditions of D = P*A*Q, P*P^-1 = I, Q*Q^-1 = I for every matrix and every subset of the transform flags: every elementary row/column operation on the working matrix is mirrored into the requested companions with the same resp. inverse operation (indices, inverted/negated scalar, adjugate 2x2 block), only the wrappers mutate the working matrix, the phases run in the required order, every 2x2 block passed in is a Bezout block of determinant 1, and the exact divisions involve no float at any magnitude. The divisibility chain is decided as the exit condition of the normalising scan: a step answers true only after d[i] | d[i+1] was tested on an unmodified diagonal, a false answer restarts the scan at 0, the scan covers the whole non-zero prefix. That D is diagonal, its agreement with minors, and termination are NOT decided. Also: the unit normalisation post-dominates the chain loop; gcdx Bezout coefficients follow the normalised gcd.',
   ref='DESIGN.md §3 E6, E2, E21; §4 C09',
   note='Trusted: Mat elementary operations do what their names say; gcdx returns Bezout coefficients.'),
 'C10': dict(cat='other', tech='static analysis: path-sensitive symbolic summaries of the mirroring wrappers, who-may-write, float taint over MIR, dimensional analysis of the update formulas, data-dependence order of the size-reduction loop',
   text='Static analysis of necessary conditions of H = P*A, P*P^-1 = I (and B = P*A for LLL) for every input: swap / unit scaling / row addition on the basis and the HNF row reversal are mirrored into P and, inverted, into P^-1 on every path where they are requested; nothing else mutates the basis; the nearest-integer quotient used for size reduction is float-free (exact for hundreds of digits). Echelon form, reducedness, the Lovasz condition and termination are NOT decided. Additionally: every exact update formula is homogeneous under scaling of the basis (dimensional analysis), and size reduction of row k runs against the rows in descending order, which the write set of add_row_to (columns <= i of row k), read from the code, forces. The guards on the row count under which the last row is normalised admit every m >= 1.',
   ref='DESIGN.md §3 E6, E2; §4 C10',
   note='Trusted: as C09.'),
 'C20': dict(cat='other', tech='static analysis: call-graph reachability (who-may-call, no-stdout-before-error), path summaries of main/guard, path-sensitive dispatch-table extraction over MIR',
   text='Static analysis of the ykh binary for every option combination and every failure, without running it: all command dispatches execute inside the panic guard, the guard maps unwinding panics to Err, main writes the table only on the Ok arm and exits non-zero with nothing on stdout on the Err arm, no stdout write is reachable from dispatch (never a partial table before an error), no panic=abort profile; the macro-expanded (-t,-c) dispatch of kh and ckh instantiates App::<T>::run with exactly the documented ring for each (coefficient type, polynomial variables) pair, and every documented pair is present (thorough: also for the i128 and BigInt builds). That the printed cells equal the library values is NOT decided. Also: the module string of a cell mentions every summand for every (rank, torsion), and a group is printed in the cell of its own bidegree (rows j descending, columns i ascending, entry(row, col) = get((col, row))).',
   ref='DESIGN.md §3 E10; §4 C20',
   note='Trusted: over-approximating call graph; process::exit semantics; documented table A8 in DESIGN.md.'),
 'C18': dict(cat='other', tech='static analysis: convention tables read off MIR path summaries and cross-checked (sibling agreement)',
   text='Static cross-check, valid for every diagram, of the conventions that link traversal, crossing signs, resolutions, mirroring and braid closures rely on: the tables encoded in pass / arcs / resolve / mirror / the sign match / ori_pres_state / the braid-closure crossing codes are extracted from the MIR of the functions themselves and must agree with each other (involution and orbit structure, mirror/bit duality, sign parity under mirror and reversal, in/out pairing of the Seifert smoothing, counter-clockwise top-entry braid codes with the generator sign). That components partition the edge set of every PD code and that closures have the right component count are NOT decided. Also: every crossing is tried as a sweep start (signs and components); braid closure glues the edge at strand position i to top edge i.',
   ref='DESIGN.md §3 E7; §4 C18',
   note='Trusted: PD-code convention (index 0 = incoming under end, counter-clockwise); Sign::is_positive by name.'),
 'C08': dict(cat='other', tech='static analysis: block identities of the Schur reduction verified in a free non-commutative algebra on expressions read from MIR; role-table agreement of the reducer step',
   text='Static analysis of the structure of one chain-reduction step, valid for every complex, pivot strategy and schedule: the block expressions of the Schur reduction (read from the code) satisfy s = d - c a^-1 b, F_tgt*M*B_src = s, F*B = 1 and the chain-map conditions as identities of the free non-commutative algebra, and the step applies the column permutation to everything on C_i and the row permutation to everything on C_{i+1} (neighbouring differentials, accumulated transforms, tracked vectors) with the same rank, degrees and source/target transforms; merged transforms compose in a fixed order; no float decides a value. That the reduced complex has the same homology, that the triangular solvers and pivot permutations are correct, and the concurrency clauses (C11/C12) are NOT decided here. Also: matrices and tracked vectors are updated on every reducing path, transforms exactly when recorded; the matrix of d_i takes generators from degree i and coordinates in degree i + d; reduced() composes the original transform before the reducer transform and keeps d.',
   ref='DESIGN.md §3 E17, E18, E10b; §4 C08',
   note='Trusted: contracts of solve_triangular(_left), SpMat::permute, Trans::append_perm/merge.'),
 'C07': dict(cat='other', tech='static analysis: block/range algebra on the coordinate-map assembly read from MIR; flag-use agreement; formula extraction',
   text='Static analysis of how the homology record is assembled from the two Smith normal forms, valid for every pair (d_in, d_out), ring and flag: by range algebra on the row/column ranges taken from each transform and its inverse, the chain->homology map P and the homology->chain map Q satisfy P*Q = 1 (coordinates of the generators are the standard basis); d_out is restricted with exactly the columns Q uses; every unwrapped transform was requested under the same condition; rank = n - rank(d_in) - rank(d_out), torsion = non-unit factors of d_in; no float. That generators are cycles, boundaries map to zero, and SNF itself (C09) are NOT decided. Also: Summand maps (vectorize = forward, devectorize = backward, torsion coordinate i reduced mod tors[i - rank]); gcdx keeps its Bezout coefficients consistent with the normalised gcd (the 2x2 steps of the SNF have determinant 1).',
   ref='DESIGN.md §3 E19; §4 C07',
   note='Trusted: SNF transforms mutually inverse (C09); divisibility chain orders unit factors first; submat/stack/concat semantics.'),
 'C02': dict(cat='other', tech='static analysis: path summaries of the crossing-choice loop (every element consumed exactly once, who-may-remove), literal convention tables folded over finite domains, affine formula extraction from MIR',
   text='Invariance itself (isomorphic tables for two diagrams of one link) is NOT decided - it quantifies over pairs of diagrams. Decided, for every diagram, is one structural necessary condition per mechanism the property is anchored in: the crossing-choice heuristic decides only the order (choose_next answers None only when the selector over all remaining crossings found nothing, hands out exactly the entry it removes, process_all appends every crossing handed out, crossings are removed nowhere else); mirror exchanges X/Xm keeping edges, commutes with resolution by flipping the bit and makes the sign table odd; the orientation sweep shares one visited set; the braid-closure code of a generator is counter-clockwise from a top under-end and carries the generator sign; the global shift is (-n_neg, n_pos - 2 n_neg [+1 reduced]) and agrees with the Jones normalisation. Also: the resolution state (BitSeq) is never truncated by a narrowing cast (diagrams beyond 32 crossings).',
   ref='DESIGN.md §3 E22, E7, E8.F2; §4 C02',
   note='Trusted: std contracts of Iterator::max_by_key / Vec::remove; PD convention. Thin claim: necessary conditions only.'),
 'C03': dict(cat='other', tech='static analysis: path summaries with loop havoc of the generator-filing loop (each element filed exactly once under its own key), CFG reachability on the invariant-factor scan, expanded dispatch table',
   text='The universal-coefficient relations themselves (rank over Q = free rank over Z; F_p dimension = free rank + p-torsion counts) are arithmetic between run-time values and are NOT decided. Decided, for every link and ring, is one structural necessary condition per mechanism the property is anchored in: both routes to a bigraded table partition the generators by (h, q) - collect_gen_info visits k = 0 .. rank + #tors once, files generator k under the single key (i, q_deg(gen k)), free iff k < rank, else with order tors[k - rank], recording k either way; the piece (i, j) is assembled from the entry of the same key in (rank, tors, indices) order; the support is min..max of the keys; gen_grid puts x into (i, j) iff x generates C_i and q_deg(x) = j; the Smith normal form leaves its normalising scan only after a full pass of successful d[i] | d[i+1] tests (torsion is reported as invariant factors); the CLI runs the documented ring type for each -c value.',
   ref='DESIGN.md §3 E23, E21, E10.R6; §4 C03',
   note='Trusted: HashMap entry semantics; q-homogeneity of generators. Thin claim: necessary conditions only.'),
}

# sentences appended after later rounds (kept here so that the table above stays readable)
E33 = ' Also (E33): every boolean scan of this area (loop with a witness return / chain ending in any, all, find, position) examines every element - no early exit with the default answer, no truncating adapter.'
EXTRA = {
 'C01': E33, 'C05': E33, 'C06': E33 + ' Path::is_adj, on which the colouring of the Seifert circles rests, is one of them.', 'C18': E33, 'C13': E33, 'C12': E33, 'C16': E33,
 'C08': E33 + ' A pivot candidate is a unit for every PivotCondition (decision table of is_cand folded over is_pm_one / is_unit / weight).',
 'C11': ' Also: a pivot candidate is a unit for every PivotCondition (One: exactly +-1, AnyUnit: exactly the units, Weight: units within the bound).',
 'C10': ' Also (E26.V3): wherever a row is normalised, it is normalised on every returning path on which it has a pivot (no shortcut that concerns another row skips it).',
 'C07': ' Also: the invariant factors the torsion is read from form a divisibility chain - exit condition of the normalising scan of the SNF (E21, shared with C09).',
 'C03': ' Also: the field Q the ranks are compared over keeps every Ratio in lowest terms (E1 R0-R5, shared with C14).',
}
for _k, _v in EXTRA.items():
    CLAIMS[_k]['text'] += _v

R11 = ' Also (E9.R11): a return path of Cob::stack that skips the component-wise composition is taken only when the dropped operand is an identity - its guard is folded over a finite model of cobordisms (<= 2 components, 0..2 boundary pieces per end, genus 0/1, 0/1 dot).'
F4X = ' Every path of CobComp::connect that merges the boundary also recomputes the genus (E8.F4).'
EXTRA2 = {
 'C01': R11 + F4X, 'C05': R11 + F4X,
 'C02': R11 + ' Braid::closure glues the edge at strand position i to top edge i (E7.T10); the crossing tables are compared by value, whatever their form (match, array, chain of ifs).',
 'C12': ' Also (E5.L9): UnionFind::union, folded over every order of the two roots, writes only p[max] = min - the root of a class is its minimum, so the blocks group_cols returns do not depend on the order in which the parallel scan issued the unions.',
 'C13': ' Also (E27.W5): Trans::sub composes with the selector on the target side and its transpose on the way back on every path (a shortcut guarded by the length alone is reported); every path of append grows both lists.',
 'C15': ' The division loop of Poly::div_rem cannot be left from inside an iteration (E3.P1: all deg f - deg g + 1 steps are taken).',
 'C17': ' Also (E4.O7): BitSeq::from_iter is driven by the whole input (no adapter that can end early) and every iteration passes an explicit len < MAX_LEN test with a diverging failing edge before a bit is stored.',
 'C19': ' Also (E7b.K10): of every mirror pair of off-axis crossing clusters exactly one is kept, selected through the involution itself (inv_x), not by position in the list.',
 'C20': ' Also (E28.S5): every value into_rev_digits emits for the printed exponents is a literal 0..9, an x % 10, or bounded by 9 by the path conditions.',
}
for _k, _v in EXTRA2.items():
    CLAIMS[_k]['text'] += _v

B1 = ' The loop of the default gcdx keeps the Bezout invariant x = s0*X + t0*Y, y = s1*X + t1*Y (E3.B1: inductive polynomial identity over the back-edge values).'
S5 = ' Transforms built after a block was tested zero are checked modulo that block; on every returning path t_src : n -> n-r and t_tgt : m -> m-r (E17.S5: shapes as affine forms in m, n, r).'
T11 = ' Braid::closure emits exactly one crossing per letter of self.elements, not of a copy a callee rewrote (E7.T11).'
E34T = ' A term is inserted into the map of an Lc only after a failed lookup of its generator - colliding generators add, never overwrite (E34).'
EXTRA3 = {
 'C07': B1, 'C09': B1, 'C15': B1, 'C12': S5, 'C08': S5, 'C18': T11, 'C02': T11,
 'C20': ' parse_pair returns (text before the comma, text after it), whichever splitter produced the pieces (E10.R9).',
 'C19': ' khi::ssi::div reads d0 from a degree-0 cycle and d1 from a degree-1 cycle on the reduced and the unreduced path (E7b.K11).',
 'C06': E34T, 'C16': E34T,
}
for _k, _v in EXTRA3.items():
    CLAIMS[_k]['text'] += _v

EXTRA4 = {
 'C14': ' A helper returning (x / y, x % y)-based pairs returns a division with remainder: q*y + r = x on every path (E1.R6).',
 'C09': ' SnfCalc::new creates accumulator k iff flags[k], sized m, m, n, n (E6.M5).',
 'C15': ' The decision tree of the generic div_round, folded over a grid of operands, gives the nearest integer with ties away from zero (E15.V1).',
 'C16': ' MultiDeg::min_index / max_index are the extreme keys of the exponent map (E24.X3).',
 'C11': ' MatrixStr::head_col_in is the left-most stored entry of the row (E5.L10).',
 'C10': ' A whole-column exchange of lambda is checked for homogeneity like any other store (E14).',
 'C04': ' Link::resolved_by gives bit i to the i-th unresolved crossing (E7.T12).',
 'C02': ' The Koszul sign of connect_edges is present on every path that produces an edge of the signed family (E8.F11).',
}
for _k, _v in EXTRA4.items():
    CLAIMS[_k]['text'] += _v

EXTRA5 = {
 'C12': ' The triangular solvers reach entries through (i, j, value) iterators only, never by position in the compressed storage; collect_diag keeps an entry iff i == j (E31.P3).',
 'C13': ' SpVec::stack_vecs shifts block k by the accumulated dimension of the blocks before it (E8b.F15).',
 'C20': ' The one-row sequence is printed only on paths where is_zero() of the parsed h or t answered false (E10.R10).',
 'C17': ' BitSeq::from_str is the character table 0 -> Bit0, 1 -> Bit1, else Err (E4.O8).',
}
for _k, _v in EXTRA5.items():
    CLAIMS[_k]['text'] += _v

NA = {
}
PENDING = 'not claimed at this commit: its static check (DESIGN.md §4) is still being built'

def main():
    checks = []
    for pid in sorted(CLAIMS):
        c = CLAIMS[pid]
        checks.append({
            'property_id': pid,
            'quick_cmd': './check %s --tier quick' % pid,
            'thorough_cmd': './check %s --tier thorough' % pid,
            'evidence_file': '/verif/evidence/%s.json' % pid,
            'replay_cmd_template': './check %s --replay {path}' % pid,
            'engine': 'rules',
            'level_claimed': {'category': c['cat'], 'text': c['text'], 'design_ref': c['ref']},
            'level_note': c['note'],
            'technique': c['tech'],
        })
    na = []
    for i in range(1, 21):
        pid = 'C%02d' % i
        if pid in CLAIMS:
            continue
        na.append({'property_id': pid, 'reason': NA.get(pid, PENDING)})
    claimed = sorted(CLAIMS)
    m = {
        'version': 1,
        'setup_cmd': 'cd /verif && ./setup.sh',
        'hooks': {
            'guard': 'yui_verif (reserved, unused: static analysis needs no instrumentation of /repo)',
            'enable': 'none - checks run `cargo +nightly check --offline` on /repo\'s working tree through the fact driver (RUSTC_WORKSPACE_WRAPPER)',
            'baseline_off_cmd': 'cd /repo && cargo test --workspace --no-fail-fast --offline',
            'source_commits': [],
            'add_only': True,
        },
        'engines': [
            {'name': 'facts-driver', 'path': 'driver/', 'serves_properties': claimed,
             'kind_free_text': 'rustc_private driver dumping type-checked MIR (resolved callees, field names, overflow asserts) as JSON facts'},
            {'name': 'rules', 'path': 'rules/', 'serves_properties': claimed,
             'kind_free_text': 'Python rule engines over the MIR facts: taint dataflow, path-sensitive symbolic summaries, abstract interpretation, call-graph reachability'},
        ],
        'checks': checks,
        'not_applicable': na,
        'notes': 'Static-analysis family only; nothing executes yui code. See DESIGN.md. /repo carries only `fix:` commits (known_findings.json).',
    }
    json.dump(m, open(os.path.join(V, 'MANIFEST.json'), 'w'), indent=1)
    print('MANIFEST.json: %d checks, %d not_applicable' % (len(checks), len(na)))

if __name__ == '__main__':
    main()
