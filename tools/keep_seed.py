#!/usr/bin/env python3
"""keep_seed.py <seed-id> <prop> <seed-dir> <demo-file-name> <demo-dest> <needs...> -- <cargo test args>
runs verify_seed.py and, if confirmed, stores /verif/seeded/<seed-id>/{patch.diff, demo, NOTES.md, meta.json}"""
import sys, os, subprocess, json, shutil
sid, prop, sdir, demo, dest = sys.argv[1:6]
rest = sys.argv[6:]
i = rest.index('--')
needs, targs = ' '.join(rest[:i]), rest[i+1:]
V = os.path.dirname(os.path.dirname(os.path.abspath(__file__)))
r = subprocess.run([sys.executable, os.path.join(V, 'tools', 'verify_seed.py'), prop, os.path.join(sdir, 'patch.diff'), os.path.join(sdir, demo), dest] + targs, capture_output=True, text=True)
print(r.stdout[-3000:], r.stderr[-500:])
res = json.loads(r.stdout)
if not res.get('confirmed'):
    print('NOT CONFIRMED'); sys.exit(1)
d = os.path.join(V, 'seeded', sid)
os.makedirs(d, exist_ok=True)
shutil.copy(os.path.join(sdir, 'patch.diff'), d)
shutil.copy(os.path.join(sdir, demo), d)
if os.path.exists(os.path.join(sdir, 'NOTES.md')):
    shutil.copy(os.path.join(sdir, 'NOTES.md'), d)
meta = {'id': sid, 'property': prop, 'breaks': 'see NOTES.md', 'needs_to_manifest': needs,
        'demo': {'file': demo, 'copy_to': dest, 'cmd': 'cargo test --offline ' + ' '.join(targs)},
        'confirmed_by_me': {'suite_with_patch': res['suite_with_patch'], 'demo_with_patch': res['demo_with_patch']['results'], 'demo_without_patch': res['demo_without_patch']['results'],
                            'how': 'tools/verify_seed.py in scratch worktree /tmp/yui-seedcheck (removed afterwards)'},
        'detected_by_check': res['check']['rc'] == 1, 'check_output': res['check']['lines']}
json.dump(meta, open(os.path.join(d, 'meta.json'), 'w'), indent=1)
print('kept', sid, 'detected' if meta['detected_by_check'] else 'MISSED')
