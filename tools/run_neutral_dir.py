#!/usr/bin/env python3
"""run_neutral_dir.py <dir with N.diff> [out.json]: apply each diff to a scratch worktree of /repo (outside /repo and /verif,
removed afterwards) and run all 20 quick checks against it. A behaviour-preserving edit must give PASS everywhere;
VIOLATION is a false alarm, INDETERMINATE (exit 3) is recorded separately."""
import sys, os, subprocess, json, glob, tempfile, re
d = sys.argv[1]
out = sys.argv[2] if len(sys.argv) > 2 else None
V = os.path.dirname(os.path.dirname(os.path.abspath(__file__)))
props = ['C%02d' % i for i in range(1, 21)]
res = {}
for df in sorted(glob.glob(os.path.join(d, '*.diff'))):
    wt = tempfile.mkdtemp(prefix='yui-neut-')
    os.rmdir(wt)
    subprocess.check_call(['git', '-C', '/repo', 'worktree', 'add', '--detach', wt, 'HEAD'], stdout=subprocess.DEVNULL, stderr=subprocess.DEVNULL)
    try:
        r = subprocess.run(['git', '-C', wt, 'apply', df], capture_output=True, text=True)
        if r.returncode != 0:
            res[os.path.basename(df)] = {'apply': r.stderr[-300:]}
            print(os.path.basename(df), 'DOES NOT APPLY')
            continue
        env = dict(os.environ, YUI_REPO=wt, VERIF_SCRATCH='1')
        row = {}
        for p in props:
            c = subprocess.run([os.path.join(V, 'check'), p, '--tier', 'quick'], capture_output=True, text=True, env=env)
            last = [l for l in c.stdout.splitlines() if l.startswith(('PASS', 'VIOLATION', 'INDETERMINATE'))]
            viol = [l for l in c.stdout.splitlines() if l.strip().startswith('violation:')]
            row[p] = {'rc': c.returncode, 'msg': (viol[:2] or last[:2])}
        res[os.path.basename(df)] = row
        bad = {p: v for p, v in row.items() if v['rc'] != 0}
        print(os.path.basename(df), 'ALL PASS' if not bad else ' '.join('%s:%s' % (p, {1: 'VIOLATION', 3: 'INDET'}.get(v['rc'], v['rc'])) for p, v in bad.items()))
        for p, v in bad.items():
            for m in v['msg'][:1]:
                print('     ', p, m[:260])
    finally:
        subprocess.call(['git', '-C', '/repo', 'worktree', 'remove', '--force', wt])
if out:
    json.dump(res, open(out, 'w'), indent=1)
