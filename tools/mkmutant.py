#!/usr/bin/env python3
"""mkmutant.py <kind:mutants|neutral> <name> <expect-json> <file> <old> <new> [<file> <old> <new> ...]
Creates /verif/<kind>/<name>.diff (+ .json) by exact string replacement in a scratch worktree of /repo."""
import sys, os, subprocess, json, shutil, tempfile
kind, name, expect = sys.argv[1], sys.argv[2], json.loads(sys.argv[3])
trip = sys.argv[4:]
V = os.path.dirname(os.path.dirname(os.path.abspath(__file__)))
wt = tempfile.mkdtemp(prefix='yui-mk-')
os.rmdir(wt)
subprocess.check_call(['git', '-C', '/repo', 'worktree', 'add', '--detach', wt, 'HEAD'], stdout=subprocess.DEVNULL, stderr=subprocess.DEVNULL)
try:
    for i in range(0, len(trip), 3):
        f, old, new = trip[i:i+3]
        p = os.path.join(wt, f)
        s = open(p).read()
        n = s.count(old)
        if n != 1:
            raise SystemExit('%s: pattern occurs %d times in %s' % (name, n, f))
        open(p, 'w').write(s.replace(old, new))
    d = subprocess.check_output(['git', '-C', wt, 'diff']).decode()
    open(os.path.join(V, kind, name + '.diff'), 'w').write(d)
    json.dump(expect, open(os.path.join(V, kind, name + '.json'), 'w'), indent=1)
    print('wrote', kind, name, len(d.splitlines()), 'lines')
finally:
    subprocess.call(['git', '-C', '/repo', 'worktree', 'remove', '--force', wt])
