#!/usr/bin/env python3
"""Re-runs every stored seeded change (/verif/seeded/*/patch.diff) against the current checks in a scratch worktree
and records the verdict in meta.json (`detected_now`, `rules_now`). Prints a table."""
import os, sys, json, glob, subprocess, re
V = os.path.dirname(os.path.dirname(os.path.abspath(__file__)))
wt = '/tmp/yui-seedrecheck'
subprocess.call(['git', '-C', '/repo', 'worktree', 'remove', '--force', wt], stdout=subprocess.DEVNULL, stderr=subprocess.DEVNULL)
subprocess.check_call(['git', '-C', '/repo', 'worktree', 'add', '--detach', wt, 'HEAD'], stdout=subprocess.DEVNULL, stderr=subprocess.DEVNULL)
rows = []
try:
    for d in sorted(glob.glob(os.path.join(V, 'seeded', '*'))):
        mp = os.path.join(d, 'meta.json')
        if not os.path.exists(mp):
            continue
        meta = json.load(open(mp))
        subprocess.check_call(['git', '-C', wt, 'checkout', '-q', '--', '.'])
        r = subprocess.run(['git', '-C', wt, 'apply', os.path.join(d, 'patch.diff')], capture_output=True, text=True)
        if r.returncode != 0:
            rows.append((meta['id'], meta['property'], 'PATCH-FAILS', '')); continue
        c = subprocess.run([os.path.join(V, 'check'), meta['property']], cwd=V, env=dict(os.environ, YUI_REPO=wt, VERIF_SCRATCH='1'), capture_output=True, text=True)
        rules = sorted(set(re.findall(r'violation: \[([^\]]+)\]', c.stdout)))
        meta['detected_now'] = (c.returncode == 1 and 'VIOLATION' in c.stdout)
        meta['rules_now'] = rules
        meta['rc_now'] = c.returncode
        json.dump(meta, open(mp, 'w'), indent=1)
        rows.append((meta['id'], meta['property'], 'DETECTED' if meta['detected_now'] else ('INDET' if c.returncode == 3 else 'missed'), ', '.join(rules)))
finally:
    subprocess.call(['git', '-C', '/repo', 'worktree', 'remove', '--force', wt])
for r in rows:
    print('%-36s %-4s %-9s %s' % r)
print('detected %d / %d' % (sum(1 for r in rows if r[2] == 'DETECTED'), len(rows)))
