#!/usr/bin/env python3
"""verify_seed.py <prop> <patch.diff> <demo-file> <demo-dest-relpath> <cargo test args...>
Confirms a seeded change in a scratch worktree (outside /repo and /verif):
  1. patch applies; `cargo test --workspace --offline` passes 610 tests with it
  2. the demonstration FAILS with the patch and PASSES without it
then runs ./check <prop> against the patched tree and reports whether it is detected.
Prints a JSON summary (used to fill /verif/seeded/<id>/meta.json)."""
import sys, os, subprocess, json, re, shutil
prop, patch, demo, dest = sys.argv[1:5]
targs = sys.argv[5:]
V = os.path.dirname(os.path.dirname(os.path.abspath(__file__)))
wt = '/tmp/yui-seedcheck'
tgt = '/tmp/yui-seedcheck-target'
if not os.path.isdir(wt):
    subprocess.check_call(['git', '-C', '/repo', 'worktree', 'add', '--detach', wt, 'HEAD'], stdout=subprocess.DEVNULL, stderr=subprocess.DEVNULL)
env = dict(os.environ, CARGO_TARGET_DIR=tgt, CARGO_NET_OFFLINE='true')
def run(cmd, **kw):
    return subprocess.run(cmd, cwd=wt, env=env, capture_output=True, text=True, **kw)
def clean():
    subprocess.check_call(['git', '-C', wt, 'checkout', '-q', '--', '.'])
    subprocess.check_call(['git', '-C', wt, 'clean', '-qfd', '--', '.'])
def demo_run():
    os.makedirs(os.path.dirname(os.path.join(wt, dest)), exist_ok=True)
    shutil.copy(demo, os.path.join(wt, dest))
    r = run(['cargo', 'test', '--offline', '-j', '8'] + targs)
    os.remove(os.path.join(wt, dest))
    m = re.findall(r'test result: (\w+)\. (\d+) passed; (\d+) failed', r.stdout)
    return r.returncode, m, (r.stdout + r.stderr)[-1500:]
out = {'property': prop}
clean()
rc0, m0, tail0 = demo_run()
out['demo_without_patch'] = {'rc': rc0, 'results': m0}
r = run(['git', 'apply', patch])
if r.returncode != 0:
    print(json.dumps({'error': 'patch does not apply', 'stderr': r.stderr})); sys.exit(1)
r = run(['cargo', 'test', '--workspace', '--offline', '-j', '12'])
res = re.findall(r'test result: (\w+)\. (\d+) passed; (\d+) failed', r.stdout)
out['suite_with_patch'] = {'rc': r.returncode, 'passed': sum(int(x[1]) for x in res), 'failed': sum(int(x[2]) for x in res)}
rc1, m1, tail1 = demo_run()
out['demo_with_patch'] = {'rc': rc1, 'results': m1, 'tail': tail1[-600:]}
c = subprocess.run([os.path.join(V, 'check'), prop], cwd=V, env=dict(os.environ, YUI_REPO=wt), capture_output=True, text=True)
out['check'] = {'rc': c.returncode, 'lines': [l for l in c.stdout.splitlines() if l.startswith(('VIOLATION', '  violation', 'PASS', 'INDET'))][:6]}
clean()
out['confirmed'] = (rc0 == 0 and out['suite_with_patch']['rc'] == 0 and out['suite_with_patch']['passed'] == 610 and rc1 != 0)
print(json.dumps(out, indent=1))
