#!/usr/bin/env python3
"""runmutants.py [--kind mutants|neutral] [name ...]
Applies each stored diff to a scratch worktree of /repo (outside /repo and /verif), runs the
checks named in its .json against that tree (YUI_REPO), and verifies:
  mutants: exit 1 and a VIOLATION whose replay file mentions the expected rule / key fragment
  neutral: exit 0 for every listed check
The scratch tree and its cargo target are removed afterwards."""
import sys, os, subprocess, json, shutil, tempfile, glob, time
V = os.path.dirname(os.path.dirname(os.path.abspath(__file__)))
args = sys.argv[1:]
kind = 'mutants'
only = None
if args and args[0] == '--kind':
    kind = args[1]; args = args[2:]
if args and args[0] == '--only':
    only = args[1]; args = args[2:]
names = args or sorted(os.path.basename(p)[:-5] for p in glob.glob(os.path.join(V, kind, '*.diff')))
wt = tempfile.mkdtemp(prefix='yui-mut-')
os.rmdir(wt)
subprocess.check_call(['git', '-C', '/repo', 'worktree', 'add', '--detach', wt, 'HEAD'], stdout=subprocess.DEVNULL, stderr=subprocess.DEVNULL)
fails = 0
try:
    for name in names:
        meta = json.load(open(os.path.join(V, kind, name + '.json')))
        subprocess.check_call(['git', '-C', wt, 'checkout', '-q', '--', '.'])
        r = subprocess.run(['git', '-C', wt, 'apply', os.path.join(V, kind, name + '.diff')], capture_output=True, text=True)
        if r.returncode != 0:
            print('%-40s PATCH DOES NOT APPLY: %s' % (name, r.stderr.strip()[:200])); fails += 1; continue
        env = dict(os.environ, YUI_REPO=wt, VERIF_SCRATCH='1', VERIF_TIER='quick')
        for pid, exp in meta['expect'].items():
            if only and pid != only:
                continue
            t0 = time.time()
            r = subprocess.run([os.path.join(V, 'check'), pid], capture_output=True, text=True, env=env, cwd=V)
            out = r.stdout + r.stderr
            dt = time.time() - t0
            if kind == 'neutral':
                ok = r.returncode == 0 and 'VIOLATION' not in out
                print('%-40s %s neutral -> rc=%d %s (%.0fs)' % (name, pid, r.returncode, 'OK' if ok else 'FALSE ALARM', dt))
                if not ok:
                    fails += 1; print(out[-1500:])
                continue
            hit = False
            if r.returncode == 1:
                for line in out.splitlines():
                    if line.startswith('VIOLATION property=%s replay=' % pid):
                        rp = json.load(open(line.split('replay=')[1]))
                        if exp['rule'] in rp['rule'] and exp.get('key', '') in rp['key']:
                            hit = True
            print('%-40s %s expect %s/%s -> rc=%d %s (%.0fs)' % (name, pid, exp['rule'], exp.get('key', ''), r.returncode, 'CAUGHT' if hit else 'MISSED', dt))
            if not hit:
                fails += 1; print(out[-2500:])
finally:
    subprocess.call(['git', '-C', '/repo', 'worktree', 'remove', '--force', wt])
    subprocess.call(['git', '-C', '/repo', 'worktree', 'prune'])
print('failures:', fails)
sys.exit(1 if fails else 0)
