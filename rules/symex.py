"""Path-sensitive symbolic summariser over MIR (no execution: locals map to *terms*).

For one body it enumerates the acyclic-ish normal-control-flow paths (each block at most
`max_visits` times per path, unwind edges ignored) and, along each path, keeps
  * env / heap : local or memory place -> term
  * events     : calls (callee, argument terms), writes through pointers, branch decisions
Rules pattern-match on the terms and event traces.  Terms are nested tuples:
  ('arg', i) ('const', v) ('call', name, args, site) ('field', t, n) ('deref', t) ('ref', t)
  ('mref', lv) ('tuple', items) ('adt', path, variant, names, items) ('bin', op, a, b)
  ('un', op, a) ('cast', kind, t, ty) ('discr', t) ('post', site, old) ('undef', l) ('fn', path)
  ('closure', path, captures) ('index', t, i)
"""
import collections
import core as _core
from core import op_place, op_const, Call, Missing


OP_ASSIGN = {'ops::AddAssign::add_assign': 'std::ops::Add::add', 'ops::SubAssign::sub_assign': 'std::ops::Sub::sub',
             'ops::MulAssign::mul_assign': 'std::ops::Mul::mul', 'ops::DivAssign::div_assign': 'std::ops::Div::div',
             'ops::RemAssign::rem_assign': 'std::ops::Rem::rem'}


import re as _re
_PROMOTED_RX = _re.compile(r'promoted\[(\d+)\]$')
PROMOTED = {}          # def path of a promoted body -> Body (filled by core.Facts)
BODIES = {}            # def path -> Body of every workspace body (filled by core.Facts); used for opt-in inlining
CLOSURE_FIELDS = {}    # closure def path -> {capture field name: index into the captures tuple}
ADTS = {}              # def path -> ADT record of every workspace enum / struct (filled by core.Facts)
_PROMOTED_CACHE = {}


def closure_fields(defp):
    """capture field names of a closure body (from the projections through its environment argument)"""
    if defp in CLOSURE_FIELDS:
        return CLOSURE_FIELDS[defp]
    out = {}
    b = BODIES.get(defp)
    if b is not None:
        import json as _json

        def walk(x):
            if isinstance(x, dict):
                if 'n' in x and 'f' in x and str(x.get('adt', '')).startswith('closure:'):
                    out[x['n']] = x['f']
                for v in x.values():
                    walk(v)
            elif isinstance(x, list):
                for v in x:
                    walk(v)
        walk(b.blocks)
    CLOSURE_FIELDS[defp] = out
    return out


def apply_closure(clo, args, **kw):
    """paths of a closure body with its environment bound to the closure term and its parameters to `args`"""
    clo = strip(clo)
    if clo[0] != 'closure':
        return None
    b = BODIES.get(clo[1])
    if b is None:
        return None
    bind = {1: ('ref', clo) if b.local_ty(1).startswith('&') else clo}
    for i, a in enumerate(args):
        bind[2 + i] = a
    return SymEx(b, bind=bind, **kw).run()


def promoted_value(body, idx):
    owner = body.d.get('promoted_of') or body.defp
    key = '%s::promoted[%d]' % (owner, idx)
    if key in _PROMOTED_CACHE:
        return _PROMOTED_CACHE[key]
    pb = PROMOTED.get(key)
    val = None
    if pb is not None:
        _PROMOTED_CACHE[key] = None     # recursion guard
        try:
            rets = [p.ret for p in SymEx(pb, max_paths=50).run() if p.end == 'return']
            if len(rets) == 1:
                val = rets[0]
        except Exception:
            val = None
    _PROMOTED_CACHE[key] = val
    return val


class TooManyPaths(Exception):
    pass


class Event:
    __slots__ = ('kind', 'site', 'name', 'fn', 'args', 'dest', 'lv', 'term', 'line', 'bb', 'value', 'call', 'pre', 'inlined', 'frame', 'defp')

    def __init__(self, kind, **kw):
        for s in self.__slots__:
            setattr(self, s, None)
        self.kind = kind
        for k, v in kw.items():
            setattr(self, k, v)

    def __repr__(self):
        if self.kind == 'call':
            return 'call %s%s @L%s' % (self.name, tuple(show(a) for a in self.args), self.line)
        if self.kind == 'write':
            return 'write %s := %s @L%s' % (show_lv(self.lv), show(self.term), self.line)
        if self.kind == 'branch':
            return 'branch %s == %s' % (show(self.term), self.value)
        return self.kind


def show_lv(lv):
    root, path = lv
    if root[0] == 'local':
        s = '_%d' % root[1]
    elif root[0] == 'flocal':
        s = '_f%d_%d' % (root[1], root[2])
    elif root[0] == 'ptr':
        s = '*' + show(root[1])
    else:
        s = show(root[1])
    for p in path:
        s += '.' + (p if isinstance(p, str) else '[%s]' % show(p[1]))
    return s


def show(t, depth=0):
    if not isinstance(t, tuple):
        return str(t)
    if depth > 6:
        return '..'
    k = t[0]
    d = depth + 1
    if k == 'arg':
        return 'arg%d' % t[1]
    if k == 'const':
        return str(t[1])
    if k == 'call':
        return '%s(%s)#%s' % (t[1].split('::')[-1], ', '.join(show(a, d) for a in t[2]), t[3])
    if k == 'field':
        return '%s.%s' % (show(t[1], d), t[2])
    if k == 'deref':
        return '*%s' % show(t[1], d)
    if k == 'ref':
        return '&%s' % show(t[1], d)
    if k == 'mref':
        return '&mut ' + show_lv(t[1])
    if k == 'tuple':
        return '(%s)' % ', '.join(show(a, d) for a in t[1])
    if k == 'adt':
        return '%s::%s{%s}' % (t[1].split('::')[-1], t[2], ', '.join('%s: %s' % (n, show(a, d)) for n, a in zip(t[3], t[4])))
    if k == 'bin':
        return '%s(%s, %s)' % (t[1], show(t[2], d), show(t[3], d))
    if k == 'un':
        return '%s(%s)' % (t[1], show(t[2], d))
    if k == 'cast':
        return '(%s as %s)' % (show(t[2], d), t[3])
    if k == 'discr':
        return 'discr(%s)' % show(t[1], d)
    if k == 'post':
        return 'post#%s(%s)' % (t[1], show(t[2], d))
    if k == 'undef':
        return 'undef_%s' % (t[1],)
    if k == 'loopvar':
        return 'loop%s_%s' % (t[1], t[2])
    if k == 'with':
        return '%s{%s}' % (show(t[1], d), ', '.join('.%s := %s' % ('.'.join(sp), show(v, d)) for sp, v in t[2]))
    if k == 'closure':
        return 'closure<%s>' % t[1].split('::')[-1]
    if k == 'index':
        return '%s[%s]' % (show(t[1], d), show(t[2], d))
    if k == 'fn':
        return 'fn<%s>' % t[1]
    if k == 'agg':
        return '[%s]' % ', '.join(show(a, d) for a in t[2])
    if k == 'repeat':
        return '[%s; _]' % show(t[1], d)
    if k == 'tryopt':
        return 'try(%s)' % show(t[1], d)
    if k == 'residual_none':
        return 'None?'
    return str(t)


class State:
    def __init__(self, body):
        self.body = body
        self.mem = {}       # (root, path) -> term
        self.events = []
        self.decided = {}   # cond term -> value
        self.excluded = {}  # cond term -> values ruled out by an earlier `otherwise` decision
        self.blocks = []
        self.visits = collections.Counter()
        self.root_body = body
        self.fid = 0          # current frame id (0 = the analysed body; > 0 = an inlined callee)
        self.next_fid = 1
        self.frames = []      # stack of (caller body, caller fid, dest (root, path) | None, return target bb)
        self.loop_entry = {}  # (fid, loop head bb, local) -> value on entry to the loop (havoc_loops only; whole-local values)

    def clone(self):
        s = State(self.body)
        s.root_body = self.root_body
        s.fid = self.fid
        s.next_fid = self.next_fid
        s.frames = list(self.frames)
        s.mem = dict(self.mem)
        s.events = list(self.events)
        s.decided = dict(self.decided)
        s.excluded = dict(self.excluded)
        s.blocks = list(self.blocks)
        s.visits = collections.Counter(self.visits)
        s.loop_entry = dict(self.loop_entry)
        return s

    # ---- memory
    def default(self, root, path):
        if root[0] == 'local':
            l = root[1]
            t = ('arg', l) if 1 <= l <= self.root_body.arg_count else ('undef', l)
        elif root[0] == 'flocal':
            t = ('undef', root[2])
        elif root[0] == 'ptr':
            t = ('deref', root[1])
        else:
            t = root[1]
        for p in path:
            t = project(t, p)
        return t

    def read(self, root, path):
        key = (root, path)
        if key in self.mem:
            base = self.mem[key]
            # components overwritten after the whole was stored (`let mut c = x.clone(); c.f = v; c`): the value read as a
            # whole is the stored one *with* those components
            ovs = [(k[1][len(path):], v) for k, v in self.mem.items() if k[0] == root and len(k[1]) > len(path) and k[1][:len(path)] == path
                   and all(isinstance(q, str) for q in k[1][len(path):])]
            if ovs and base[0] not in ('tuple', 'adt'):
                return ('with', base, tuple(sorted(ovs, key=lambda x: str(x[0]))))
            return base
        # longest stored prefix
        for n in range(len(path) - 1, -1, -1):
            k2 = (root, path[:n])
            if k2 in self.mem:
                t = self.mem[k2]
                for p in path[n:]:
                    t = project(t, p)
                return t
        return self.default(root, path)

    def write(self, root, path, term):
        # drop every stored extension of this place
        for k in [k for k in self.mem if k[0] == root and len(k[1]) > len(path) and k[1][:len(path)] == path]:
            del self.mem[k]
        # writing into a component of a stored aggregate: rebuild the aggregate
        for n in range(len(path) - 1, -1, -1):
            k2 = (root, path[:n])
            if k2 in self.mem:
                agg = self.mem[k2]
                new = update(agg, path[n:], term)
                if new is not None:
                    self.mem[k2] = new
                    return
                else:
                    # keep the parent but remember an override for this component
                    break
        self.mem[(root, path)] = term

    def havoc(self, root, path, site):
        old = self.read(root, path)
        for k in [k for k in self.mem if k[0] == root and k[1][:len(path)] == path]:
            del self.mem[k]
        self.mem[(root, path)] = ('post', site, old)


def project(t, p):
    """apply a path element (field name or ('idx', term)) to a term"""
    if isinstance(p, tuple) and p[0] == 'idx':
        if t[0] == 'agg' and t[1] == 'array' and p[1][0] == 'const' and isinstance(p[1][1], int) and 0 <= p[1][1] < len(t[2]):
            return t[2][p[1][1]]        # `let [a, b, ..] = [x, y, ..]`
        return ('index', t, p[1])
    if t[0] == 'with' and isinstance(p, str):
        exact = [v for sp, v in t[2] if sp == (p,)]
        if exact:
            return exact[-1]
        deeper = tuple((sp[1:], v) for sp, v in t[2] if len(sp) > 1 and sp[0] == p)
        inner = project(t[1], p)
        return ('with', inner, deeper) if deeper else inner
    if t[0] == 'tryopt':
        # `x?` on an Option: the Continue payload is the Some payload, the Break payload is the `None` residual
        if p == 'Continue.0':
            return project(t[1], 'Some.0')
        if p == 'Break.0':
            return ('residual_none',)
    if t[0] == 'closure' and isinstance(p, str) and p.startswith('^'):
        idx = closure_fields(t[1]).get(p[1:])
        if idx is not None and idx < len(t[2]):
            return t[2][idx]
    if t[0] == 'tuple':
        try:
            return t[1][int(p)]
        except (ValueError, IndexError):
            pass
    if t[0] == 'adt':
        nm = p.split('.')[-1]
        if nm in t[3]:
            return t[4][t[3].index(nm)]
    return ('field', t, p)


def update(agg, path, term):
    if not path:
        return term
    p = path[0]
    if agg[0] == 'tuple' and isinstance(p, str) and p.isdigit() and int(p) < len(agg[1]):
        items = list(agg[1])
        sub = update(items[int(p)], path[1:], term)
        if sub is None:
            return None
        items[int(p)] = sub
        return ('tuple', tuple(items))
    if agg[0] == 'adt' and isinstance(p, str):
        nm = p.split('.')[-1]
        if nm in agg[3]:
            items = list(agg[4])
            i = agg[3].index(nm)
            sub = update(items[i], path[1:], term)
            if sub is None:
                return None
            items[i] = sub
            return ('adt', agg[1], agg[2], agg[3], tuple(items))
    return None


class Path:
    def __init__(self, state, end, ret):
        self.events = state.events
        self.blocks = state.blocks
        self.mem = state.mem
        self.state = state
        self.end = end          # 'return' | 'diverge'
        self.ret = ret
        self.head = None

    def calls(self, *names):
        out = []
        for e in self.events:
            if e.kind == 'call' and (not names or any(e.name == n or e.name.endswith('::' + n) or (e.fn and (e.fn['def'] == n or e.fn['def'].endswith('::' + n))) for n in names)):
                out.append(e)
        return out

    def branches(self):
        return [e for e in self.events if e.kind == 'branch']

    def lines(self):
        b = self.state.body
        out = []
        for bb in self.blocks:
            t = b.blocks[bb]['term']
            out.append(t.get('cline') or t['line'])
        return out


class SymEx:
    def __init__(self, body, max_visits=2, max_paths=4000, follow_diverge=False, havoc_loops=False, inline=None, max_inline_depth=3, bind=None):
        self.body = body
        self.havoc_loops = havoc_loops
        self.loops = find_loops(body) if havoc_loops else {}
        self._loops_of = {body.defp: self.loops}
        # callable(callee Body, Call) -> bool: execute the callee's body in place. Default: private helpers whose name
        # no rule mentions anywhere (so no rule can be matching on the call itself); `inline=False` switches it off.
        if inline is None:
            inline = unmentioned_private_helper
        elif inline is False:
            inline = None
        self.inline = inline
        self.max_inline_depth = max_inline_depth
        self.bind = bind or {}
        self.max_visits = max_visits
        self.max_paths = max_paths
        self.follow_diverge = follow_diverge
        self.paths = []

    # ---- places
    def loc(self, st, l):
        return ('local', l) if st.fid == 0 else ('flocal', st.fid, l)

    def loops_for(self, body):
        if not self.havoc_loops:
            return {}
        if body.defp not in self._loops_of:
            self._loops_of[body.defp] = find_loops(body)
        return self._loops_of[body.defp]

    def resolve_lv(self, st, place):
        root = self.loc(st, place['l'])
        path = ()
        variant = None
        for e in place['p']:
            if e == 'deref':
                t = st.read(root, path)
                if t[0] == 'mref':
                    root, path = t[1]
                elif t[0] == 'ref':
                    root, path = ('val', t[1]), ()
                else:
                    root, path = ('ptr', t), ()
            elif isinstance(e, dict) and 'n' in e:
                nm = e['n'] if variant is None else '%s.%s' % (variant, e['n'])
                if (e.get('adt') or '').startswith('closure:'):
                    nm = '^' + nm
                variant = None
                path = path + (nm,)
            elif isinstance(e, dict) and 'index' in e:
                path = path + (('idx', st.read(self.loc(st, e['index']), ())),)
            elif isinstance(e, dict) and 'cindex' in e:
                path = path + (('idx', ('const', e['cindex'])),)
            elif isinstance(e, dict) and 'downcast' in e:
                variant = e['downcast']
            else:
                path = path + (str(e),)
        return root, path

    def read_place(self, st, place):
        root, path = self.resolve_lv(st, place)
        return st.read(root, path)

    def operand(self, st, op):
        p = op_place(op)
        if p is not None:
            return self.read_place(st, p)
        c = op_const(op)
        if c is not None:
            if 'fn' in c:
                f_ = c['fn']
                return ('fn', _core.ID2DEF.get(f_.get('res_id')) or f_.get('res') or _core.ID2DEF.get(f_.get('id')) or f_['def'])
            if 'val' in c:
                return ('const', c['val'])
            r = c.get('repr', c['ty'])
            m = _PROMOTED_RX.search(r) if isinstance(r, str) else None
            if m:
                v = promoted_value(st.body, int(m.group(1)))
                if v is not None:
                    return v
            return ('const', r)
        return ('undef', 'op')

    def rvalue(self, st, rv):
        k = rv['k']
        if k == 'use':
            return self.operand(st, rv['op'])
        if k == 'ref':
            root, path = self.resolve_lv(st, rv['place'])
            if rv['mut']:
                return ('mref', (root, path))
            t = st.read(root, path)
            if t[0] == 'deref':
                return t[1]      # &*p == p
            return ('ref', t)
        if k == 'bin':
            a = self.operand(st, rv['a'])
            b = self.operand(st, rv['b'])
            return fold_bin(rv['op'], a, b)
        if k == 'un':
            a = self.operand(st, rv['a'])
            if rv['op'] == 'Not' and a[0] == 'const' and a[1] in (0, 1):
                return ('const', 1 - a[1])
            return ('un', rv['op'], a)
        if k == 'cast':
            return ('cast', rv['kind'], self.operand(st, rv['op']), rv['ty'], rv.get('from_ty'))
        if k == 'discr':
            t = self.read_place(st, rv['place'])
            return ('discr', t)
        if k == 'agg':
            ops = tuple(self.operand(st, o) for o in rv['ops'])
            if rv['agg'] == 'tuple':
                return ('tuple', ops)
            if rv['agg'] == 'adt':
                return ('adt', rv['adt'], rv['variant'], tuple(rv['fields']), ops)
            if rv['agg'] == 'closure':
                return ('closure', _core.ID2DEF.get(rv.get('closure_id'), rv['closure']), ops)
            return ('agg', rv['agg'], ops)
        if k == 'repeat':
            return ('repeat', self.operand(st, rv['op']))
        return ('undef', k)

    # ---- driver
    def run(self):
        st = State(self.body)
        for l, term in self.bind.items():
            st.write(('local', l), (), term)
        self._go(st, 0)
        return self.paths

    def _go(self, st, bb):
        while True:
            body = st.body
            loops = self.loops if body is self.body else self.loops_for(body)
            vk = bb if st.fid == 0 else (st.fid, bb)
            if len(self.paths) > self.max_paths:
                raise TooManyPaths(body.defp)
            once = False
            if self.havoc_loops and bb in loops:
                # a loop driven by an Option iterator runs at most once: executed concretely (no havoc, no generic iteration)
                for l in loops[bb]['locals']:
                    v_ = st.mem.get((self.loc(st, l), ()))
                    if v_ is not None and v_[0] in ('optiter', 'optiter_done'):
                        once = True
            if self.havoc_loops and bb in loops and not once:
                if st.visits[vk] >= 1:
                    # back edge: the generic iteration ends here (its events still count)
                    self.paths.append(Path(st, 'backedge', None))
                    self.paths[-1].head = (st.fid, bb)      # the loop this generic iteration belongs to
                    return
                info = loops[bb]
                for l in info['locals']:
                    lr = self.loc(st, l)
                    if (lr, ()) in st.mem:
                        st.loop_entry[(st.fid, bb, l)] = st.mem[(lr, ())]
                    for k in [k for k in st.mem if k[0] == lr]:
                        del st.mem[k]
                    st.mem[(lr, ())] = ('loopvar', bb if st.fid == 0 else 'f%d:%d' % (st.fid, bb), l)
                if info['heap']:
                    for k in [k for k in st.mem if k[0][0] not in ('local', 'flocal')]:
                        st.mem[k] = ('loopvar', bb if st.fid == 0 else 'f%d:%d' % (st.fid, bb), show_lv(k))
            st.visits[vk] += 1
            if st.fid == 0:
                st.blocks.append(bb)
            blk = body.blocks[bb]
            for s in blk['stmts']:
                if s['k'] == 'assign':
                    val = self.rvalue(st, s['rv'])
                    root, path = self.resolve_lv(st, s['lhs'])
                    st.write(root, path, val)
                    if root[0] not in ('local', 'flocal'):
                        st.events.append(Event('write', lv=(root, path), term=val, line=s.get('cline') or s['line'], bb=bb, frame=st.fid, defp=body.defp))
                elif s['k'] == 'setdiscr':
                    root, path = self.resolve_lv(st, s['lhs'])
                    st.write(root, path + ('<discr>',), ('const', s['variant']))
            t = blk['term']
            k = t['k']
            if k == 'goto':
                nxt = [t['target']]
            elif k == 'return':
                if st.frames:
                    rv = st.read(self.loc(st, 0), ())
                    fr_ = st.frames.pop()
                    cbody, cfid, dest, target = fr_[:4]
                    if len(fr_) > 4 and fr_[4] == 'Some':
                        rv = ('adt', 'std::option::Option', 'Some', ('0',), (rv,))
                    st.body, st.fid = cbody, cfid
                    if dest is not None:
                        st.write(dest[0], dest[1], rv)
                    if target is None:
                        if self.follow_diverge:
                            self.paths.append(Path(st, 'diverge', None))
                        return
                    nxt = [target]
                    b2 = nxt[0]
                    vk2 = b2 if st.fid == 0 else (st.fid, b2)
                    if st.visits[vk2] >= self.max_visits:
                        self.paths.append(Path(st, 'cut', None))
                        return
                    bb = b2
                    continue
                self.paths.append(Path(st, 'return', st.read(('local', 0), ())))
                return
            elif k in ('unreachable', 'resume', 'abort', 'other', 'tailcall'):
                if self.follow_diverge:
                    self.paths.append(Path(st, 'diverge', None))
                return
            elif k == 'drop':
                nxt = [t['target']]
            elif k == 'assert':
                c = self.operand(st, t['cond'])
                st.events.append(Event('branch', term=c, value=1 if t['expected'] else 0, bb=bb, line=t.get('cline') or t['line'], name='assert:' + t['msg'], frame=st.fid, defp=body.defp))
                nxt = [t['target']]
            elif k == 'call':
                call = Call(body, bb, t)
                site = '%d.%d' % (bb, st.visits[vk]) if st.fid == 0 else 'i%d:%d.%d' % (st.fid, bb, st.visits[vk])
                args = tuple(self.operand(st, a) for a in t['args'])
                name = call.name or show(self.operand(st, t['func']))
                pre = tuple(st.read(a[1][0], a[1][1]) if a[0] == 'mref' else a for a in args)
                ev = Event('call', site=site, name=name, fn=call.fn, args=args, line=call.line, bb=bb, call=call, pre=pre, frame=st.fid, defp=body.defp)
                st.events.append(ev)
                # `cond.then(|| e)`, `cond.then_some(v)`, `opt.map_or(d, |x| e)`: the two cases are followed like an if / match
                lastn0 = name.split('::')[-1]
                comb = None
                if self.inline is not None and len(st.frames) < self.max_inline_depth and 'target' in t and t.get('dest') is not None:
                    if lastn0 == 'then' and 'bool' in name and len(args) == 2 and strip(args[1])[0] == 'closure' and BODIES.get(strip(args[1])[1]) is not None:
                        comb = ('then', args[0], strip(args[1]), None)
                    elif lastn0 == 'then_some' and 'bool' in name and len(args) == 2:
                        comb = ('then_some', args[0], None, args[1])
                    elif lastn0 == 'map_or' and 'option::Option' in name and len(args) == 3 and strip(args[2])[0] == 'closure' and BODIES.get(strip(args[2])[1]) is not None:
                        comb = ('map_or', args[0], strip(args[2]), args[1])
                if comb is not None:
                    kind_, scrut, clo_, other_ = comb
                    dest = self.resolve_lv(st, t['dest'])
                    ev.dest = dest
                    ev.inlined = True
                    none_ = ('adt', 'std::option::Option', 'None', (), ())
                    cterm = scrut if kind_ != 'map_or' else ('discr', scrut)
                    if cterm[0] == 'discr' and strip_refs(cterm[1])[0] == 'adt' and adt_discr(strip_refs(cterm[1])) is not None:
                        cterm = ('const', adt_discr(strip_refs(cterm[1])))
                    known = None
                    if cterm[0] == 'const' and isinstance(cterm[1], int):
                        known = 0 if cterm[1] == 0 else 1
                    elif cterm in st.decided:
                        known = 0 if st.decided[cterm] == 0 else 1
                    # the "no" case: None / the default
                    if known in (None, 0):
                        s0 = st.clone() if known is None else st
                        if known is None:
                            s0.decided[cterm] = 0
                            s0.events.append(Event('branch', term=cterm, value=0, bb=bb, line=call.line, args=(0,), frame=st.fid, defp=body.defp))
                        s0.write(dest[0], dest[1], none_ if kind_ != 'map_or' else other_)
                        if known is None:
                            self._go(s0, t['target'])
                        else:
                            bb = t['target']
                            continue
                    # the "yes" case
                    if known is None:
                        st.decided[cterm] = 'else' if kind_ != 'map_or' else 1
                        st.events.append(Event('branch', term=cterm, value='else' if kind_ != 'map_or' else 1, bb=bb, line=call.line, args=(0,), frame=st.fid, defp=body.defp))
                    if kind_ == 'then_some':
                        st.write(dest[0], dest[1], ('adt', 'std::option::Option', 'Some', ('0',), (other_,)))
                        bb = t['target']
                        continue
                    cb_ = BODIES[clo_[1]]
                    st.frames.append((body, st.fid, dest, t.get('target'), 'Some' if kind_ == 'then' else None))
                    st.fid = st.next_fid
                    st.next_fid += 1
                    st.body = cb_
                    st.write(self.loc(st, 1), (), ('ref', clo_) if cb_.local_ty(1).startswith('&') else clo_)
                    if kind_ == 'map_or':
                        st.write(self.loc(st, 2), (), project(scrut if scrut[0] not in ('ref',) else scrut[1], 'Some.0'))
                    bb = 0
                    continue
                # opt-in inlining: run the callee's body in place (private helpers extracted by a refactoring)
                if self.inline is not None and len(st.frames) < self.max_inline_depth:
                    cb = BODIES.get(call.callee or '') or BODIES.get(name)
                    if cb is not None and cb is not body and cb.arg_count == len(args) and all(fr[0] is not cb for fr in st.frames) \
                            and cb is not self.body and self.inline(cb, call):
                        ev.inlined = True
                        dest = None
                        if t.get('dest') is not None:
                            dest = self.resolve_lv(st, t['dest'])
                            ev.dest = dest
                        st.frames.append((body, st.fid, dest, t.get('target')))
                        st.fid = st.next_fid
                        st.next_fid += 1
                        st.body = cb
                        for i_, a_ in enumerate(args):
                            st.write(self.loc(st, i_ + 1), (), a_)
                        bb = 0
                        continue
                # x op= y on a `&mut` place: model as x := op(x, y) (the trait's contract)
                modelled = False
                gen = (call.fn or {}).get('def', '')
                for opn in OP_ASSIGN:
                    if gen.endswith(opn) and len(args) == 2 and args[0][0] == 'mref':
                        lv = args[0][1]
                        old = st.read(lv[0], lv[1])
                        newv = ('call', OP_ASSIGN[opn], (old, args[1]), site)
                        st.write(lv[0], lv[1], newv)
                        if lv[0][0] not in ('local', 'flocal'):
                            st.events.append(Event('write', lv=lv, term=newv, line=call.line, bb=bb, frame=st.fid, defp=body.defp))
                        modelled = True
                # std::mem::replace / swap: exact effect on the places (the contract of the two functions)
                override_val = None
                if gen in ('std::mem::replace', 'core::mem::replace') and len(args) == 2 and args[0][0] == 'mref':
                    lv = args[0][1]
                    override_val = st.read(lv[0], lv[1])
                    st.write(lv[0], lv[1], args[1])
                    if lv[0][0] not in ('local', 'flocal'):
                        st.events.append(Event('write', lv=lv, term=args[1], line=call.line, bb=bb, frame=st.fid, defp=body.defp))
                    modelled = True
                if gen in ('std::mem::swap', 'core::mem::swap') and len(args) == 2 and args[0][0] == 'mref' and args[1][0] == 'mref':
                    l1, l2 = args[0][1], args[1][1]
                    v1, v2 = st.read(l1[0], l1[1]), st.read(l2[0], l2[1])
                    st.write(l1[0], l1[1], v2)
                    st.write(l2[0], l2[1], v1)
                    for lv_, nv_ in ((l1, v2), (l2, v1)):
                        if lv_[0][0] not in ('local', 'flocal'):
                            st.events.append(Event('write', lv=lv_, term=nv_, line=call.line, bb=bb, frame=st.fid, defp=body.defp))
                    modelled = True
                # callee may write through every &mut it receives
                for a, aop in zip(args, t['args']) if not modelled else []:
                    if a[0] == 'mref':
                        st.havoc(a[1][0], a[1][1], site)
                    else:
                        p = op_place(aop)
                        if p is not None and not p['p'] and body.local_ty(p['l']).startswith('&mut '):
                            st.havoc(('ptr', a), (), site)
                val = ('call', name, args, site) if override_val is None else override_val
                # an iterator over an Option yields at most once: `for x in opt.iter_mut()` is `if let Some(x) = opt.as_mut()`
                lastn = name.split('::')[-1]
                if 'option::Option' in name and lastn in ('iter_mut', 'iter') and len(args) == 1:
                    val = ('optiter', 'as_mut' if lastn == 'iter_mut' else 'as_ref', args[0])
                elif lastn == 'into_iter' and len(args) == 1 and args[0][0] == 'optiter':
                    val = args[0]
                elif lastn == 'next' and len(args) == 1 and args[0][0] == 'mref' and pre[0][0] in ('optiter', 'optiter_done'):
                    it = pre[0]
                    if it[0] == 'optiter':
                        val = ('call', 'std::option::Option::<T>::' + it[1], (it[2],), site)
                        st.write(args[0][1][0], args[0][1][1], ('optiter_done', it[2]))
                    else:
                        val = ('adt', 'std::option::Option', 'None', (), ())
                        st.write(args[0][1][0], args[0][1][1], it)
                if lastn == 'flatten' and 'option::Option' in name and len(args) == 1 and strip_refs(args[0])[0] == 'adt' and strip_refs(args[0])[2] in ('Some', 'None'):
                    a0_ = strip_refs(args[0])
                    val = a0_[4][0] if a0_[2] == 'Some' else ('adt', 'std::option::Option', 'None', (), ())
                if lastn in ('is_some', 'is_none') and 'option::Option' in name and len(args) == 1 and strip_refs(args[0])[0] == 'adt' and strip_refs(args[0])[2] in ('Some', 'None'):
                    val = ('const', int((strip_refs(args[0])[2] == 'Some') == (lastn == 'is_some')))
                if gen.endswith('ops::Try::branch') and len(args) == 1 and (t.get('dest_ty') or '').startswith('std::ops::ControlFlow<std::option::Option<'):
                    val = ('tryopt', args[0])
                elif gen.endswith('FromResidual::from_residual') and len(args) == 1 and args[0] == ('residual_none',):
                    val = ('adt', 'std::option::Option', 'None', (), ())
                if t.get('dest') is not None:
                    root, path = self.resolve_lv(st, t['dest'])
                    st.write(root, path, val)
                    ev.dest = (root, path)
                if 'target' not in t:
                    if self.follow_diverge:
                        self.paths.append(Path(st, 'diverge', None))
                    return
                nxt = [t['target']]
            elif k == 'switch':
                c = self.operand(st, t['discr'])
                c = _known_cmp(st, c)
                targets = t['targets']
                otherwise = t['otherwise']
                # `if !x` is `if x` with the arms exchanged: branch events are recorded on x itself
                while c[0] == 'un' and c[1] == 'Not' and [v for v, _ in targets] == [0]:
                    c = c[2]
                    targets, otherwise = [(0, otherwise)], targets[0][1]
                if c[0] == 'discr' and strip_refs(c[1])[0] == 'adt':
                    dv = adt_discr(strip_refs(c[1]))      # a match on a literal enum value takes one arm
                    if dv is not None:
                        c = ('const', dv)
                if c[0] == 'discr' and c[1][0] == 'tryopt':
                    # Continue (0) <=> Some (1); Break (1) <=> None (0)
                    c = ('discr', c[1][1])
                    targets = [({0: 1, 1: 0}.get(v, v), b2) for v, b2 in targets]
                choice = None
                if c[0] == 'const' and isinstance(c[1], int):
                    choice = otherwise
                    for v, b2 in targets:
                        if v == c[1]:
                            choice = b2
                    nxt = [choice]
                elif c in st.decided:
                    v0 = st.decided[c]
                    choice = otherwise
                    if v0 != 'else':
                        for v, b2 in targets:
                            if v == v0:
                                choice = b2
                        nxt = [choice]
                    else:
                        nxt = None
                else:
                    nxt = None
                if nxt is None:
                    # fork; values already excluded for this term on this path are infeasible, and so is an
                    # `otherwise` edge that leads straight to `unreachable` (exhaustive match)
                    excl = st.excluded.get(c, ())
                    opts = [(v, b2) for v, b2 in targets if v not in excl]
                    if body.blocks[otherwise]['term']['k'] != 'unreachable' or not opts:
                        opts = opts + [('else', otherwise)]
                    allowed = []
                    for v, b2 in opts:
                        if st.visits[b2 if st.fid == 0 else (st.fid, b2)] < self.max_visits:
                            allowed.append((v, b2))
                    for i, (v, b2) in enumerate(allowed):
                        s2 = st.clone() if i < len(allowed) - 1 else st
                        s2.decided[c] = v
                        if v == 'else':
                            s2.excluded = dict(s2.excluded)
                            s2.excluded[c] = tuple(set(excl) | {x[0] for x in targets})
                        s2.events.append(Event('branch', term=c, value=v, bb=bb, line=t.get('cline') or t['line'],
                                               args=tuple(x[0] for x in targets)))
                        self._go(s2, b2)
                    return
            else:
                return
            b2 = nxt[0]
            if st.visits[b2 if st.fid == 0 else (st.fid, b2)] >= self.max_visits:
                self.paths.append(Path(st, 'cut', None))
                return
            bb = b2


_STD_DISCR = {('Option', 'None'): 0, ('Option', 'Some'): 1, ('Result', 'Ok'): 0, ('Result', 'Err'): 1,
              ('Ordering', 'Less'): 255, ('Ordering', 'Equal'): 0, ('Ordering', 'Greater'): 1,
              ('ControlFlow', 'Continue'): 0, ('ControlFlow', 'Break'): 1}


def adt_discr(t):
    """discriminant of a literal enum value ('adt', path, variant, ..), as the switch sees it (None if unknown)"""
    if t[0] != 'adt' or t[2] is None:
        return None
    k = (t[1].split('::')[-1], t[2])
    if t[1].startswith(('std::', 'core::')) and k in _STD_DISCR:
        return _STD_DISCR[k]
    a = ADTS.get(t[1])
    if a and a.get('kind') == 'Enum':
        for i, v in enumerate(a['variants']):
            if v['name'] == t[2]:
                try:
                    d = int(v.get('discr', i))
                except (TypeError, ValueError):
                    return None
                return d if d >= 0 else d + 256
    return None


def strip_refs(t):
    while t[0] in ('ref', 'deref'):
        t = t[1]
    return t


def _known_cmp(st, c):
    """Eq(X, k) / Ne(X, k) where the path has already decided the switch on X: fold to a constant"""
    if c[0] == 'bin' and c[1] in ('Eq', 'Ne') and len(c) == 4:
        for x, kk in ((c[2], c[3]), (c[3], c[2])):
            if kk[0] == 'const' and isinstance(kk[1], int) and not isinstance(kk[1], bool):
                if x in st.decided:
                    v = st.decided[x]
                    if v != 'else':
                        r = (v == kk[1])
                        return ('const', int(r if c[1] == 'Eq' else not r))
                    if kk[1] in st.excluded.get(x, ()):
                        return ('const', int(c[1] == 'Ne'))
    return c


def find_loops(body):
    """loop head -> {'blocks', 'locals' assigned (or mutably borrowed) inside, 'heap' written?}"""
    dom = body.dominators()
    succ = body.normal_succ()
    preds = body.preds()
    loops = {}
    for u in dom:
        for v in succ[u]:
            if v in dom[u]:     # back edge u -> v
                blocks = {v, u}
                st = [u]
                while st:
                    x = st.pop()
                    if x == v:
                        continue
                    for p in preds[x]:
                        if p not in blocks and p in dom:
                            blocks.add(p)
                            st.append(p)
                info = loops.setdefault(v, {'blocks': set(), 'locals': set(), 'heap': False})
                info['blocks'] |= blocks
    for v, info in loops.items():
        for bb in info['blocks']:
            blk = body.blocks[bb]
            for s in blk['stmts']:
                if s['k'] == 'assign':
                    if s['lhs']['p'] and s['lhs']['p'][0] == 'deref':
                        info['heap'] = True
                    else:
                        info['locals'].add(s['lhs']['l'])
                    rv = s['rv']
                    if rv['k'] == 'ref' and rv['mut']:
                        if rv['place']['p'] and rv['place']['p'][0] == 'deref':
                            info['heap'] = True
                        else:
                            info['locals'].add(rv['place']['l'])
            t = blk['term']
            if t['k'] == 'call':
                if t.get('dest'):
                    info['locals'].add(t['dest']['l'])
                for a in t['args']:
                    p = op_place(a)
                    if p is not None and body.local_ty(p['l']).startswith('&mut ') and 1 <= p['l'] <= body.arg_count:
                        info['heap'] = True
    return loops


def fold_bin(op, a, b):
    if a[0] == 'const' and b[0] == 'const' and isinstance(a[1], int) and isinstance(b[1], int):
        x, y = a[1], b[1]
        try:
            if op in ('Add', 'AddUnchecked'):
                return ('const', x + y)
            if op in ('Sub', 'SubUnchecked'):
                return ('const', x - y)
            if op in ('Mul', 'MulUnchecked'):
                return ('const', x * y)
            if op == 'Eq':
                return ('const', int(x == y))
            if op == 'Ne':
                return ('const', int(x != y))
            if op == 'Lt':
                return ('const', int(x < y))
            if op == 'Le':
                return ('const', int(x <= y))
            if op == 'Gt':
                return ('const', int(x > y))
            if op == 'Ge':
                return ('const', int(x >= y))
        except Exception:
            pass
    return ('bin', op, a, b)


def private_helper(exclude=(), also=()):
    """inline predicate: a non-public workspace function (a helper a refactoring may have extracted) whose name the rule
    does not itself match on (`exclude`), or any function named in `also`"""
    def pred(cb, call):
        if cb.kind not in ('Fn', 'AssocFn'):
            return False
        nm = cb.name or cb.defp.split('::')[-1]
        if nm in also:
            return True
        return cb.d.get('vis', 'pub') != 'pub' and nm not in exclude
    return pred


_MENTIONED = None


def mentioned_names():
    """every identifier that occurs inside a string literal of any rule module: a function with such a name may be
    matched on by name somewhere, so it is never inlined by default"""
    global _MENTIONED
    if _MENTIONED is None:
        import os, glob, re as _re
        here = os.path.dirname(os.path.abspath(__file__))
        names = set()
        for f in glob.glob(os.path.join(here, '*.py')) + glob.glob(os.path.join(here, 'props', '*.py')):
            src = open(f).read()
            for lit in _re.findall(r"'((?:[^'\\\n]|\\.)*)'|\"((?:[^\"\\\n]|\\.)*)\"", src):
                for part in lit:
                    if not part:
                        continue
                    if not _re.search(r'\s', part):
                        # a literal without blanks is a name, a path or a pattern: every identifier in it counts
                        names.update(_re.findall(r'[A-Za-z_][A-Za-z0-9_]*', part))
                    else:
                        # prose (a message): only identifiers written as code - followed by `(` or preceded by `::` / `.`
                        names.update(_re.findall(r'([A-Za-z_][A-Za-z0-9_]*)\\?\(', part))
                        names.update(_re.findall(r'(?:::|\.)([A-Za-z_][A-Za-z0-9_]*)', part))
        _MENTIONED = names
    return _MENTIONED


NO_INLINE = set()     # def paths a rule has identified as its own subject (found by shape, not by name)


def unmentioned_private_helper(cb, call):
    if cb.kind not in ('Fn', 'AssocFn') or cb.defp in NO_INLINE:
        return False
    if cb.d.get('vis', 'pub') == 'pub' or (cb.impl and cb.impl.get('trait')):
        return False
    nm = cb.name or cb.defp.split('::')[-1]
    return nm not in mentioned_names()


def paths_of(body, **kw):
    return SymEx(body, **kw).run()


def subterms(t):
    """all sub-terms of t (preorder)"""
    st = [t]
    while st:
        x = st.pop()
        yield x
        if isinstance(x, tuple):
            for y in x[1:]:
                if isinstance(y, tuple):
                    if y and isinstance(y[0], str):
                        st.append(y)
                    else:
                        for z in y:
                            if isinstance(z, tuple):
                                st.append(z)


def strip(t):
    """look through refs/derefs/clones/casts/moves to the value a term denotes"""
    while True:
        if t[0] in ('ref', 'deref'):
            t = t[1]
        elif t[0] == 'cast':
            t = t[2]
        elif t[0] == 'call' and (t[1].endswith('::clone') or t[1].endswith('Clone::clone') or t[1].endswith('::borrow') or t[1].endswith('::deref')) and len(t[2]) == 1:
            t = t[2][0]
        else:
            return t


def peel(t):
    """strip() applied at every level: the same term without refs / derefs / clones / casts anywhere inside"""
    if not isinstance(t, tuple) or not t or not isinstance(t[0], str):
        return t
    t = strip(t)
    k = t[0]
    if k == 'call':
        return ('call', t[1], tuple(peel(a) for a in t[2])) + tuple(t[3:])
    if k == 'field':
        return ('field', peel(t[1]), t[2])
    if k == 'adt':
        return ('adt', t[1], t[2], t[3], tuple(peel(a) for a in t[4]))
    if k == 'tuple':
        return ('tuple', tuple(peel(a) for a in t[1]))
    if k == 'bin':
        return ('bin', t[1], peel(t[2]), peel(t[3]))
    if k == 'un':
        return ('un', t[1], peel(t[2]))
    if k == 'discr':
        return ('discr', peel(t[1]))
    return t
