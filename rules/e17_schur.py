"""E17 - block identities of the Schur reduction (C12; mechanism of C08).

`Schur::from_partial_triangular` splits M = [a b; c d] (a triangular, invertible), computes s and two
coordinate transforms. The block expressions are read from the MIR path summaries of the function and its
closures and verified in the free non-commutative algebra on a, a^-1, b, c, d (a a^-1 = a^-1 a = 1),
under the contracts  solve_triangular(t, a, b) = a^-1 b  and  solve_triangular_left(t, a, c) = c a^-1
(that those solvers meet their contract is the *other*, value-level clause of C12 and is NOT decided):
    S1  s = d - c (a^-1 b)                         (compute_schur, column by column: d_j - c (a^-1 b)_j)
    S2  F_tgt * M * B_src = s                      with F_tgt = [-c a^-1, 1], B_src = [-a^-1 b; 1]
    S3  F_src * B_src = 1  and  F_tgt * B_tgt = 1  with F_src = [0, 1], B_tgt = [0; 1]
    S4  chain-map conditions  M * B_src = B_tgt * s  and  F_tgt * M = s * F_src
and the selector matrices proj / incl really are [0 1] / [0; 1] (unit entries at (i, n-k+i) / (n-k+i, i)).
"""
import re
from symex import SymEx, show, strip
from e8_formulas import named_local_terms

ROOT = 'yui_matrix::sparse::schur::Schur::<R>::from_partial_triangular'
CS = 'yui_matrix::sparse::schur::Schur::<R>::compute_schur'


def sk(t):
    return re.sub(r'#(?:i\d+:)?\d+\.\d+', '', show(t))


# ---- non-commutative polynomials: dict word -> coef, with a*ai = ai*a = 1
def nreduce(w):
    out = []
    for s in w:
        if out and {out[-1], s} == {'a', 'ai'}:
            out.pop()
        else:
            out.append(s)
    return tuple(out)


def nmul(p, q):
    r = {}
    for w1, c1 in p.items():
        for w2, c2 in q.items():
            w = nreduce(w1 + w2)
            r[w] = r.get(w, 0) + c1 * c2
            if r[w] == 0:
                del r[w]
    return r


def nadd(p, q, s=1):
    r = dict(p)
    for w, c in q.items():
        r[w] = r.get(w, 0) + s * c
        if r[w] == 0:
            del r[w]
    return r


def W(*syms):
    return {tuple(syms): 1}


ONE, ZERO = {(): 1}, {}


def nshow(p):
    if not p:
        return '0'
    return ' + '.join(('%s' % ('' if c == 1 else ('-' if c == -1 else c))) + ('·'.join(w) or '1') for w, c in sorted(p.items()))


class Bad(Exception):
    pass


_ARITY = {}


def run(facts, rep):
    root = facts.bodies.get(ROOT)
    if root is None or CS not in facts.bodies:
        rep.indet('E17: Schur::from_partial_triangular / compute_schur not found')
        return
    rep.saw(root)
    closures = {k: b for k, b in facts.bodies.items() if k.startswith(ROOT + '::{closure')}
    try:
        # blocks and the solved right-hand side in the enclosing function
        loc = named_local_terms(root, {'a', 'b', 'c', 'd', 'ainvb'})
        blk = {}
        for nm in ('a', 'b', 'c', 'd'):
            ts = loc.get(nm) or set()
            # a later shadowing `let b = ..` may reuse the name: the block is the divide4 element
            ts = {x for x in ts if strip(x)[0] == 'index' and strip(x)[1][0] == 'call' and strip(x)[1][1].endswith('SpMat::<R>::divide4')} or ts
            if len(ts) != 1:
                raise Bad('block `%s` not found' % nm)
            t = strip(list(ts)[0])
            if not (t[0] == 'index' and t[1][0] == 'call' and t[1][1].endswith('SpMat::<R>::divide4') and t[2][0] == 'const'):
                raise Bad('block `%s` is %s, not an element of divide4(..)' % (nm, sk(t)))
            blk[nm] = t[2][1]
        if [blk[x] for x in 'abcd'] != [0, 1, 2, 3]:
            raise Bad('blocks are taken as %s from divide4 (expected a,b,c,d = 0,1,2,3)' % blk)

        def block_of(t):
            """which of a, b, c, d a term denotes (through refs and upvars)"""
            t = strip(t)
            s = sk(t)
            m = re.search(r'\^(?:_ref__)?([abcd])\)*$', s)
            if m:
                return m.group(1)
            if t[0] == 'index' and t[1][0] == 'call' and t[1][1].endswith('divide4') and t[2][0] == 'const':
                return 'abcd'[t[2][1]]
            return None

        def solved(t):
            """nc-polynomial of solve_triangular / solve_triangular_left applied to blocks"""
            t = strip(t)
            if t[0] == 'call' and t[1].endswith('triang::solve_triangular') and len(t[2]) == 3:
                x, y = block_of(t[2][1]), block_of(t[2][2])
                if x == 'a' and y:
                    return W('ai', y)
                raise Bad('solve_triangular on (%s, %s)' % (x, y))
            if t[0] == 'call' and t[1].endswith('triang::solve_triangular_left') and len(t[2]) == 3:
                x, y = block_of(t[2][1]), block_of(t[2][2])
                if x == 'a' and y:
                    return W(y, 'ai')
                raise Bad('solve_triangular_left on (%s, %s)' % (x, y))
            raise Bad('not a triangular solve: ' + sk(t)[:60])
        ts = loc.get('ainvb') or set()
        if len(ts) != 1:
            raise Bad('`ainvb` not found')
        AINVB = solved(list(ts)[0])

        def mat(t):
            """nc-polynomial of a single-block matrix expression"""
            t = strip(t)
            s = sk(t)
            if t[0] == 'field' and re.search(r'\^(?:_ref__)?ainvb$', t[2]):
                return AINVB
            if t[0] == 'call':
                last = t[1].split('::')[-1]
                if last == 'neg' and len(t[2]) == 1:
                    return nadd(ZERO, mat(t[2][0]), -1)
                if last in ('solve_triangular', 'solve_triangular_left'):
                    return solved(t)
                if last in ('id',) or (last.startswith('{closure') and selector_kind(t) == 'id'):
                    return ONE
                if last == 'zero' and t[1].endswith('SpMat::<R>::zero'):
                    used_zero.append(s)
                    return ZERO
            bk = block_of(t)
            if bk:
                return W(bk)
            raise Bad('unrecognised matrix expression ' + s[:80])

        # selectors: which closure (or private function of the impl) is id / proj / incl, judged by what it builds
        from symex import apply_closure
        kinds = {}
        arity = {}
        cands = dict(closures)
        for k, b in facts.bodies.items():
            if k.startswith('yui_matrix::sparse::schur::Schur::<R>::') and '{closure' not in k and k not in (ROOT, CS):
                cands[k] = b

        def lin(x, o):
            """affine form of an index expression in n (first parameter), k (second) and the running index i"""
            x = strip(x)
            if x == ('item',):
                return {'i': 1}
            if x == ('arg', 1 + o):
                return {'n': 1}
            if x == ('arg', 2 + o):
                return {'k': 1}
            if x[0] == 'const' and isinstance(x[1], int):
                return {1: x[1]} if x[1] else {}
            if x[0] == 'field' and x[2] == '0' and x[1][0] == 'bin' and x[1][1] in ('AddWithOverflow', 'SubWithOverflow'):
                p_, q_ = lin(x[1][2], o), lin(x[1][3], o)
                sg = 1 if x[1][1][0] == 'A' else -1
                r_ = dict(p_)
                for kk, c in q_.items():
                    r_[kk] = r_.get(kk, 0) + sg * c
                    if r_[kk] == 0:
                        del r_[kk]
                return r_
            raise Bad('selector index ' + sk(x)[:60])
        for k, b in cands.items():
            o = 1 if '{closure' in k.split('::')[-1] else 0      # closures: parameter 1 is the environment
            for p in SymEx(b).run():
                r = p.ret
                if p.end != 'return' or r is None or r[0] != 'call':
                    continue
                if r[1].endswith('SpMat::<R>::id') and len(r[2]) == 1 and strip(r[2][0]) == ('arg', 1 + o):
                    rep.saw(b)
                    kinds[k] = 'id'
                    arity[k] = o
                elif r[1].endswith('SpMat::<R>::from_entries') and len(r[2]) == 2 and strip(r[2][1])[0] == 'call' and len(strip(r[2][1])[2]) == 2 and strip(strip(r[2][1])[2][1])[0] == 'closure':
                    rep.saw(b)
                    shape = strip(r[2][0])
                    m_ = strip(r[2][1])
                    rng = sk(m_[2][0])
                    ent = None
                    for q in apply_closure(m_[2][1], [('item',)]) or []:
                        if q.end == 'return' and q.ret is not None and q.ret[0] == 'tuple' and len(q.ret[1]) == 3:
                            ent = q.ret[1]
                    if ent is None or shape[0] != 'tuple' or len(shape[1]) != 2:
                        continue
                    if 'one()' not in sk(ent[2]):
                        raise Bad('selector entries are not one(): ' + sk(ent[2]))
                    if not re.match(r'^Range::Range\{start: 0, end: arg%d\}$' % (2 + o), rng):
                        raise Bad('selector %s runs over %s' % (k.split('::')[-1], rng))
                    sh = (lin(shape[1][0], o), lin(shape[1][1], o))
                    row, col = lin(ent[0], o), lin(ent[1], o)
                    shifted = {'n': 1, 'k': -1, 'i': 1}
                    if sh == ({'k': 1}, {'n': 1}) and row == {'i': 1} and col == shifted:
                        kinds[k] = 'proj'        # (k x n), ones at (i, n-k+i): [0 1]
                    elif sh == ({'n': 1}, {'k': 1}) and row == shifted and col == {'i': 1}:
                        kinds[k] = 'incl'        # (n x k), ones at (n-k+i, i): [0; 1]
                    else:
                        raise Bad('selector %s builds shape %s with entries (%s, %s)' % (k.split('::')[-1], sk(shape), sk(ent[0]), sk(ent[1])))
                    arity[k] = o
        _ARITY.clear()
        _ARITY.update(arity)

        def selector_kind(t):
            t = strip(t)
            if t[0] == 'call' and t[1] in kinds:
                return kinds[t[1]]
            if t[0] == 'call' and t[1].endswith('SpMat::<R>::id') and len(t[2]) == 1:
                return 'id'
            return None

        # the two transforms: Trans::new(forward, backward)
        F = {}
        Bk = {}
        variants = {'src': [], 'tgt': []}
        used_zero = []

        def assumed_zero(p):
            """blocks the path has tested with is_zero() and found zero: the identities are then checked modulo block = 0"""
            z = set()
            for b_ in p.branches():
                t_ = strip(b_.term)
                if t_[0] == 'call' and t_[1].split('::')[-1] == 'is_zero' and len(t_[2]) == 1 and b_.value != 0:
                    z.add(block_of(t_[2][0]))
            if 'a' in z:
                raise Bad('a path assumes the triangular block a to be zero')
            return frozenset(z)

        def handle(p, f, bw):
            del used_zero[:]
            # forward
            fk = selector_kind(f)
            if fk == 'proj':
                fwd = ('row', [ZERO, ONE])
            elif f[0] == 'post':
                ev = [e for e in p.calls() if e.site == f[1]]
                if not ev or ev[0].name.split('::')[-1] != 'extend_cols' or selector_kind(ev[0].args[1]) != 'id':
                    raise Bad('forward map of the target transform is not `x.extend_cols(id)`')
                fwd = ('row', [mat(ev[0].pre[0]), ONE])
            else:
                raise Bad('unrecognised forward map ' + sk(f)[:80])
            # backward
            bk_ = selector_kind(bw)
            bs = strip(bw)
            if bk_ == 'incl':
                back = ('col', [ZERO, ONE])
            elif bs[0] == 'call' and bs[1].split('::')[-1] == 'stack' and len(bs[2]) == 2 and selector_kind(bs[2][1]) == 'id':
                back = ('col', [mat(bs[2][0]), ONE])
            else:
                raise Bad('unrecognised backward map ' + sk(bw)[:80])
            side = 'src' if fk == 'proj' else 'tgt'
            Z = assumed_zero(p)
            if used_zero and not Z:
                raise Bad('a block is replaced by %s on a path without an is_zero() test of a block in the same body' % used_zero[0][:60])
            if not any(v == (Z, fwd[1], back[1]) for v in variants[side]):
                variants[side].append((Z, fwd[1], back[1]))
            F[side], Bk[side] = fwd[1], back[1]
        for k, b in closures.items():
            for p in SymEx(b).run():
                r = p.ret
                if p.end != 'return' or r is None or r[0] != 'call' or not r[1].endswith('trans::Trans::<R>::new') or len(r[2]) != 2:
                    continue
                handle(p, r[2][0], r[2][1])
        if set(F) != {'src', 'tgt'}:
            # the transforms may be built in the function body itself (plain blocks instead of `then(|| ..)` closures)
            for p in SymEx(root, max_paths=20000).run():
                for e in p.calls():
                    if e.name.endswith('trans::Trans::<R>::new') and len(e.args) == 2:
                        handle(p, e.args[0], e.args[1])
        if set(F) != {'src', 'tgt'}:
            raise Bad('source / target transforms not both recognised (%s)' % sorted(F))

        # s from compute_schur
        cs = facts.bodies[CS]
        rep.saw(cs)
        names = [cs.local_name(i) for i in range(1, cs.arg_count + 1)]
        call = [e for p in SymEx(root).run() for e in p.calls() if e.name == CS]
        if not call:
            raise Bad('compute_schur is not called')
        actual = {names[i]: call[0].args[i] for i in range(len(names))}
        S = None
        for k, b in facts.bodies.items():
            if k.startswith(CS + '::{closure'):
                for q in SymEx(b).run():
                    r = q.ret
                    if q.end == 'return' and r is not None and r[0] == 'call' and r[1].split('::')[-1] == 'sub' and len(r[2]) == 2:
                        def colmat(x):
                            x = strip(x)
                            if x[0] == 'call' and x[1].split('::')[-1] == 'col_vec':
                                return up(x[2][0])
                            if x[0] == 'call' and x[1].split('::')[-1] == 'mul' and len(x[2]) == 2:
                                return nmul(up(x[2][0]), colmat(x[2][1]))
                            raise Bad('column expression ' + sk(x)[:60])

                        def up(x):
                            m = re.search(r'\^(?:_ref__)?(\w+)\)*$', sk(strip(x)))
                            if not m or m.group(1) not in actual:
                                raise Bad('operand of compute_schur closure: ' + sk(x)[:40])
                            a_ = strip(actual[m.group(1)])
                            if a_[0] == 'call' and 'solve_triangular' in a_[1]:
                                return solved(a_)
                            bk = block_of(a_)
                            if bk:
                                return W(bk)
                            raise Bad('argument of compute_schur: ' + sk(a_)[:60])
                        S = nadd(colmat(r[2][0]), colmat(r[2][1]), -1)
        if S is None:
            raise Bad('compute_schur column formula not recognised')
    except Bad as e:
        rep.indet('E17: Schur reduction outside the recognised fragment: %s' % e)
        return
    M = [[W('a'), W('b')], [W('c'), W('d')]]
    want_s = nadd(W('d'), W('c', 'ai', 'b'), -1)
    inst = 'Schur|s = d - c a^-1 b'
    if S == want_s:
        rep.ok('E17.S1-schur-complement', inst, nshow(S))
    else:
        rep.violation('E17.S1-schur-complement', inst, 'compute_schur forms %s, expected %s' % (nshow(S), nshow(want_s)), where=facts.bodies[CS].where())
    # every combination of the guarded variants of the two transforms, each modulo the blocks its path found zero
    combos = [(vs, vt) for vs in variants['src'] for vt in variants['tgt']]
    worst = None
    for vs, vt in combos:
        res = _identities(rep, root, M, want_s, {'src': vs[1], 'tgt': vt[1]}, {'src': vs[2], 'tgt': vt[2]}, vs[0] | vt[0], dry=True)
        if res and worst is None:
            worst = (vs, vt)
    vs, vt = worst or combos[0]
    _identities(rep, root, M, want_s, {'src': vs[1], 'tgt': vt[1]}, {'src': vs[2], 'tgt': vt[2]}, vs[0] | vt[0], dry=False, nvar=len(combos))
    check_dimensions(facts, rep, root, kinds)


def _kill(p, Z):
    return {w: c for w, c in p.items() if not any(x in Z for x in w)}


def _identities(rep, root, M, want_s, F, Bk, Z, dry, nvar=1):
    """S2-S4 for one pair of transform variants, modulo block = 0 for the blocks in Z; dry: only count the failures"""
    bad = []
    K = lambda p: _kill(p, Z)
    M = [[K(x) for x in r] for r in M]
    want_s = K(want_s)
    F = {k: [K(x) for x in v] for k, v in F.items()}
    Bk = {k: [K(x) for x in v] for k, v in Bk.items()}
    under = (' on the path where %s found zero' % ', '.join('%s.is_zero()' % z for z in sorted(Z))) if Z else ''

    class _R:
        def ok(self, *a):
            pass

        def violation(self, *a, **k):
            bad.append(a[0])
    if dry:
        rep = _R()

    def row_times_M(row):
        return [nadd(nmul(row[0], M[0][j]), nmul(row[1], M[1][j])) for j in range(2)]

    def row_times_col(row, col):
        return nadd(nmul(row[0], col[0]), nmul(row[1], col[1]))
    fmb = row_times_col(row_times_M(F['tgt']), Bk['src'])
    inst = 'Schur|F_tgt * M * B_src = s'
    if fmb == want_s:
        rep.ok('E17.S2-transfer-maps', inst, 'F_tgt = [%s, %s], B_src = [%s; %s]' % (nshow(F['tgt'][0]), nshow(F['tgt'][1]), nshow(Bk['src'][0]), nshow(Bk['src'][1])))
    else:
        rep.violation('E17.S2-transfer-maps', inst,
                      ('with F_tgt = [%s, %s] and B_src = [%s; %s]' + under + ' the product F_tgt*M*B_src is %s, not the Schur complement %s') %
                      (nshow(F['tgt'][0]), nshow(F['tgt'][1]), nshow(Bk['src'][0]), nshow(Bk['src'][1]), nshow(fmb), nshow(want_s)), where=root.where())
    # chain-map conditions: M * B_src = B_tgt * s   and   F_tgt * M = s * F_src
    mb = [nadd(nmul(M[i][0], Bk['src'][0]), nmul(M[i][1], Bk['src'][1])) for i in range(2)]
    bs_ = [nmul(Bk['tgt'][i], want_s) for i in range(2)]
    fm = row_times_M(F['tgt'])
    sf = [nmul(want_s, F['src'][j]) for j in range(2)]
    inst = 'Schur|M * B_src = B_tgt * s and F_tgt * M = s * F_src'
    if mb == bs_ and fm == sf:
        rep.ok('E17.S4-chain-maps', inst, 'M*B_src = [0; s], F_tgt*M = [0, s]')
    else:
        rep.violation('E17.S4-chain-maps', inst,
                      ('the transfer maps are not chain maps' + under + ': M*B_src = [%s; %s] (want [%s; %s]), F_tgt*M = [%s, %s] (want [%s, %s])') %
                      (nshow(mb[0]), nshow(mb[1]), nshow(bs_[0]), nshow(bs_[1]), nshow(fm[0]), nshow(fm[1]), nshow(sf[0]), nshow(sf[1])), where=root.where())
    for side in ('src', 'tgt'):
        fb = row_times_col(F[side], Bk[side])
        inst = 'Schur|F_%s * B_%s = 1' % (side, side)
        if fb == ONE:
            rep.ok('E17.S3-retraction', inst, 'F = [%s, %s], B = [%s; %s]' % (nshow(F[side][0]), nshow(F[side][1]), nshow(Bk[side][0]), nshow(Bk[side][1])))
        else:
            rep.violation('E17.S3-retraction', inst, 'F_%s * B_%s = %s, not the identity' % (side, side, nshow(fb)), where=root.where())
    return bad


# ------------------------------------------------------------------ S5: dimensions of the two transforms
def _aff(p, q, s=1):
    r = dict(p)
    for k, c in q.items():
        r[k] = r.get(k, 0) + s * c
        if r[k] == 0:
            del r[k]
    return r


def _ashow(p):
    if not p:
        return '0'
    out = ''
    for k, c in sorted(p.items(), key=lambda kv: (kv[0] == 1, str(kv[0]))):
        t = str(abs(c)) if k == 1 else (('' if abs(c) == 1 else str(abs(c))) + k)
        out += (' - ' if c < 0 else (' + ' if out else '')) + t
    return out.strip()


def check_dimensions(facts, rep, root, kinds):
    """S5: on every returning path of from_partial_triangular that carries transforms, t_src maps R^n -> R^(n-r) and t_tgt
    maps R^m -> R^(m-r), (m, n) = shape of the input and r the size of the eliminated block. The shapes of the matrix
    expressions are computed as affine forms in m, n, r (blocks of divide4((k, l)); id, zero, the selector closures,
    neg, the two triangular solves, stack / extend_cols), modulo the tests of r the path has passed (r == 0)."""
    inst = 'Schur|t_src : n -> n - r and t_tgt : m -> m - r on every path'
    M_, N_, R_ = {'m': 1}, {'n': 1}, {'r': 1}

    def dim(t):
        t = strip(t)
        s = sk(t)
        if t[0] == 'const' and isinstance(t[1], int):
            return {1: t[1]} if t[1] else {}
        if t == ('arg', 3):
            return R_
        if t[0] == 'field' and t[2] in ('0', '1') and strip(t[1])[0] == 'call' and strip(t[1])[1].split('::')[-1] == 'shape' and strip(strip(t[1])[2][0]) == ('arg', 2):
            return M_ if t[2] == '0' else N_
        if t[0] == 'call' and t[1].split('::')[-1] in ('nrows', 'ncols') and len(t[2]) == 1 and strip(t[2][0]) == ('arg', 2):
            return M_ if t[1].endswith('nrows') else N_
        if t[0] == 'field' and t[2] == '0' and t[1][0] == 'bin' and t[1][1] in ('SubWithOverflow', 'AddWithOverflow'):
            return _aff(dim(t[1][2]), dim(t[1][3]), -1 if t[1][1].startswith('Sub') else 1)
        if t[0] == 'bin' and t[1] in ('Sub', 'Add'):
            return _aff(dim(t[2]), dim(t[3]), -1 if t[1] == 'Sub' else 1)
        raise Bad('dimension ' + s[:60])

    def shape(t, p):
        t = strip(t)
        s = sk(t)
        if t[0] == 'post':
            ev = [e for e in p.calls() if e.site == t[1]]
            if ev and ev[0].name.split('::')[-1] == 'extend_cols' and len(ev[0].args) == 2:
                a_, b_ = shape(t[2], p), shape(ev[0].args[1], p)
                if a_[0] != b_[0]:
                    raise Bad('extend_cols joins %s rows with %s rows' % (_ashow(a_[0]), _ashow(b_[0])))
                return (a_[0], _aff(a_[1], b_[1]))
            if ev and ev[0].name.split('::')[-1] == 'extend_rows' and len(ev[0].args) == 2:
                a_, b_ = shape(t[2], p), shape(ev[0].args[1], p)
                return (_aff(a_[0], b_[0]), a_[1])
            raise Bad('matrix modified by ' + (ev[0].name.split('::')[-1] if ev else '?'))
        if t[0] == 'index' and strip(t[1])[0] == 'call' and strip(t[1])[1].endswith('divide4') and t[2][0] == 'const':
            c = strip(t[1])
            if strip(c[2][0]) != ('arg', 2) or strip(c[2][1])[0] != 'tuple':
                raise Bad('divide4 of ' + sk(c)[:60])
            k, l = [dim(x) for x in strip(c[2][1])[1]]
            i = t[2][1]
            return (k if i < 2 else _aff(M_, k, -1), l if i % 2 == 0 else _aff(N_, l, -1))
        if t[0] == 'call':
            last = t[1].split('::')[-1]
            if last == 'id' and len(t[2]) == 1:
                k = dim(t[2][0])
                return (k, k)
            if last == 'zero' and len(t[2]) == 1 and strip(t[2][0])[0] == 'tuple':
                a_, b_ = [dim(x) for x in strip(t[2][0])[1]]
                return (a_, b_)
            if last == 'neg' and len(t[2]) == 1:
                return shape(t[2][0], p)
            if last == 'solve_triangular' and len(t[2]) == 3:
                return shape(t[2][2], p)
            if last == 'solve_triangular_left' and len(t[2]) == 3:
                return shape(t[2][2], p)
            if last == 'stack' and len(t[2]) == 2:
                a_, b_ = shape(t[2][0], p), shape(t[2][1], p)
                if a_[1] != b_[1]:
                    raise Bad('stack joins %s columns with %s columns' % (_ashow(a_[1]), _ashow(b_[1])))
                return (_aff(a_[0], b_[0]), a_[1])
            if t[1] in kinds:
                if _ARITY.get(t[1]) == 1 and len(t[2]) == 2 and strip(t[2][1])[0] == 'tuple':
                    args = [dim(x) for x in strip(t[2][1])[1]]       # closure call: (env, (args..))
                else:
                    args = [dim(x) for x in t[2]]
                kd = kinds[t[1]]
                if kd == 'id' and len(args) == 1:
                    return (args[0], args[0])
                if kd == 'proj' and len(args) == 2:
                    return (args[1], args[0])
                if kd == 'incl' and len(args) == 2:
                    return (args[0], args[1])
        raise Bad('matrix expression ' + s[:70])

    def trans_dims(t, p):
        """(src_dim, tgt_dim) of a Trans value"""
        t = strip(t)
        if t[0] == 'call' and t[1].endswith('Trans::<R>::id') and len(t[2]) == 1:
            k = dim(t[2][0])
            return (k, k), None
        if t[0] == 'call' and t[1].endswith('Trans::<R>::new') and len(t[2]) == 2:
            f, b = shape(t[2][0], p), shape(t[2][1], p)
            return (f[1], f[0]), (b[0], b[1])
        raise Bad('transform ' + sk(t)[:60])
    n = 0
    problems = []
    try:
        for p in SymEx(root, max_paths=20000).run():
            r = p.ret
            if p.end != 'return' or r is None:
                continue
            flds = dict(zip(r[3], r[4])) if (r[0] == 'adt' and len(r) == 5) else None
            if flds is None:
                # fall back to the printed form
                raise Bad('result of from_partial_triangular is not a struct literal')
            zero_r = False
            for c in p.branches():
                cs = sk(c.term)
                if cs in ('Eq(arg3, 0)', 'Eq(0, arg3)') and c.value != 0:
                    zero_r = True
                if cs in ('Ne(arg3, 0)', 'Ne(0, arg3)', 'Gt(arg3, 0)', 'Lt(0, arg3)') and c.value == 0:
                    zero_r = True
            for fld, (sd, td) in (('t_src', (N_, _aff(N_, R_, -1))), ('t_tgt', (M_, _aff(M_, R_, -1)))):
                v = strip(flds.get(fld, ('none',)))
                if v[0] == 'adt' and v[2] == 'None':
                    continue
                if not (v[0] == 'adt' and v[2] == 'Some' and len(v[4]) == 1):
                    raise Bad('%s is %s' % (fld, sk(v)[:60]))
                inner = v[4][0]
                got, back = trans_dims(inner, p)
                kill = (lambda a: {k: c for k, c in a.items() if k != 'r'}) if zero_r else (lambda a: a)
                n += 1
                if (kill(got[0]), kill(got[1])) != (kill(sd), kill(td)):
                    problems.append('%s maps R^(%s) -> R^(%s)%s, expected R^(%s) -> R^(%s)' % (fld, _ashow(got[0]), _ashow(got[1]), ' on the path with r == 0' if zero_r else '', _ashow(sd), _ashow(td)))
                elif back is not None and (kill(back[0]), kill(back[1])) != (kill(sd), kill(td)):
                    problems.append('the backward map of %s has shape (%s) x (%s), expected (%s) x (%s)' % (fld, _ashow(back[0]), _ashow(back[1]), _ashow(sd), _ashow(td)))
    except Bad as e:
        rep.indet('E17.S5: shapes of the Schur transforms outside the recognised fragment: %s' % e)
        return
    if problems:
        rep.violation('E17.S5-dimensions', inst, 'Schur::from_partial_triangular: ' + '; '.join(sorted(set(problems))) + ' - with (m, n) = shape of the input: the transforms cannot be composed with the matrix they belong to', where=root.where())
    elif n < 2:
        rep.indet('E17.S5: no returning path of from_partial_triangular carries both transforms')
    else:
        rep.ok('E17.S5-dimensions', inst, '%d transform(s) on the returning paths' % n)
