"""E17 - block identities of the Schur reduction (C12; mechanism of C08).

`Schur::from_partial_triangular` splits M = [a b; c d] (a triangular, invertible), computes s and two
coordinate transforms. The block expressions are read from the MIR path summaries of the function and its
closures and verified in the free non-commutative algebra on a, a^-1, b, c, d (a a^-1 = a^-1 a = 1),
under the contracts  solve_triangular(t, a, b) = a^-1 b  and  solve_triangular_left(t, a, c) = c a^-1
(that those solvers meet their contract is the *other*, value-level clause of C12 and is NOT decided):
    S1  s = d - c (a^-1 b)                         (compute_schur, column by column: d_j - c (a^-1 b)_j)
    S2  F_tgt * M * B_src = s                      with F_tgt = [-c a^-1, 1], B_src = [-a^-1 b; 1]
    S3  F_src * B_src = 1  and  F_tgt * B_tgt = 1  with F_src = [0, 1], B_tgt = [0; 1]
    S4  chain-map conditions  M * B_src = B_tgt * s  and  F_tgt * M = s * F_src
and the selector matrices proj / incl really are [0 1] / [0; 1] (unit entries at (i, n-k+i) / (n-k+i, i)).
"""
import re
from symex import SymEx, show, strip
from e8_formulas import named_local_terms

ROOT = 'yui_matrix::sparse::schur::Schur::<R>::from_partial_triangular'
CS = 'yui_matrix::sparse::schur::Schur::<R>::compute_schur'


def sk(t):
    return re.sub(r'#(?:i\d+:)?\d+\.\d+', '', show(t))


# ---- non-commutative polynomials: dict word -> coef, with a*ai = ai*a = 1
def nreduce(w):
    out = []
    for s in w:
        if out and {out[-1], s} == {'a', 'ai'}:
            out.pop()
        else:
            out.append(s)
    return tuple(out)


def nmul(p, q):
    r = {}
    for w1, c1 in p.items():
        for w2, c2 in q.items():
            w = nreduce(w1 + w2)
            r[w] = r.get(w, 0) + c1 * c2
            if r[w] == 0:
                del r[w]
    return r


def nadd(p, q, s=1):
    r = dict(p)
    for w, c in q.items():
        r[w] = r.get(w, 0) + s * c
        if r[w] == 0:
            del r[w]
    return r


def W(*syms):
    return {tuple(syms): 1}


ONE, ZERO = {(): 1}, {}


def nshow(p):
    if not p:
        return '0'
    return ' + '.join(('%s' % ('' if c == 1 else ('-' if c == -1 else c))) + ('·'.join(w) or '1') for w, c in sorted(p.items()))


class Bad(Exception):
    pass


def run(facts, rep):
    root = facts.bodies.get(ROOT)
    if root is None or CS not in facts.bodies:
        rep.indet('E17: Schur::from_partial_triangular / compute_schur not found')
        return
    rep.saw(root)
    closures = {k: b for k, b in facts.bodies.items() if k.startswith(ROOT + '::{closure')}
    try:
        # blocks and the solved right-hand side in the enclosing function
        loc = named_local_terms(root, {'a', 'b', 'c', 'd', 'ainvb'})
        blk = {}
        for nm in ('a', 'b', 'c', 'd'):
            ts = loc.get(nm) or set()
            # a later shadowing `let b = ..` may reuse the name: the block is the divide4 element
            ts = {x for x in ts if strip(x)[0] == 'index' and strip(x)[1][0] == 'call' and strip(x)[1][1].endswith('SpMat::<R>::divide4')} or ts
            if len(ts) != 1:
                raise Bad('block `%s` not found' % nm)
            t = strip(list(ts)[0])
            if not (t[0] == 'index' and t[1][0] == 'call' and t[1][1].endswith('SpMat::<R>::divide4') and t[2][0] == 'const'):
                raise Bad('block `%s` is %s, not an element of divide4(..)' % (nm, sk(t)))
            blk[nm] = t[2][1]
        if [blk[x] for x in 'abcd'] != [0, 1, 2, 3]:
            raise Bad('blocks are taken as %s from divide4 (expected a,b,c,d = 0,1,2,3)' % blk)

        def block_of(t):
            """which of a, b, c, d a term denotes (through refs and upvars)"""
            t = strip(t)
            s = sk(t)
            m = re.search(r'\^(?:_ref__)?([abcd])\)*$', s)
            if m:
                return m.group(1)
            if t[0] == 'index' and t[1][0] == 'call' and t[1][1].endswith('divide4') and t[2][0] == 'const':
                return 'abcd'[t[2][1]]
            return None

        def solved(t):
            """nc-polynomial of solve_triangular / solve_triangular_left applied to blocks"""
            t = strip(t)
            if t[0] == 'call' and t[1].endswith('triang::solve_triangular') and len(t[2]) == 3:
                x, y = block_of(t[2][1]), block_of(t[2][2])
                if x == 'a' and y:
                    return W('ai', y)
                raise Bad('solve_triangular on (%s, %s)' % (x, y))
            if t[0] == 'call' and t[1].endswith('triang::solve_triangular_left') and len(t[2]) == 3:
                x, y = block_of(t[2][1]), block_of(t[2][2])
                if x == 'a' and y:
                    return W(y, 'ai')
                raise Bad('solve_triangular_left on (%s, %s)' % (x, y))
            raise Bad('not a triangular solve: ' + sk(t)[:60])
        ts = loc.get('ainvb') or set()
        if len(ts) != 1:
            raise Bad('`ainvb` not found')
        AINVB = solved(list(ts)[0])

        def mat(t):
            """nc-polynomial of a single-block matrix expression"""
            t = strip(t)
            s = sk(t)
            if t[0] == 'field' and re.search(r'\^(?:_ref__)?ainvb$', t[2]):
                return AINVB
            if t[0] == 'call':
                last = t[1].split('::')[-1]
                if last == 'neg' and len(t[2]) == 1:
                    return nadd(ZERO, mat(t[2][0]), -1)
                if last in ('solve_triangular', 'solve_triangular_left'):
                    return solved(t)
                if last in ('id',) or (last.startswith('{closure') and selector_kind(t) == 'id'):
                    return ONE
            bk = block_of(t)
            if bk:
                return W(bk)
            raise Bad('unrecognised matrix expression ' + s[:80])

        # selector closures: which closure is id / proj / incl, and what they build
        kinds = {}
        for k, b in closures.items():
            rep.saw(b)
            for p in SymEx(b).run():
                r = p.ret
                if p.end != 'return' or r is None or r[0] != 'call':
                    continue
                if r[1].endswith('SpMat::<R>::id'):
                    kinds[k] = 'id'
                elif r[1].endswith('SpMat::<R>::from_entries') and r[2][1][0] == 'call' and r[2][1][2][1][0] == 'closure':
                    shape = strip(r[2][0])
                    inner = facts.bodies.get(r[2][1][2][1][1])
                    ent = None
                    for q in SymEx(inner).run():
                        if q.end == 'return' and q.ret[0] == 'tuple' and len(q.ret[1]) == 3:
                            ent = q.ret[1]
                    if ent is None:
                        continue
                    row, col, val = sk(ent[0]), sk(ent[1]), sk(ent[2])
                    off = lambda x: bool(re.match(r'AddWithOverflow\(SubWithOverflow\(\*?\.*\^?(?:_ref__)?n, \*?\.*\^?(?:_ref__)?k\)\.0, arg2\)\.0$', x)) or ('SubWithOverflow' in x and 'arg2' in x and x.startswith('AddWithOverflow'))
                    if 'one()' not in val:
                        raise Bad('selector entries are not one(): ' + val)
                    if shape == ('tuple', (('arg', 3), ('arg', 2))) and row == 'arg2' and off(col):
                        kinds[k] = 'proj'        # (k x n), ones at (i, n-k+i): [0 1]
                    elif shape == ('tuple', (('arg', 2), ('arg', 3))) and off(row) and col == 'arg2':
                        kinds[k] = 'incl'        # (n x k), ones at (n-k+i, i): [0; 1]
                    else:
                        raise Bad('selector closure %s builds shape %s with entries (%s, %s)' % (k.split('::')[-1], sk(shape), row, col))

        def selector_kind(t):
            t = strip(t)
            if t[0] == 'call' and t[1] in kinds:
                return kinds[t[1]]
            return None

        # the two transforms: Trans::new(forward, backward)
        F = {}
        Bk = {}

        def handle(p, f, bw):
            # forward
            fk = selector_kind(f)
            if fk == 'proj':
                fwd = ('row', [ZERO, ONE])
            elif f[0] == 'post':
                ev = [e for e in p.calls() if e.site == f[1]]
                if not ev or ev[0].name.split('::')[-1] != 'extend_cols' or selector_kind(ev[0].args[1]) != 'id':
                    raise Bad('forward map of the target transform is not `x.extend_cols(id)`')
                fwd = ('row', [mat(ev[0].pre[0]), ONE])
            else:
                raise Bad('unrecognised forward map ' + sk(f)[:80])
            # backward
            bk_ = selector_kind(bw)
            bs = strip(bw)
            if bk_ == 'incl':
                back = ('col', [ZERO, ONE])
            elif bs[0] == 'call' and bs[1].split('::')[-1] == 'stack' and len(bs[2]) == 2 and selector_kind(bs[2][1]) == 'id':
                back = ('col', [mat(bs[2][0]), ONE])
            else:
                raise Bad('unrecognised backward map ' + sk(bw)[:80])
            side = 'src' if fwd[1][0] == ZERO else 'tgt'
            F[side], Bk[side] = fwd[1], back[1]
        for k, b in closures.items():
            for p in SymEx(b).run():
                r = p.ret
                if p.end != 'return' or r is None or r[0] != 'call' or not r[1].endswith('trans::Trans::<R>::new') or len(r[2]) != 2:
                    continue
                handle(p, r[2][0], r[2][1])
        if set(F) != {'src', 'tgt'}:
            # the transforms may be built in the function body itself (plain blocks instead of `then(|| ..)` closures)
            for p in SymEx(root, max_paths=20000).run():
                for e in p.calls():
                    if e.name.endswith('trans::Trans::<R>::new') and len(e.args) == 2:
                        handle(p, e.args[0], e.args[1])
        if set(F) != {'src', 'tgt'}:
            raise Bad('source / target transforms not both recognised (%s)' % sorted(F))

        # s from compute_schur
        cs = facts.bodies[CS]
        rep.saw(cs)
        names = [cs.local_name(i) for i in range(1, cs.arg_count + 1)]
        call = [e for p in SymEx(root).run() for e in p.calls() if e.name == CS]
        if not call:
            raise Bad('compute_schur is not called')
        actual = {names[i]: call[0].args[i] for i in range(len(names))}
        S = None
        for k, b in facts.bodies.items():
            if k.startswith(CS + '::{closure'):
                for q in SymEx(b).run():
                    r = q.ret
                    if q.end == 'return' and r is not None and r[0] == 'call' and r[1].split('::')[-1] == 'sub' and len(r[2]) == 2:
                        def colmat(x):
                            x = strip(x)
                            if x[0] == 'call' and x[1].split('::')[-1] == 'col_vec':
                                return up(x[2][0])
                            if x[0] == 'call' and x[1].split('::')[-1] == 'mul' and len(x[2]) == 2:
                                return nmul(up(x[2][0]), colmat(x[2][1]))
                            raise Bad('column expression ' + sk(x)[:60])

                        def up(x):
                            m = re.search(r'\^(?:_ref__)?(\w+)\)*$', sk(strip(x)))
                            if not m or m.group(1) not in actual:
                                raise Bad('operand of compute_schur closure: ' + sk(x)[:40])
                            a_ = strip(actual[m.group(1)])
                            if a_[0] == 'call' and 'solve_triangular' in a_[1]:
                                return solved(a_)
                            bk = block_of(a_)
                            if bk:
                                return W(bk)
                            raise Bad('argument of compute_schur: ' + sk(a_)[:60])
                        S = nadd(colmat(r[2][0]), colmat(r[2][1]), -1)
        if S is None:
            raise Bad('compute_schur column formula not recognised')
    except Bad as e:
        rep.indet('E17: Schur reduction outside the recognised fragment: %s' % e)
        return
    M = [[W('a'), W('b')], [W('c'), W('d')]]
    want_s = nadd(W('d'), W('c', 'ai', 'b'), -1)
    inst = 'Schur|s = d - c a^-1 b'
    if S == want_s:
        rep.ok('E17.S1-schur-complement', inst, nshow(S))
    else:
        rep.violation('E17.S1-schur-complement', inst, 'compute_schur forms %s, expected %s' % (nshow(S), nshow(want_s)), where=facts.bodies[CS].where())

    def row_times_M(row):
        return [nadd(nmul(row[0], M[0][j]), nmul(row[1], M[1][j])) for j in range(2)]

    def row_times_col(row, col):
        return nadd(nmul(row[0], col[0]), nmul(row[1], col[1]))
    fmb = row_times_col(row_times_M(F['tgt']), Bk['src'])
    inst = 'Schur|F_tgt * M * B_src = s'
    if fmb == want_s:
        rep.ok('E17.S2-transfer-maps', inst, 'F_tgt = [%s, %s], B_src = [%s; %s]' % (nshow(F['tgt'][0]), nshow(F['tgt'][1]), nshow(Bk['src'][0]), nshow(Bk['src'][1])))
    else:
        rep.violation('E17.S2-transfer-maps', inst,
                      'with F_tgt = [%s, %s] and B_src = [%s; %s] the product F_tgt*M*B_src is %s, not the Schur complement %s' %
                      (nshow(F['tgt'][0]), nshow(F['tgt'][1]), nshow(Bk['src'][0]), nshow(Bk['src'][1]), nshow(fmb), nshow(want_s)), where=root.where())
    # chain-map conditions: M * B_src = B_tgt * s   and   F_tgt * M = s * F_src
    mb = [nadd(nmul(M[i][0], Bk['src'][0]), nmul(M[i][1], Bk['src'][1])) for i in range(2)]
    bs_ = [nmul(Bk['tgt'][i], want_s) for i in range(2)]
    fm = row_times_M(F['tgt'])
    sf = [nmul(want_s, F['src'][j]) for j in range(2)]
    inst = 'Schur|M * B_src = B_tgt * s and F_tgt * M = s * F_src'
    if mb == bs_ and fm == sf:
        rep.ok('E17.S4-chain-maps', inst, 'M*B_src = [0; s], F_tgt*M = [0, s]')
    else:
        rep.violation('E17.S4-chain-maps', inst,
                      'the transfer maps are not chain maps: M*B_src = [%s; %s] (want [%s; %s]), F_tgt*M = [%s, %s] (want [%s, %s])' %
                      (nshow(mb[0]), nshow(mb[1]), nshow(bs_[0]), nshow(bs_[1]), nshow(fm[0]), nshow(fm[1]), nshow(sf[0]), nshow(sf[1])), where=root.where())
    for side in ('src', 'tgt'):
        fb = row_times_col(F[side], Bk[side])
        inst = 'Schur|F_%s * B_%s = 1' % (side, side)
        if fb == ONE:
            rep.ok('E17.S3-retraction', inst, 'F = [%s, %s], B = [%s; %s]' % (nshow(F[side][0]), nshow(F[side][1]), nshow(Bk[side][0]), nshow(Bk[side][1])))
        else:
            rep.violation('E17.S3-retraction', inst, 'F_%s * B_%s = %s, not the identity' % (side, side, nshow(fb)), where=root.where())
