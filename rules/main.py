import sys, os, time, json, importlib, traceback
import harness
from harness import Report, finish, extract, BuildFailed, VERIF
from core import Facts, Missing
from symex import TooManyPaths


class Ctx:
    def __init__(self, tier, seed):
        self.tier = tier
        self.seed = seed
        self._facts = {}
        self.tree = None
        self._tables = None
        self._fixture = None

    def facts(self, config='default'):
        if config not in self._facts:
            fresh = (self.tier == 'thorough') and not os.environ.get('VERIF_REUSE')
            import harness
            fx, th, cached = harness.load_locked(Facts, config, fresh=fresh and config not in self._facts)
            self.tree = th
            self._facts[config] = fx
            self._facts[config].cached = cached
        return self._facts[config]

    def reload(self):
        """re-register the real fact base (ids, promoted constants) after another Facts was loaded"""
        for cfg, f in self._facts.items():
            if cfg == 'default':
                f.register()

    def tables(self):
        if self._tables is None:
            import tables
            self._tables = tables.load()
        return self._tables

    def fixture(self):
        """facts of the positive-control crate (/verif/fixtures), analysed by the same driver"""
        if self._fixture is None:
            import fixtures
            self._fixture = fixtures.load()
        return self._fixture


def main(argv):
    if not argv or argv[0].startswith('-'):
        print(__doc__ or 'usage: check <Cxx> [--tier quick|thorough] [--replay path]')
        return 2
    pid = argv[0]
    tier = os.environ.get('VERIF_TIER', 'quick')
    replay = None
    i = 1
    while i < len(argv):
        if argv[i] == '--tier':
            tier = argv[i + 1]
            i += 2
        elif argv[i] == '--replay':
            replay = argv[i + 1]
            i += 2
        else:
            i += 1
    if tier not in ('quick', 'thorough'):
        tier = 'quick'
    try:
        seed = int(os.environ.get('VERIF_SEED', '0'))
    except ValueError:
        seed = 0
    t0 = time.time()
    Facts.repo = harness.REPO
    rep = Report(pid, tier)
    try:
        mod = importlib.import_module('props.' + pid)
    except ImportError as e:
        print('no check for property %s (%s)' % (pid, e))
        return 2
    ctx = Ctx(tier, seed)
    try:
        mod.run(ctx, rep)
        if tier == 'thorough':
            import thorough
            thorough.witnesses(rep)
            thorough.selftest(rep)
    except BuildFailed as e:
        rep.indet('cannot extract facts: /repo does not build under `cargo +nightly check`: %s' % str(e)[-1500:])
    except Missing as e:
        rep.indet('anchor missing: %s' % e)
    except TooManyPaths as e:
        rep.indet('path explosion in %s' % e)
    except Exception as e:      # an engine left its recognised fragment: fail closed, never raise an alarm
        tb = traceback.format_exc().strip().split('\n')
        rep.indet('internal: %s: %s (%s)' % (type(e).__name__, e, tb[-3].strip() if len(tb) >= 3 else ''))
    cmd = './check %s --tier %s' % (pid, tier)
    rc = finish(rep, t0, mod.LEVEL, mod.EXPLANATION, mod.TRUSTED, cmd, seed)
    if replay:
        want = json.load(open(replay))['key']
        hit = [v for v in rep.violations if v['key'] == want]
        print('replay %s: %s' % (want, 'still violated' if hit else 'no longer violated'))
        return 1 if hit else 0
    return rc
