"""E10 - CLI error discipline and the (-t, -c) -> ring dispatch table of `ykh`.

  R1  the four command `dispatch` functions are called only from the closure that App::dispatch
      hands to guard_panic (every internal failure is inside the panic guard).
  R2  guard_panic goes through std::panic::catch_unwind and its unwind arm returns `Err`.
  R3  in main, stdout is written only on the `Ok` arm of App::run's result; the `Err` arm prints
      nothing to stdout and reaches std::process::exit with a non-zero constant.
  R4  no stdout write (std::io::_print) is reachable from App::dispatch: a failure can never be
      preceded by a partial table.
  R5  no `panic = "abort"` profile in the workspace manifests (would void R2).
  R7  load_link / load_sinv_knot consult the `mirror` flag on every path that returns Ok (PD code, name, file):
      no input kind silently ignores -m.
  R6  dispatch table of kh / ckh: every `App::<T>::run` call is reached under discriminant
      constraints (c_type, poly vars) with T = wrap(vars, ring(c_type)), ring = {Z: Int, Q: Ratio<Int>,
      F2: FF<2>, F3: FF<3>}, wrap = {None: R, H: Poly<'H',R>, T: Poly<'T',R>, HT: Poly2<'H','T',R>},
      and every documented supported combination is present.
"""
import re, os
from symex import SymEx, show, strip, TooManyPaths

CT = ['Z', 'Q', 'F2', 'F3', 'Gauss', 'Eisen']
PV = ['H', 'T', 'HT', 'None']
# documented supported combinations (default features: poly on, qint off)
SUPPORTED = {
    'kh': {(c, 'None') for c in ('Z', 'Q', 'F2', 'F3')} | {(c, v) for c in ('Q', 'F2', 'F3') for v in ('H', 'T')},
    'ckh': {(c, 'None') for c in ('Z', 'Q', 'F2', 'F3')} | {(c, v) for c in ('Z', 'Q', 'F2', 'F3') for v in ('H', 'T', 'HT')},
}


def ring(ct, int_ty):
    return {'Z': int_ty, 'Q': 'yui::Ratio<%s>' % int_ty, 'F2': 'yui::FF<2>', 'F3': 'yui::FF<3>',
            'Gauss': 'yui::QuadInt<%s, -1>' % int_ty, 'Eisen': 'yui::QuadInt<%s, -3>' % int_ty}[ct]


def wrap(pv, r):
    if pv == 'None':
        return r
    if pv == 'HT':
        return "yui::poly::PolyBase<yui::poly::Var2<'H', 'T', usize>, %s>" % r
    return "yui::poly::PolyBase<yui::poly::Var<'%s', usize>, %s>" % (pv, r)


def sk(t):
    return re.sub(r'#(?:i\d+:)?\d+\.\d+', '', show(t))


def check_dispatch_table(facts, rep, cmd, int_ty='i64'):
    root = 'ykh::app::cmd::%s::dispatch' % cmd
    bodies = [b for k, b in facts.bodies.items() if k == root or k.startswith(root + '::{closure')]
    if root not in facts.bodies:
        rep.indet('E10.R6: %s not found' % root)
        return
    found = {}
    for b in bodies:
        rep.saw(b)
        for p in SymEx(b, follow_diverge=True).run():
            runs = [e for e in p.calls() if re.search(r'app::cmd::%s::App::<R>::run$' % cmd, e.name)]
            if not runs:
                continue
            ct = pv = None
            none_region = False
            for e in p.branches():
                s = sk(e.term)
                if re.match(r'discr\(\*arg1(\.\^_ref__args)?\.c_type\)$', s) and isinstance(e.value, int):
                    ct = CT[e.value] if e.value < len(CT) else '?'
                elif re.match(r'discr\(poly_vars\(', s) and isinstance(e.value, int):
                    pv = PV[e.value] if e.value < len(PV) else '?'
                elif s.startswith('eq(&poly_vars(') and e.value == 'else':
                    none_region = True
            if pv is None and none_region:
                pv = 'None'
            for e in runs:
                T = e.fn['args'][0] if e.fn and e.fn.get('args') else '?'
                inst = 'ykh %s|-t %s vars %s' % (cmd, ct, pv)
                if ct is None or pv is None:
                    rep.indet('E10.R6: %s reaches App::<%s>::run on a path whose decision on (c_type, poly vars) was not read' % (b.defp, T))
                    continue
                want = wrap(pv, ring(ct, int_ty))
                found[(ct, pv)] = T
                if T == want:
                    rep.ok('E10.R6-dispatch-table', inst, 'App::<%s>' % T)
                else:
                    rep.violation('E10.R6-dispatch-table', inst,
                                  '`ykh %s -t %s` with polynomial variables %s computes over %s; the documented ring is %s' % (cmd, ct, pv, T, want),
                                  where='%s:%d' % (b.file, e.line))
    for (ct, pv) in sorted(SUPPORTED[cmd]):
        if (ct, pv) not in found:
            rep.violation('E10.R6-dispatch-table', 'ykh %s|-t %s vars %s missing' % (cmd, ct, pv),
                          '`ykh %s -t %s` with polynomial variables %s is documented as supported but no dispatch arm reaches App::run for it' % (cmd, ct, pv),
                          where=facts.bodies[root].where())
    rep.inventory['E10 dispatch table %s' % cmd] = {'%s,%s' % k: v for k, v in sorted(found.items())}


def run(facts, rep, int_ty='i64', repo='/repo'):
    cg = facts.callgraph()
    rcg = facts.rev_callgraph()
    # R1
    guard_closure = None
    for cmd in ('kh', 'ckh', 'khi', 'ckhi'):
        d = 'ykh::app::cmd::%s::dispatch' % cmd
        if d not in facts.bodies:
            rep.indet('E10.R1: %s not found' % d)
            continue
        callers = sorted(rcg.get(d, ()))
        inst = '%s|callers' % d
        okc = [c for c in callers if re.match(r'ykh::app::app::App::dispatch::\{closure#\d+\}$', c)]
        # a private function that is itself only called from inside the guard closure (or from such functions) is inside it
        inside = set(okc)
        frontier = [c for c in callers if c not in inside]
        ok_all = bool(callers)
        seen_ = set()
        while frontier and ok_all:
            c = frontier.pop()
            if c in seen_:
                continue
            seen_.add(c)
            cb_ = facts.bodies.get(c)
            cc = sorted(rcg.get(c, ()))
            if cb_ is None or cb_.d.get('vis', 'pub') == 'pub' and cb_.kind != 'Closure' or not cc:
                ok_all = False
                break
            for x in cc:
                if re.match(r'ykh::app::app::App::dispatch::\{closure#\d+\}$', x):
                    inside.add(x)
                    okc = okc or [x]
                elif x not in seen_:
                    frontier.append(x)
        if callers and (callers == okc or (ok_all and okc)):
            guard_closure = guard_closure or sorted(inside & set(x for x in inside if 'App::dispatch::{closure' in x))[0]
            rep.ok('E10.R1-inside-guard', inst, 'only %s' % okc[0])
        else:
            rep.violation('E10.R1-inside-guard', inst, '%s is called from %s; it must only run inside the closure given to guard_panic' % (d, callers),
                          where=facts.bodies[d].where())
    # the closure is passed to guard_panic from App::dispatch
    ad = facts.bodies.get('ykh::app::app::App::dispatch')
    if ad is None:
        rep.indet('E10: App::dispatch not found')
        return
    rep.saw(ad)
    okg = False
    for p in SymEx(ad).run():
        for e in p.calls():
            if e.name.endswith('utils::helper::guard_panic') and e.args and e.args[0][0] == 'closure' and e.args[0][1] == guard_closure:
                okg = True
    if okg:
        rep.ok('E10.R1-inside-guard', 'App::dispatch|passes the closure to guard_panic', 'guard_panic(closure)')
    else:
        rep.violation('E10.R1-inside-guard', 'App::dispatch|passes the closure to guard_panic',
                      'App::dispatch does not hand the dispatching closure to guard_panic', where=ad.where())
    # R2
    gp = [b for k, b in facts.bodies.items() if k.endswith('utils::helper::guard_panic')]
    if len(gp) != 1:
        rep.indet('E10.R2: guard_panic not found')
    else:
        g = gp[0]
        rep.saw(g)
        has_cu = any((c.generic or '').endswith('panic::catch_unwind') for c in g.calls())
        arm_err = False
        arm_ok_bad = False
        for k, b in facts.bodies.items():
            if k.startswith(g.defp + '::{closure') and b.arg_count == 2 and 'Box<dyn std::any::Any' in b.local_ty(2):
                rets = [p.ret for p in SymEx(b).run() if p.end == 'return']
                if rets and all(_is_err(r) for r in rets):
                    arm_err = True
                elif rets and any(r is not None and r[0] == 'adt' and r[2] == 'Ok' for r in rets):
                    arm_ok_bad = True
        inst = 'guard_panic|catch_unwind + Err arm'
        # the same written as `match catch_unwind(f) { Ok(r) => r, Err(e) => Err(..) }`
        match_form = None
        if has_cu and not arm_err:
            arms = {}
            for p in SymEx(g, max_paths=2000).run():
                if p.end != 'return':
                    continue
                d = [e for e in p.branches() if re.match(r'discr\(catch_unwind\(', sk(e.term))]
                if not d:
                    continue
                v = d[-1].value
                arms.setdefault(v, set()).add('Err' if _is_err(p.ret) else ('payload' if re.match(r'catch_unwind\(.*\)\.Ok\.0$', sk(p.ret)) else 'other:' + sk(p.ret)[:60]))
            if arms:
                err_arm = arms.get(1, set()) | (arms.get('else', set()) if 0 in arms else set())
                ok_arm = arms.get(0, set()) | (arms.get('else', set()) if 1 in arms else set())
                if err_arm == {'Err'} and ok_arm <= {'payload', 'Err'} and ok_arm:
                    match_form = True
                elif err_arm and 'Err' not in err_arm and all(not x.startswith('other') or 'Ok' in x for x in err_arm):
                    match_form = False
        if has_cu and (arm_err or match_form is True):
            rep.ok('E10.R2-panic-to-err', inst, 'the unwind arm of catch_unwind returns Err(..)')
        elif not has_cu or match_form is False or arm_ok_bad:
            rep.violation('E10.R2-panic-to-err', inst, 'guard_panic no longer converts an unwinding panic into `Err` (catch_unwind: %s, Err arm: %s)' % (has_cu, arm_err),
                          where=g.where())
        else:
            rep.indet('E10.R2: guard_panic outside the recognised fragment (catch_unwind present, unwind arm not recognised)')
    # R3
    m = facts.bodies.get('ykh::main')
    if m is None:
        rep.indet('E10.R3: ykh::main not found')
    else:
        rep.saw(m)

        def is_run(term):
            term = strip(term)
            return term[0] == 'call' and term[1].endswith('app::App::run')

        def arms(body, subject):
            """per path: which arm of the subject Result it is on, whether it prints / exits"""
            out = []
            for p in SymEx(body, follow_diverge=True).run():
                cand = {0, 1}           # Result has exactly the variants Ok = 0, Err = 1
                seen_sw = False
                for e in p.branches():
                    tt = e.term
                    if tt[0] == 'discr' and subject(tt[1]):
                        seen_sw = True
                        if isinstance(e.value, int):
                            cand &= {e.value}
                        elif e.value == 'else' and e.args:
                            cand -= set(e.args)
                if seen_sw and not cand:
                    continue            # neither Ok nor Err: infeasible path
                arm = list(cand)[0] if (seen_sw and len(cand) == 1) else None
                # `run().unwrap_or_else(|e| ..)`: the closure is the Err arm; if it never returns, what follows is the Ok arm
                for e in p.calls():
                    if e.name.split('::')[-1] == 'unwrap_or_else' and 'result::Result' in e.name and len(e.args) == 2 and subject(e.args[0]) and strip(e.args[1])[0] == 'closure':
                        from symex import apply_closure
                        qs = apply_closure(e.args[1], [('err',)], follow_diverge=True) or []
                        if qs and all(q.end != 'return' for q in qs):
                            arm = 0 if arm is None else arm
                            for q in qs:
                                out.append((1, [c for c in q.calls() if c.name.endswith('io::_print')], [c for c in q.calls() if c.name.endswith('process::exit')], [], q))
                prints = [e for e in p.calls() if e.name.endswith('io::_print')]
                exits = [e for e in p.calls() if e.name.endswith('process::exit')]
                fwd = [(e, i) for e in p.calls() if e.name.startswith('ykh::') and e.name in facts.bodies
                       for i, a in enumerate(e.args) if subject(a)]
                out.append((arm, prints, exits, fwd, p))
            return out

        okp = errp = 0
        bad = []
        work = [(m, is_run)]
        seen_b = set()
        while work:
            body, subj = work.pop()
            if body.defp in seen_b:
                continue
            seen_b.add(body.defp)
            rep.saw(body)
            for arm, prints, exits, fwd, p in arms(body, subj):
                for e, i in fwd:
                    # the result is handed to a helper: analyse the helper with its parameter as the subject
                    g = facts.bodies[e.name]
                    work.append((g, (lambda idx: (lambda term: strip(term) == ('arg', idx + 1)))(i)))
                if fwd:
                    continue
                if prints:
                    if arm == 0:
                        okp += 1
                    else:
                        bad.append('stdout is written on a path that is not the Ok arm of App::run (%s)' % body.defp)
                if arm == 1:
                    if prints:
                        bad.append('the Err arm writes to stdout')
                    if not exits or not all(e.args and e.args[0][0] == 'const' and e.args[0][1] not in (0,) for e in exits):
                        bad.append('the Err arm does not end in process::exit(non-zero)')
                    else:
                        errp += 1
        inst = 'main|table only on Ok, Err => exit(1)'
        if bad:
            rep.violation('E10.R3-error-exit', inst, 'ykh main: %s' % '; '.join(sorted(set(bad))), where=m.where())
        elif okp == 0 or errp == 0:
            rep.indet('E10.R3: Ok / Err arms of main not recognised (%d / %d)' % (okp, errp))
        else:
            rep.ok('E10.R3-error-exit', inst, '%d Ok path(s) print, %d Err path(s) exit non-zero' % (okp, errp))
    # R4
    reach = facts.reach('ykh::app::app::App::dispatch')
    printers = sorted(k for k in reach if any((c.generic or '') in ('std::io::_print',) or (c.generic or '').endswith('io::stdio::_print') for c in facts.bodies[k].calls()))
    inst = 'App::dispatch|no stdout write reachable'
    rep.inventory['E10 bodies reachable from App::dispatch'] = len(reach)
    if printers:
        rep.violation('E10.R4-no-partial-output', inst,
                      'stdout is written by %s, reachable from App::dispatch: a later failure would leave partial output before the error' % printers[:4],
                      where=facts.bodies[printers[0]].where())
    else:
        rep.ok('E10.R4-no-partial-output', inst, '%d reachable bodies, none calls std::io::_print' % len(reach))
    rep.floor('E10 bodies reachable from App::dispatch', len(reach), 500)
    # R5
    bad = []
    n = 0
    for root_, dirs, fs in os.walk(repo):
        dirs[:] = [d for d in dirs if d not in ('target', '.git')]
        for f_ in fs:
            if f_ == 'Cargo.toml' or f_ == 'config.toml':
                n += 1
                txt = open(os.path.join(root_, f_)).read()
                if re.search(r'^\s*panic\s*=\s*["\']abort["\']', txt, re.M):
                    bad.append(os.path.relpath(os.path.join(root_, f_), repo))
    if bad:
        rep.violation('E10.R5-unwind-profile', 'manifests|panic=abort', 'panic = "abort" in %s: catch_unwind cannot turn failures into error results' % bad, where=bad[0])
    else:
        rep.ok('E10.R5-unwind-profile', 'manifests|panic=abort', '%d manifests, none sets panic = "abort"' % n)
    # R7: the mirror flag reaches every successful way of loading the input
    for fn in ('load_link', 'load_sinv_knot'):
        bs = [b for k, b in facts.bodies.items() if k == 'ykh::app::utils::helper::' + fn]
        if len(bs) != 1:
            rep.indet('E10.R7: helper::%s not found' % fn)
            continue
        b = bs[0]
        rep.saw(b)
        nok = 0
        bad = None
        for p in SymEx(b, max_paths=20000).run():
            if p.end != 'return' or not (p.ret is not None and p.ret[0] == 'adt' and p.ret[2] == 'Ok'):
                continue
            nok += 1
            if not any(e.term == ('arg', 2) for e in p.branches()):
                bad = bad or [sk(e.term)[:50] for e in p.branches()][:4]
        inst = 'helper::%s|every Ok path consults `mirror`' % fn
        if nok == 0:
            rep.indet('E10.R7: no Ok return path recognised in %s' % fn)
        elif bad is not None:
            rep.violation('E10.R7-flag-reaches-all-inputs', inst,
                          '%s returns Ok on a path (%s) that never looks at the `mirror` flag: for that kind of input `-m` is silently ignored and the table of the un-mirrored link is printed' % (fn, bad),
                          where=b.where())
        else:
            rep.ok('E10.R7-flag-reaches-all-inputs', inst, '%d Ok path(s), each branches on the flag' % nok)
    # R6
    for cmd in ('kh', 'ckh'):
        check_dispatch_table(facts, rep, cmd, int_ty)


def _is_err(r):
    return r is not None and r[0] == 'adt' and r[2] == 'Err'


def check_name_grammar(facts, rep, repo='/repo'):
    """R8 (C20, "for every link name"): Link::load / Braid::load treat their argument as a table name iff
    Link::is_valid_name accepts it (otherwise as a file path). The accepted language - the disjunction of the regular
    expression literals handed to Regex::new inside is_valid_name, read from the MIR constants - must contain every name
    that the shipped tables define (the file stems of resources/links and resources/braid), or `ykh kh <name>` answers
    "invalid input link" for a link the library ships. Names are matched with Python's `re` (the literals use the common
    subset of both syntaxes; anything else makes the rule INDETERMINATE)."""
    import glob
    b = facts.bodies.get('yui_link::link::link::Link::is_valid_name')
    if b is None:
        rep.indet('E10.R8: Link::is_valid_name not found')
        return
    rep.saw(b)
    pats = []
    disj = None
    for p in SymEx(b, max_paths=200).run():
        if p.end != 'return':
            continue
        got = [strip(e.args[0]) for e in p.calls() if e.name.endswith('Regex::new') and e.args]
        lits = [g[1] for g in got if g[0] == 'const' and isinstance(g[1], str)]
        if len(lits) != len(got):
            rep.indet('E10.R8: a regular expression of is_valid_name is not a literal')
            return
        for l in lits:
            l = l[1:-1] if l.startswith('"') and l.endswith('"') else l
            if l not in pats:
                pats.append(l)
    if not pats:
        rep.indet('E10.R8: no Regex::new literal in is_valid_name')
        return
    # the result must be the disjunction of the matches (is_match(a) || is_match(b) ...)
    n_match = sum(1 for c in b.calls() if (c.callee or c.generic or '').endswith('is_match'))
    if n_match != len(pats):
        rep.indet('E10.R8: %d patterns but %d is_match calls' % (len(pats), n_match))
        return
    try:
        if any(re.search(r'\\[pPdDwWsSbB]|\(\?', x) for x in pats):
            raise re.error('syntax outside the common subset')
        rx = [re.compile(x) for x in pats]
    except re.error as e:
        rep.indet('E10.R8: pattern outside the common regex subset: %s' % e)
        return
    total = 0
    bad = []
    for sub in ('links', 'braid'):
        files = glob.glob(os.path.join(repo, 'yui-link', 'resources', sub, '*.json'))
        for fp in files:
            name = os.path.basename(fp)[:-5]
            total += 1
            if not any(r.match(name) for r in rx):
                bad.append('%s/%s' % (sub, name))
    rep.floor('E10.R8 shipped table names', total, 2500)
    inst = 'Link::is_valid_name|accepts every name of the shipped link / braid tables'
    if bad:
        rep.violation('E10.R8-name-grammar', inst,
                      'Link::is_valid_name (patterns %s) rejects %d of the %d shipped table names, e.g. %s: `ykh kh %s` reports "invalid input link" although resources/%s.json exists' %
                      (pats, len(bad), total, ', '.join(sorted(bad)[:4]), sorted(bad)[0].split('/')[1], sorted(bad)[0]), where=b.where())
    else:
        rep.ok('E10.R8-name-grammar', inst, '%d names, patterns %s' % (total, pats))


def check_pair_order(facts, rep):
    """R9 (C20, "the table lists the groups for the parameters given"): `-c h,t` is read as (h, t) - parse_pair returns
    (the text before the comma, the text after it), whichever way it cuts the string. The two pieces are classified from
    the call that produced them: regex captures of `(..),(..)` (group 1 / 2), split_once (.0 / .1), and the k-th `next()`
    of split / splitn (k-th piece from the left) or rsplit / rsplitn (k-th piece from the *right*). A swapped pair is
    still a valid parameter pair: nothing fails, the table is the one of (t, h)."""
    from symex import SymEx, strip, show
    b = facts.bodies.get('ykh::app::utils::helper::parse_pair')
    if b is None:
        rep.indet('E10.R9: helper::parse_pair not found')
        return
    rep.saw(b)
    inst = 'parse_pair|"a,b" is returned as (a, b)'
    seen = []
    unknown = []
    for p in SymEx(b, havoc_loops=True, max_paths=5000).run():
        r = p.ret
        if p.end != 'return' or r is None:
            continue
        s = show(r, -1000)
        if not s.startswith('Result::Ok{'):
            continue
        tup = None
        for y in __import__('symex').subterms(r):
            if isinstance(y, tuple) and y and y[0] == 'tuple' and len(y[1]) == 2:
                tup = y
                break
            # a.ok().zip(b.ok()): the pair (a, b) when both parsed
            if isinstance(y, tuple) and y and y[0] == 'call' and y[1].split('::')[-1] == 'zip' and 'Option' in y[1] and len(y[2]) == 2:
                ab = []
                for z in y[2]:
                    z = strip(z)
                    if z[0] == 'call' and z[1].split('::')[-1] == 'ok' and len(z[2]) == 1:
                        ab.append(z[2][0])
                if len(ab) == 2:
                    tup = ('tuple', tuple(ab))
                    break
        if tup is None:
            unknown.append(s[:80])
            continue
        nexts = [e for e in p.calls() if e.name.split('::')[-1] == 'next']

        def piece(t):
            """'before' / 'after' / 'whole' / None"""
            t = strip(t)
            if t[0] == 'field' and t[2] == 'Ok.0':
                t = strip(t[1])
            if not (t[0] == 'call' and t[1].split('::')[-1] in ('from_str', 'parse') and t[2]):
                if t[0] == 'call' and t[1].split('::')[-1] in ('zero', 'one', 'default') and not t[2]:
                    return 'const'
                return None
            x = strip(t[2][0])
            if x == ('arg', 1) or (x[0] == 'call' and x[1].split('::')[-1] in ('deref', 'as_str', 'trim') and strip(x[2][0]) == ('arg', 1)):
                return 'whole'
            if x[0] == 'call' and x[1].split('::')[-1] == 'index' and len(x[2]) == 2 and x[2][1][0] == 'const':
                src = show(x[2][0], -1000)
                m = re.search(r'captures\(&?unwrap\(new\("\^?\((?:[^()]|\\.)+\),\((?:[^()]|\\.)+\)\$?"\)', re.sub(r'#(?:i\d+:)?\d+\.\d+', '', src))
                if m:
                    return {1: 'before', 2: 'after'}.get(x[2][1][1])
                return None
            if x[0] == 'call' and x[1].split('::')[-1] == 'as_str' and x[2]:
                x = strip(x[2][0])
            # s[..p] / s[p + 1..]: slices of the input around one position
            if x[0] == 'call' and x[1].split('::')[-1] == 'index' and len(x[2]) == 2 and strip(x[2][1])[0] == 'adt':
                base, rg = strip(x[2][0]), strip(x[2][1])
                while base[0] == 'call' and base[1].split('::')[-1] in ('deref', 'as_str') and len(base[2]) == 1:
                    base = strip(base[2][0])
                flds = dict(zip(rg[3], rg[4]))
                if base == ('arg', 1) and rg[1].endswith('RangeTo') and set(flds) == {'end'}:
                    cut['to'] = sk(flds['end'])
                    return 'before'
                if base == ('arg', 1) and rg[1].endswith('RangeFrom') and set(flds) == {'start'}:
                    cut['from'] = sk(flds['start'])
                    return 'after'
                return None
            if x[0] == 'field' and x[2] in ('Some.0.0', 'Some.0.1') and strip(x[1])[0] == 'call' and strip(x[1])[1].split('::')[-1] in ('split_once', 'rsplit_once'):
                return 'before' if x[2].endswith('.0') else 'after'
            if x[0] == 'field' and x[2] in ('0', '1') and strip(x[1])[0] == 'field' and strip(x[1])[2] == 'Some.0':
                c = strip(strip(x[1])[1])
                if c[0] == 'call' and c[1].split('::')[-1] in ('split_once', 'rsplit_once'):
                    return 'before' if x[2] == '0' else 'after'
            if x[0] == 'field' and x[2] == 'Some.0' and strip(x[1])[0] == 'call' and strip(x[1])[1].split('::')[-1] == 'next':
                site = strip(x[1])[3] if len(strip(x[1])) > 3 else None
                ev = [e for e in nexts if e.site == site]
                if not ev or not ev[0].pre:
                    return None
                k = 0
                v = ev[0].pre[0]
                while v[0] == 'post':
                    k += 1
                    v = v[2]
                v = strip(v)
                if v[0] != 'call' or k > 1:
                    return None
                how = v[1].split('::')[-1]
                sep = show(v[2][-1], -1000) if v[2] else ''
                if sep not in ('44', "','", '","'):
                    return None
                if how in ('split', 'splitn'):
                    return ('before', 'after')[k]
                if how in ('rsplit', 'rsplitn'):
                    return ('after', 'before')[k]
                return None
            return None
        cut = {}
        pa, pb = piece(tup[1][0]), piece(tup[1][1])
        if cut and not (set(cut) == {'to', 'from'} and cut['from'] == 'AddWithOverflow(%s, 1).0' % cut['to']):
            pa = pb = None      # the two slices are not cut at one position p / p + 1
        if (pa, pb) == ('whole', 'const'):
            continue
        seen.append((pa, pb, s[:120]))
    good = [x for x in seen if x[:2] == ('before', 'after')]
    bad = [x for x in seen if x[:2] == ('after', 'before')]
    if bad:
        rep.violation('E10.R9-pair-order', inst,
                      'parse_pair returns (text after the comma, text before it): `-c h,t` is taken as (t, h) - a valid pair, so the command runs and prints the table of other parameters (and `-c 0,T -r`, which must be rejected, is accepted as t = 0)',
                      where=b.where())
    elif good and len(good) == len(seen) and not unknown:
        rep.ok('E10.R9-pair-order', inst, '(before, after) on %d returning path(s)' % len(good))
    else:
        rep.indet('E10.R9: parse_pair builds its pair outside the recognised fragment: %s %s' % ([x[:2] for x in seen], unknown[:2]))


def check_bigraded_decision(facts, rep):
    """R10 (C20, "lists exactly the groups the library computes .. in the right (i, j) cells"): `ykh kh` prints the
    one-row sequence instead of the (i, j) table only when it has *established* that (h, t) != (0, 0) for the parsed ring
    elements: every path of kh::App::run that reaches display_seq has taken an `is_zero()` test of h or of t (the parsed
    pair) with the answer false. A decision read from the spelling of `-c` alone treats `-t F3 -c 3` or `-c 0,0` - zero in
    the ring, not spelled "0" - as a deformation and merges the groups of different j into one row."""
    from symex import SymEx, show
    ks = [k for k in facts.bodies if k.endswith('cmd::kh::App::<R>::run')]
    if len(ks) != 1:
        rep.indet('E10.R10: kh::App::run not found')
        return
    b = facts.bodies[ks[0]]
    rep.saw(b)
    inst = 'kh::App::run|the singly graded sequence only after (h, t) != (0, 0) was established on the parsed values'
    try:
        paths = SymEx(b, havoc_loops=True, max_paths=20000).run()
    except Exception as ex:
        rep.indet('E10.R10: %s' % str(ex)[:80])
        return
    n_seq = n_ok = 0
    bad = None
    unknown = None
    for p in paths:
        if not any(e.name.split('::')[-1] == 'display_seq' for e in p.calls()):
            continue
        n_seq += 1
        zs = [(sk(c.term), c.value) for c in p.branches() if re.match(r'^is_zero\(', sk(c.term)) and 'parse_pair(' in sk(c.term)]
        if any(v == 0 for _, v in zs):
            n_ok += 1
            continue
        strs = [sk(c.term) for c in p.branches() if re.match(r'^(contains|eq|ne)\(', sk(c.term)) and 'c_value' in sk(c.term)]
        if strs:
            bad = strs[0]
        else:
            unknown = [sk(c.term)[:60] for c in p.branches()][-3:]
    if n_seq == 0:
        rep.indet('E10.R10: no path of kh::App::run prints the singly graded sequence')
    elif bad and not unknown:
        rep.violation('E10.R10-bigraded-decision', inst,
                      'kh::App::run prints the one-row sequence on a path that has only looked at the text of `-c` (%s) and not at the parsed h, t: a value that is zero in the ring without being spelled "0" (`-t F3 -c 3`, `-c 0,0`) gets the singly graded row although the library computes the bigraded groups' % bad[:100],
                      where=b.where())
    elif unknown:
        rep.indet('E10.R10: a path of kh::App::run reaches display_seq under conditions outside the recognised fragment: %s' % unknown)
    else:
        rep.ok('E10.R10-bigraded-decision', inst, '%d path(s) to display_seq, each after is_zero(h) or is_zero(t) answered false' % n_ok)
