"""E1 (Ratio) - `Ratio` stays in lowest terms with a normalised denominator on every path.

Path-sensitive (symex.py; Ratio code has no loops). `x op= y` on a field is modelled as
x := op(x, y). With a,b = self.numer,self.denom and c,d = rhs.numer,rhs.denom at entry:

  R0  `reduce` itself: on every return path the pair is (0, 1) on the zero path, or - after the
      denominator's normalising unit has been multiplied in (or tested to be one) - either divided
      by gcd(numer, denom) or left alone under a test that makes the division vacuous
      (denom is one / numer is a unit / the gcd is one).
  R1  every other body that receives `&mut Ratio` returns, on every path, with the fields
      untouched, or after a whole-value event (call of `reduce`, whole assignment, any other
      clean-on-return method), or in one of two reviewed shortcut shapes:
        canonical copy        self is zero on the path and (numer, denom) = (0 +/- c, d)
        cross-cancelled prod  numer = a*c/(k1*k2), denom = b*d/(k1*k2) with k1 = gcd(a,d),
                              k2 = gcd(b,c); a factor may be dropped only under is_int(rhs)
                              (d = 1, k1 = 1) resp. is_int(self) (b = 1, k2 = 1)
      (textbook: such a product of reduced fractions is reduced; the rule checks the shape).
  R2  every returned `Ratio` built in the module comes from `reduce` (post-state), another
      clean function, or the raw constructor at a reviewed site (`From<T>`: denominator is one()).
  R3  fields private; struct literal only in `new_raw` and the derived `Clone`.
"""
import re
from symex import paths_of, show, strip, TooManyPaths, private_helper
from core import op_place

ADT = 'yui::types::ratio::Ratio'
MOD = 'yui::types::ratio'
REDUCE = 'yui::types::ratio::Ratio::<T>::reduce'
NEW_RAW = 'yui::types::ratio::Ratio::<T>::new_raw'


def sk(t):
    return re.sub(r'#(?:i\d+:)?\d+\.\d+', '', show(t))


def is_call(t, *suffixes):
    return t[0] == 'call' and any(t[1] == s or t[1].endswith('::' + s) for s in suffixes)


def cond(path, fname, arg_pred, value):
    """path has a branch on fname(x) (through refs) with arg_pred(strip(x)) true and the given truth value"""
    for e in path.branches():
        c = e.term
        if is_call(c, fname) and len(c[2]) >= 1 and arg_pred(strip(c[2][0])):
            truth = (e.value == 'else') if e.value in ('else', 0) else None
            if truth is value:
                return True
    return False


def A(i, f):
    return ('field', ('deref', ('arg', i)), f)


# ---- monomials over atoms
def mono(t):
    """term -> dict atom -> exponent, or None if not a product/quotient"""
    t = strip(t)
    if t[0] == 'call' and len(t[2]) == 2 and (t[1].endswith('ops::Mul::mul') or t[1].endswith('ops::Div::div')):
        x, y = mono(t[2][0]), mono(t[2][1])
        if x is None or y is None:
            return None
        sgn = 1 if t[1].endswith('mul') else -1
        out = dict(x)
        for k, v in y.items():
            out[k] = out.get(k, 0) + sgn * v
            if out[k] == 0:
                del out[k]
        return out
    if t[0] == 'call' and t[1].endswith('EucRing::gcd') and len(t[2]) == 2:
        return {('gcd', frozenset([strip(t[2][0]), strip(t[2][1])])): 1}
    if t[0] == 'field' or t[0] == 'arg':
        return {t: 1}
    return None


def check_reduce(facts, rep):
    b = facts.bodies.get(REDUCE)
    if b is None:
        rep.indet('E1 Ratio: normaliser %s not found' % REDUCE)
        return
    rep.saw(b)
    n0, d0 = A(1, 'numer'), A(1, 'denom')
    root = ('ptr', ('arg', 1))
    # private helpers of the module are executed in place (a refactoring may split reduce into phases)
    rets = [p for p in paths_of(b, inline=private_helper(exclude=('reduce',))) if p.end == 'return']
    if not rets:
        rep.indet('E1 Ratio: reduce has no return path')
        return
    for p in rets:
        N, Dn = p.state.read(root, ('numer',)), p.state.read(root, ('denom',))
        inst = '%s|R0 returns (%s, %s)' % (REDUCE, sk(N), sk(Dn))
        ok = None
        if cond(p, 'is_zero', lambda x: x == n0, True):
            if N == n0 and ((Dn == d0 and cond(p, 'is_one', lambda x: x == d0, True)) or
                            (Dn[0] == 'post' and any(c.name.endswith('One::set_one') for c in p.calls() if c.site == Dn[1]))):
                ok = 'zero path: denominator is (set to) one'
        elif cond(p, 'is_zero', lambda x: x == n0, False):
            u_is_one = cond(p, 'is_one', lambda x: is_call(x, 'normalizing_unit') and strip(x[2][0]) == d0, True)

            def scaled(x, base):
                # base * normalizing_unit(denom0)
                x = strip(x)
                if is_call(x, 'ops::Mul::mul') and strip(x[2][0]) == base:
                    u = strip(x[2][1])
                    return is_call(u, 'normalizing_unit') and strip(u[2][0]) == d0
                return False

            def primed(n_, d_):
                if u_is_one:
                    return n_ == n0 and d_ == d0
                return scaled(n_, n0) and scaled(d_, d0)

            sN, sD = strip(N), strip(Dn)
            if is_call(sN, 'ops::Div::div') and is_call(sD, 'ops::Div::div'):
                n_, g1 = strip(sN[2][0]), strip(sN[2][1])
                d_, g2 = strip(sD[2][0]), strip(sD[2][1])
                if g1 == g2 and is_call(g1, 'EucRing::gcd') and {strip(g1[2][0]), strip(g1[2][1])} == {n_, d_} and primed(n_, d_):
                    ok = 'unit-normalised, then divided by gcd(numer, denom)'
            elif primed(sN, sD):
                if cond(p, 'is_one', lambda x: x == sD, True):
                    ok = 'denominator is one: nothing to cancel'
                elif cond(p, 'is_unit', lambda x: x == sN, True):
                    ok = 'numerator is a unit: gcd is a unit'
                elif cond(p, 'is_one', lambda x: is_call(x, 'EucRing::gcd') and {strip(x[2][0]), strip(x[2][1])} == {sN, sD}, True):
                    ok = 'gcd tested to be one'
        if ok:
            rep.ok('E1.R0-reduce', inst, ok)
        else:
            conds = ['%s=%s' % (sk(e.term), e.value) for e in p.branches()]
            rep.violation('E1.R0-reduce', inst,
                          'Ratio::reduce can return (numer, denom) = (%s, %s) under [%s], which is not provably the lowest-terms '
                          'representative with normalised denominator' % (sk(N), sk(Dn), '; '.join(conds)),
                          where=b.where(), detail=['blocks %s' % p.blocks])


def classify_mut(facts, b, p, clean_fns):
    """why the &mut Ratio argument is canonical at the end of path p, else None"""
    root = ('ptr', ('arg', 1))
    a, bb_, c, d = A(1, 'numer'), A(1, 'denom'), A(2, 'numer'), A(2, 'denom')
    N, Dn = p.state.read(root, ('numer',)), p.state.read(root, ('denom',))
    W = p.state.read(root, ())
    has_field_keys = any(k[0] == root and k[1] and k[1][0] in ('numer', 'denom') for k in p.state.mem)
    if N == a and Dn == bb_:
        return 'fields untouched'
    if not has_field_keys:
        if W[0] == 'post':
            ev = [e for e in p.calls() if e.site == W[1]]
            if ev and (ev[0].name == REDUCE):
                return 'ends with reduce()'
            if ev and (ev[0].name in clean_fns or not ev[0].name.startswith('yui::')):
                return 'whole-value update by %s (clean on return / cannot touch private fields)' % ev[0].name.split('::')[-1]
            return None
        if W[0] in ('call', 'arg', 'field', 'deref'):
            return 'whole-value assignment from a Ratio value'
    # canonical copy: self is zero and (numer, denom) = (0 +/- c, d)
    if cond(p, 'is_zero', lambda x: x == ('arg', 1), True):
        sN = strip(N) if N[0] in ('ref', 'deref') else N
        if strip(Dn) == d and is_call(sN, 'ops::Add::add', 'ops::Sub::sub') and strip(sN[2][0]) == a and strip(sN[2][1]) == c:
            return 'canonical copy: 0 +/- c over d'
    # cross-cancelled product
    mN, mD = mono(N), mono(Dn)
    if mN is not None and mD is not None:
        k1 = ('gcd', frozenset([a, d]))
        k2 = ('gcd', frozenset([bb_, c]))
        unit = set()
        if cond(p, 'is_int', lambda x: x == ('arg', 2), True):
            unit |= {d, k1}
        if cond(p, 'is_int', lambda x: x == ('arg', 1), True):
            unit |= {bb_, k2}
        wantN = {a: 1, c: 1, k1: -1, k2: -1}
        wantD = {bb_: 1, d: 1, k1: -1, k2: -1}

        def drop(m):
            return {k: v for k, v in m.items() if k not in unit}
        if drop(mN) == drop(wantN) and drop(mD) == drop(wantD):
            return 'cross-cancelled product a*c/(k1*k2) over b*d/(k1*k2)' + (' (units dropped: %d)' % len(unit) if unit else '')
    return None


def run(facts, rep):
    adt = facts.adts.get(ADT)
    if adt is None:
        rep.indet('E1 Ratio: ADT not found')
        return
    for f in adt['variants'][0]['fields']:
        inst = 'Ratio.%s private' % f['name']
        if f['vis'] != 'restricted:' + MOD:
            rep.violation('E1.d-field-privacy', inst, 'Ratio.%s is visible beyond %s (%s)' % (f['name'], MOD, f['vis']),
                          where='%s:%d' % (adt['file'], adt['line']))
        else:
            rep.ok('E1.d-field-privacy', inst, f['vis'])
    check_reduce(facts, rep)
    # is_int really tests the denominator
    isint = facts.bodies.get('yui::types::ratio::Ratio::<T>::is_int')
    if isint is None:
        rep.indet('E1 Ratio: is_int not found')
    else:
        rets = [p.ret for p in paths_of(isint) if p.end == 'return']
        if rets and all(is_call(r, 'One::is_one') and strip(r[2][0]) == A(1, 'denom') for r in rets):
            rep.ok('E1.R1-shortcut-paths', 'Ratio::is_int|tests denom.is_one()', 'is_one(self.denom)')
        elif rets and all(r[0] == 'call' and r[1].split('::')[-1] in ('is_one', 'is_unit', 'is_zero', 'is_pm_one') and len(r[2]) == 1 and strip(r[2][0]) in (A(1, 'denom'), A(1, 'numer')) for r in rets):
            rep.violation('E1.R1-shortcut-paths', 'Ratio::is_int|tests denom.is_one()',
                          'Ratio::is_int no longer is `self.denom.is_one()`; the product shortcuts rely on it', where=isint.where())
        else:
            rep.indet('E1 Ratio: is_int outside the recognised fragment: %s' % [sk(r)[:60] for r in rets][:2])
    subjects = [b for b in facts.bodies.values() if (b.defp.startswith(MOD + '::') or (b.impl and b.impl.get('self_adt') == ADT))
                and b.kind != 'Closure']
    clean_fns = {b.defp for b in subjects}
    nmut = nret = 0
    # private helpers that only the normaliser calls are phases of the normaliser (checked in place by R0), not API
    rcg = facts.rev_callgraph()
    phases = set()
    changed = True
    while changed:
        changed = False
        for b in subjects:
            if b.defp in phases or b.defp == REDUCE or b.d.get('vis', 'pub') == 'pub':
                continue
            callers = set(rcg.get(b.defp, ()))
            if callers and all(c == REDUCE or c in phases for c in callers):
                phases.add(b.defp)
                changed = True
    # private helpers taking `&mut Ratio` are steps of the API functions that call them: executed in place there
    # (their own parameters carry no invariant - e.g. that (c, d) are the components of a canonical value)
    in_place = set()
    for b in subjects:
        if b.defp in phases or b.defp in (REDUCE, NEW_RAW) or b.d.get('vis', 'pub') == 'pub' or (b.impl and b.impl.get('trait')):
            continue
        if b.arg_count >= 1 and b.local_ty(1).startswith('&mut ') and b.locals[1].get('adt') == ADT and rcg.get(b.defp):
            if all(c in clean_fns for c in rcg.get(b.defp, ())):
                in_place.add(b.defp)
    clean_fns -= in_place
    inl = private_helper(exclude=('reduce', 'new_raw'), also=()) if in_place else None
    for b in sorted(subjects, key=lambda x: x.defp):
        if b.defp == REDUCE:
            continue
        if b.defp in in_place:
            rep.ok('E1.R1-shortcut-paths', '%s|private step' % b.defp, 'analysed in place in %s' % sorted(x.split('::')[-1] for x in rcg.get(b.defp, ()))[:3])
            continue
        if b.defp in phases:
            rep.ok('E1.R1-shortcut-paths', '%s|private phase of reduce()' % b.defp, 'only called from the normaliser; analysed in place (R0)')
            continue
        first_mut = b.arg_count >= 1 and b.local_ty(1).startswith('&mut ') and b.locals[1].get('adt') == ADT
        returns_ratio = b.ret_ty.startswith('types::ratio::Ratio<') or 'ratio::Ratio<' in b.ret_ty
        has_lit = any(s['rv']['k'] == 'agg' and s['rv'].get('adt') == ADT for _, _, s in b.assigns())
        if has_lit:
            inst = '%s|struct literal' % b.defp
            if b.defp == NEW_RAW or (b.impl and (b.impl.get('trait') or '').endswith('clone::Clone')):
                rep.ok('E1.R3-raw-sites', inst, 'raw constructor / derived Clone')
            else:
                rep.violation('E1.R3-raw-sites', inst, '%s builds `Ratio { .. }` directly (only new_raw may)' % b.defp, where=b.where())
        if not (first_mut or returns_ratio):
            continue
        rep.saw(b)
        try:
            calls_step = inl is not None and any((c.callee or '') in in_place for c in b.calls())
            paths = [p for p in (paths_of(b, inline=lambda cb, nm: cb.defp in in_place) if calls_step else paths_of(b)) if p.end == 'return']
        except TooManyPaths:
            rep.indet('E1 Ratio: path explosion in %s' % b.defp)
            continue
        seen = set()
        for p in paths:
            if first_mut:
                why = classify_mut(facts, b, p, clean_fns)
                root = ('ptr', ('arg', 1))
                shape = '(%s, %s)' % (sk(p.state.read(root, ('numer',))), sk(p.state.read(root, ('denom',))))
                inst = '%s|R1 %s' % (b.defp, shape)
                if (inst, why) in seen:
                    continue
                seen.add((inst, why))
                nmut += 1
                if why:
                    rep.ok('E1.R1-shortcut-paths', inst, why)
                else:
                    conds = ['%s=%s' % (sk(e.term), e.value) for e in p.branches()]
                    rep.violation('E1.R1-shortcut-paths', inst,
                                  '%s can return with self = %s under [%s]: neither untouched, nor reduced, nor one of the two '
                                  'reviewed shortcut shapes (canonical copy / cross-cancelled product)' % (b.defp, shape, '; '.join(conds)),
                                  where=b.where(), detail=['blocks %s' % p.blocks])
            if returns_ratio and p.ret is not None:
                r = p.ret
                while r[0] == 'adt' and r[1] in ('core::option::Option', 'core::result::Result', 'std::option::Option', 'std::result::Result') and r[4]:
                    r = r[4][0]
                why = None
                if r[0] == 'post':
                    ev = [e for e in p.calls() if e.site == r[1]]
                    if ev and ev[0].name == REDUCE:
                        why = 'reduce()d before return'
                    elif ev and (ev[0].name in clean_fns or not ev[0].name.startswith('yui::')):
                        why = 'last touched by clean-on-return %s' % ev[0].name.split('::')[-1]
                elif r[0] == 'call' and r[1] == NEW_RAW:
                    if len(r[2]) == 2 and is_call(strip(r[2][1]), 'One::one'):
                        why = 'new_raw(a, one()): denominator is one'
                elif r[0] == 'adt' and r[1] == ADT:
                    if b.defp == NEW_RAW:
                        why = 'the raw constructor (private)'
                    elif b.impl and (b.impl.get('trait') or '').endswith('clone::Clone'):
                        why = 'derived Clone of a canonical value'
                else:
                    why = 'value of another clean function / received value'
                inst = '%s|R2 returns %s' % (b.defp, sk(r))
                if (inst, why) in seen:
                    continue
                seen.add((inst, why))
                nret += 1
                if why:
                    rep.ok('E1.R2-returned-values', inst, why)
                else:
                    rep.violation('E1.R2-returned-values', inst,
                                  '%s returns %s without reducing it (raw constructor result must be reduced unless the denominator is one())' % (b.defp, sk(r)),
                                  where=b.where())
    rep.floor('E1 Ratio: (body, path-shape) instances for &mut Ratio', nmut, 12)
    rep.floor('E1 Ratio: returned-value instances', nret, 15)
    # raw constructor not callable from outside the module
    for b in facts.bodies.values():
        if b in subjects:
            continue
        for c_ in b.calls():
            if c_.name == NEW_RAW:
                rep.violation('E1.R3-raw-sites', '%s|calls new_raw' % b.defp, '%s calls Ratio::new_raw outside %s' % (b.defp, MOD), where=c_.where())


def check_ff(facts, rep):
    """FF<p>: the tuple constructor is applied only to rem_euclid results and the constants 0, 1"""
    FF = 'yui::types::ff::FF'
    adt = facts.adts.get(FF)
    if adt is None:
        rep.indet('FF: ADT not found')
        return
    f0 = adt['variants'][0]['fields'][0]
    if f0['vis'] != 'restricted:yui::types::ff':
        rep.violation('E1.d-field-privacy', 'FF.0 private', 'FF.0 is visible beyond yui::types::ff (%s)' % f0['vis'], where='%s:%d' % (adt['file'], adt['line']))
    else:
        rep.ok('E1.d-field-privacy', 'FF.0 private', f0['vis'])
    n = 0
    for b in sorted(facts.bodies.values(), key=lambda x: x.defp):
        lits = [(bb, j, s) for bb, j, s in b.assigns() if s['rv']['k'] == 'agg' and s['rv'].get('adt') == FF]
        calls_ctor = [c for c in b.calls() if (c.generic or '') == FF]   # tuple ctor used as a function
        if not lits and not calls_ctor:
            continue
        rep.saw(b)
        for p in paths_of(b):
            from symex import subterms
            terms = list(p.mem.values()) + ([p.ret] if p.ret else [])
            for t in terms:
                for sub in subterms(t):
                    if sub[0] == 'adt' and sub[1] == FF:
                        v = sub[4][0]
                        why = None
                        if is_call(v, 'rem_euclid'):
                            why = 'rem_euclid(a, p)'
                        elif v[0] == 'const' and v[1] in (0, 1):
                            why = 'constant %d' % v[1]
                        elif is_call(v, 'Default::default') and not v[2]:
                            why = 'derived Default (0)'
                        elif b.impl and (b.impl.get('trait') or '').endswith('clone::Clone'):
                            why = 'derived Clone'
                        inst = '%s|FF(%s)' % (b.defp, sk(v))
                        n += 1
                        if why:
                            rep.ok('E1.FF-constructor', inst, why)
                        else:
                            rep.violation('E1.FF-constructor', inst,
                                          '%s builds FF(%s): the representative is not reduced by rem_euclid' % (b.defp, sk(v)), where=b.where())
    rep.floor('FF constructor sites', n, 3)


def check_mul_cancels_first(facts, rep):
    """R5 (C14, "values near the machine limits where the result is still representable"): Ratio *= cancels before it
    multiplies. On every path of MulAssign<&Ratio>, a product written to numer / denom is final: the path makes no
    reduce() call and no division of that component after it, so the only products ever formed are the components of the
    result and `*` cannot overflow when the result is representable (the workspace builds with overflow checks: an
    intermediate overflow is a panic). Multiplying the raw numerators / denominators and reducing afterwards gives the same
    value whenever nothing overflows - which is all the unit tests exercise."""
    import re
    from symex import SymEx, show, show_lv
    fn = [b for k, b in facts.bodies.items() if k.endswith('mul_assign') and 'as std::ops::MulAssign<&types::ratio::Ratio<T>>>' in k and k.startswith('yui::<types::ratio::Ratio<T> ')]
    if len(fn) != 1:
        rep.indet('E1.R5: Ratio MulAssign<&Ratio> not found (%d)' % len(fn))
        return
    b = fn[0]
    rep.saw(b)

    def dk(t):
        return re.sub(r'#(?:i\d+:)?\d+\.\d+', '', show(t, -1000))
    n = 0
    probs = []
    for p in SymEx(b, max_paths=5000).run():
        if p.end != 'return':
            continue
        n += 1
        multiplied = set()
        for e in p.events:
            if e.kind == 'write' and e.lv:
                comp = show_lv(e.lv).split('.')[-1]
                if comp not in ('numer', 'denom'):
                    continue
                t = dk(e.term)
                if t.startswith('mul('):
                    multiplied.add(comp)
                elif t.startswith(('div(', 'rem(')) and comp in multiplied:
                    probs.append('%s is divided after it was multiplied' % comp)
            if e.kind == 'call' and e.name.split('::')[-1] in ('reduce', 'reduced', 'new') and multiplied and 'ratio' in e.name.lower():
                probs.append('reduce() runs after %s was multiplied: the raw product is an intermediate that can overflow although the result is representable' % ' and '.join(sorted(multiplied)))
    inst = 'Ratio *=|products are final (cross-cancel first)'
    if n < 4:
        rep.indet('E1.R5: Ratio *= has %d return paths' % n)
    elif probs:
        rep.violation('E1.R5-cancel-before-multiply', inst, 'Ratio::mul_assign: ' + '; '.join(sorted(set(probs))), where=b.where())
    else:
        rep.ok('E1.R5-cancel-before-multiply', inst, '%d paths: no reduce / division after a product' % n)


def check_quot_rem_pairs(facts, rep):
    """R6 (C14, "the order on rationals is the order of Q" - the comparison walks the continued fractions with floor
    divisions): every function of yui::types::ratio that returns a pair (q', r') built from x / y and x % y returns a
    *division with remainder*: q'*y + r' = x on every returning path, as a polynomial identity with x % y := x - (x / y)*y.
    Lowering the quotient to the floor without adding y to the remainder (or the other way round) keeps every type and
    every assertion quiet; the pair is then not a decomposition of x any more."""
    from symex import SymEx
    from e3_gcd import _padd, _pmul, _pshow, _Opaque
    n = 0
    P = lambda *m: {tuple(sorted(m)): 1}
    for k, b in sorted(facts.bodies.items()):
        if not (k.startswith('yui::types::ratio::') or k.startswith('yui::<types::ratio::')) or '::tests::' in k or b.arg_count != 2:
            continue
        try:
            paths = SymEx(b, max_paths=2000).run()
        except TooManyPaths:
            continue
        rets = [p for p in paths if p.end == 'return' and p.ret is not None and p.ret[0] == 'tuple' and len(p.ret[1]) == 2]
        if not rets or not any('div(arg1, arg2)' in sk(p.ret) and 'rem(arg1, arg2)' in sk(p.ret) for p in rets):
            continue
        rep.saw(b)
        inst = '%s|q*y + r = x on every returning path' % k.split('::')[-1]

        def ev(t):
            t = strip(t)
            if t == ('arg', 1):
                return P('x')
            if t == ('arg', 2):
                return P('y')
            if t[0] == 'call':
                last = t[1].split('::')[-1]
                if last in ('div', 'rem') and len(t[2]) == 2 and strip(t[2][0]) == ('arg', 1) and strip(t[2][1]) == ('arg', 2):
                    return P('Q') if last == 'div' else _padd(P('x'), _pmul(P('Q'), P('y')), -1)
                if last in ('add', 'sub') and len(t[2]) == 2:
                    return _padd(ev(t[2][0]), ev(t[2][1]), 1 if last == 'add' else -1)
                if last == 'neg' and len(t[2]) == 1:
                    return _padd({}, ev(t[2][0]), -1)
                if last == 'mul' and len(t[2]) == 2:
                    return _pmul(ev(t[2][0]), ev(t[2][1]))
                if last == 'one' and not t[2]:
                    return {(): 1}
                if last == 'zero' and not t[2]:
                    return {}
            raise _Opaque(sk(t)[:60])
        bad = []
        try:
            for p in rets:
                q_, r_ = ev(p.ret[1][0]), ev(p.ret[1][1])
                lhs = _padd(_pmul(q_, P('y')), r_)
                if lhs != P('x'):
                    bad.append('(q, r) = (%s, %s) gives q*y + r = %s' % (_pshow(q_), _pshow(r_), _pshow(lhs)))
        except _Opaque as ex:
            rep.indet('E1.R6: %s returns a quotient / remainder pair outside the recognised fragment: %s' % (k, ex))
            continue
        n += 1
        if bad:
            rep.violation('E1.R6-quot-rem-pair', inst, '%s: %s, not x (Q = x / y truncated, x %% y = x - Q*y): the pair is no division with remainder, the continued-fraction comparison of two rationals is decided on a wrong remainder' % (k, '; '.join(sorted(set(bad)))), where=b.where())
        else:
            rep.ok('E1.R6-quot-rem-pair', inst, '%d returning path(s)' % len(rets))
    rep.floor('E1.R6 quotient / remainder helpers of Ratio', n, 1)
