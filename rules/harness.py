"""Check harness: fact extraction (cached by tree hash), outcome bookkeeping, evidence, replay."""
import json, os, sys, time, hashlib, subprocess, fcntl, shutil, glob

VERIF = os.path.dirname(os.path.dirname(os.path.abspath(__file__)))
REPO = os.environ.get('YUI_REPO', '/repo')
CACHE = os.path.join(VERIF, '.cache')
DRIVER = os.path.join(VERIF, 'driver', 'target', 'debug', 'yui-facts-driver')
TABLEX = os.path.join(VERIF, 'tablex', 'target', 'debug', 'tablex')

MEMBERS = ['yui', 'yui-matrix', 'yui-homology', 'yui-link', 'yui-kh', 'ykh']
MEMBER_CRATES = ['yui', 'yui_matrix', 'yui_homology', 'yui_link', 'yui_kh', 'ykh']

# feature configurations of the workspace that are analysed
CONFIGS = {
    'default': ['--workspace'],
    'old': ['-p', 'yui-kh', '--features', 'old'],
    'ykh-all': ['-p', 'ykh', '--features', 'all'],
    'ykh-bigint': ['-p', 'ykh', '--features', 'bigint'],
    'ykh-i128': ['-p', 'ykh', '--features', 'i128'],
}


def sh(cmd, **kw):
    return subprocess.run(cmd, stdout=subprocess.PIPE, stderr=subprocess.STDOUT, text=True, **kw)


def nightly_sysroot():
    r = sh(['rustc', '+nightly', '--print', 'sysroot'])
    return r.stdout.strip().split('\n')[-1]


def tree_hash(repo=REPO):
    h = hashlib.sha256()
    files = []
    for root, dirs, fs in os.walk(repo):
        dirs[:] = sorted(d for d in dirs if d not in ('target', '.git'))
        for f in sorted(fs):
            if f.endswith('.rs') or f in ('Cargo.toml', 'Cargo.lock') or f.endswith('.toml'):
                files.append(os.path.join(root, f))
    for p in files:
        h.update(os.path.relpath(p, repo).encode())
        h.update(b'\0')
        with open(p, 'rb') as fh:
            h.update(fh.read())
        h.update(b'\0')
    # the driver itself is part of the key
    try:
        with open(os.path.join(VERIF, 'driver', 'src', 'main.rs'), 'rb') as fh:
            h.update(fh.read())
    except OSError:
        pass
    return h.hexdigest()[:20]


def ensure_tools():
    if not os.path.exists(DRIVER):
        r = sh(['cargo', '+nightly', 'build', '--offline'], cwd=os.path.join(VERIF, 'driver'))
        if r.returncode != 0 or not os.path.exists(DRIVER):
            raise RuntimeError('cannot build fact driver:\n' + r.stdout[-3000:])
    if not os.path.exists(TABLEX) and os.path.isdir(os.path.join(VERIF, 'tablex')):
        r = sh(['cargo', 'build', '--offline'], cwd=os.path.join(VERIF, 'tablex'))
        if r.returncode != 0 or not os.path.exists(TABLEX):
            raise RuntimeError('cannot build tablex:\n' + r.stdout[-3000:])


def extract(config='default', repo=REPO, fresh=False, out_dir=None, target=None):
    """Run the driver over the workspace; returns the directory holding the fact files.

    Cached under .cache/facts/<tree-hash>/<config>; the hash is of the CURRENT working tree, so
    any edit to /repo re-extracts. Member fingerprints are removed first so cargo can never
    skip the wrapper; the fact files are asserted to exist afterwards.
    """
    ensure_tools()
    os.makedirs(CACHE, exist_ok=True)
    th = tree_hash(repo)
    d = out_dir or os.path.join(CACHE, 'facts', th, config)
    marker = os.path.join(d, '.complete')
    lock = open(os.path.join(CACHE, 'extract.lock'), 'w')
    fcntl.flock(lock, fcntl.LOCK_EX)
    try:
        if os.path.exists(marker) and not fresh and not os.environ.get('VERIF_NO_CACHE'):
            return d, th, True
        # readers (load_locked) hold this lock shared while they parse the fact files
        rw = open(os.path.join(CACHE, 'facts.rw.lock'), 'w')
        fcntl.flock(rw, fcntl.LOCK_EX)
        try:
            if os.path.isdir(d):
                shutil.rmtree(d)
            os.makedirs(d)
        finally:
            fcntl.flock(rw, fcntl.LOCK_UN)
            rw.close()
        tgt = target or os.path.join(CACHE, 'target')
        for fp in glob.glob(os.path.join(tgt, 'debug', '.fingerprint', '*')):
            base = os.path.basename(fp)
            if any(base.startswith(m + '-') for m in MEMBERS + ['yui_verif_fixtures', 'yui-verif-fixtures']):
                shutil.rmtree(fp, ignore_errors=True)
        env = dict(os.environ)
        sysroot = nightly_sysroot()
        env['LD_LIBRARY_PATH'] = sysroot + '/lib' + (':' + env['LD_LIBRARY_PATH'] if env.get('LD_LIBRARY_PATH') else '')
        env['RUSTFLAGS'] = '-Zmir-opt-level=0 -Awarnings'
        env['RUSTC_WORKSPACE_WRAPPER'] = DRIVER
        env['YUI_FACTS_DIR'] = d
        env['CARGO_TARGET_DIR'] = tgt
        env['CARGO_NET_OFFLINE'] = 'true'
        env.pop('RUSTC_WRAPPER', None)
        cmd = ['cargo', '+nightly', 'check', '--offline'] + CONFIGS[config]
        r = sh(cmd, cwd=repo, env=env)
        if r.returncode != 0:
            raise BuildFailed('cargo check failed for config %s:\n%s' % (config, r.stdout[-4000:]))
        want = MEMBER_CRATES if config == 'default' else []
        if config == 'old':
            want = ['yui_kh']
        if config.startswith('ykh-'):
            want = ['ykh']
        for c in want:
            if not os.path.exists(os.path.join(d, c + '.json')):
                raise BuildFailed('fact file for %s missing after extraction (wrapper skipped?)' % c)
        open(marker, 'w').write(th)
        # keep the cache small: drop fact dirs of older trees
        base = os.path.join(CACHE, 'facts')
        olds = sorted((os.path.getmtime(os.path.join(base, x)), x) for x in os.listdir(base) if x != th)
        for _, x in olds[:-12] if len(olds) > 12 else []:
            shutil.rmtree(os.path.join(base, x), ignore_errors=True)
        return d, th, False
    finally:
        fcntl.flock(lock, fcntl.LOCK_UN)
        lock.close()


class BuildFailed(Exception):
    pass


def load_locked(loader, config='default', repo=REPO, fresh=False):
    """extract (or reuse) and parse the fact files; safe against a concurrent check that re-extracts the same tree"""
    import time
    last = None
    for attempt in range(6):
        d, th, cached = extract(config, repo=repo, fresh=fresh and attempt == 0)
        rw = open(os.path.join(CACHE, 'facts.rw.lock'), 'w')
        fcntl.flock(rw, fcntl.LOCK_SH)
        try:
            if os.path.exists(os.path.join(d, '.complete')):
                try:
                    return loader(d), th, cached
                except (FileNotFoundError, ValueError) as e:      # directory replaced under us / half-written file
                    last = e
        finally:
            fcntl.flock(rw, fcntl.LOCK_UN)
            rw.close()
        time.sleep(1 + attempt)
    raise BuildFailed('fact directory kept changing while loading: %s' % last)


# ------------------------------------------------------------------ outcomes

class Report:
    """collects obligations / violations / indeterminates for one property run"""

    def __init__(self, pid, tier):
        self.pid = pid
        self.tier = tier
        self.obligations = 0
        self.discharged = 0
        self.violations = []      # dict(key, rule, what, where, detail)
        self.indeterminate = []   # reasons
        self.inventory = {}       # name -> measured count / list
        self.samples = []
        self.rules = []           # rule ids that ran
        self.notes = []
        self.functions = set()
        self.callsites = 0
        self.controls = []        # positive controls (fixture) results

    def rule(self, rid, text):
        self.rules.append({'rule': rid, 'text': text})

    def ok(self, rule, subject, how=None, sample=False):
        self.obligations += 1
        self.discharged += 1
        if sample or len([s for s in self.samples if s.get('rule') == rule]) < 2:
            self.samples.append({'rule': rule, 'subject': subject, 'discharged_by': how})

    def violation(self, rule, key, what, where=None, detail=None):
        self.obligations += 1
        self.violations.append({'rule': rule, 'key': '%s|%s' % (rule, key), 'what': what,
                                'where': where, 'detail': detail})

    def indet(self, reason):
        self.indeterminate.append(reason)

    def floor(self, name, count, floor):
        """fail closed when a rule matches fewer subjects than were confirmed by hand"""
        self.inventory[name] = count
        if count < floor:
            self.indet('%s: %d instances found, floor confirmed by reading is %d' % (name, count, floor))
            return False
        return True

    def saw(self, body):
        self.functions.add(body.defp if hasattr(body, 'defp') else body)


def load_known():
    p = os.path.join(VERIF, 'known_findings.json')
    if not os.path.exists(p):
        return []
    return json.load(open(p))['findings']


def finish(rep, t0, level, explanation, trusted, checker_cmd, seed):
    """apply known findings, write evidence + replay files, print verdict, return exit code"""
    known = [k for k in load_known() if k.get('property') == rep.pid and k.get('status') == 'known']
    known_keys = {k['key']: k for k in known}
    new = []
    matched = []
    for v in rep.violations:
        if v['key'] in known_keys:
            matched.append(v)
        else:
            new.append(v)
    os.makedirs(os.path.join(VERIF, 'replay'), exist_ok=True)
    os.makedirs(os.path.join(VERIF, 'evidence'), exist_ok=True)
    lines = []
    for v in matched:
        lines.append('KNOWN-FINDING: property=%s %s' % (rep.pid, known_keys[v['key']]['what']))
    replay_paths = []
    for i, v in enumerate(new):
        h = hashlib.sha1(v['key'].encode()).hexdigest()[:10]
        rp = os.path.join(VERIF, 'replay', '%s-%s.json' % (rep.pid, h))
        json.dump({'property': rep.pid, **v}, open(rp, 'w'), indent=1)
        replay_paths.append(rp)
        print('  violation: [%s] %s' % (v['rule'], v['what']))
        if v.get('where'):
            print('    at %s' % v['where'])
        if v.get('detail'):
            for dl in (v['detail'] if isinstance(v['detail'], list) else [v['detail']])[:12]:
                print('    %s' % (dl,))
        lines.append('VIOLATION property=%s replay=%s' % (rep.pid, rp))
    wall = time.time() - t0
    indet = rep.indeterminate
    coverage = {
        'obligations': rep.obligations,
        'discharged': rep.discharged,
        'functions_analysed': len(rep.functions),
        'call_sites_examined': rep.callsites,
        'rules': rep.rules,
        'inventory': rep.inventory,
        'samples': rep.samples[:40] or [{'note': 'no obligation instantiated'}],
        'explanation': explanation,
        'checker_cmd': checker_cmd,
        'trusted_base': trusted,
        'positive_controls': rep.controls,
        'known_findings_matched': [v['key'] for v in matched],
        'indeterminate': indet,
        'notes': rep.notes,
    }
    ev = {
        'property_id': rep.pid,
        'tier': rep.tier,
        'seed': seed,
        'level': level,
        'coverage': coverage,
        'assumptions': trusted,
        'wall_s': round(wall, 3),
        'violations': len(new),
    }
    evdir = os.path.join(CACHE, 'scratch-evidence') if (os.environ.get('VERIF_SCRATCH') or REPO != '/repo') else os.path.join(VERIF, 'evidence')
    os.makedirs(evdir, exist_ok=True)
    json.dump(ev, open(os.path.join(evdir, rep.pid + '.json'), 'w'), indent=1)
    for l in lines:
        print(l)
    if new:
        print('%s: %d violation(s), %d/%d obligations discharged' % (rep.pid, len(new), rep.discharged, rep.obligations))
        return 1
    if indet:
        for r in indet:
            print('INDETERMINATE property=%s reason=%s' % (rep.pid, r))
        return 3
    print('PASS %s: %d/%d obligations discharged over %d functions (%s tier, %.1fs)' % (
        rep.pid, rep.discharged, rep.obligations, len(rep.functions), rep.tier, wall))
    return 0
