"""E16 - the shortcut branches of polynomial multiplication (C16 anchor: "special cases of polynomial *=").

PolyBase::mul_assign skips the general product when an operand is one / a constant. Each shortcut is valid only if
its guard really says "every term is the constant monomial":
  S1  PolyBase::is_const is a universal test over ALL terms: Iterator::all over self.iter() whose closure is
      is_one() of the term's monomial (a test of one distinguished term, e.g. the leading one, is weaker: in Laurent
      rings 1 + x^-1 has leading monomial 1);
  S2  One::is_one for PolyBase = is_const() && const_term().is_one();
  S3  the branches of mul_assign pair guard and action: rhs.is_one -> untouched; rhs.is_const -> self *= rhs.const_term();
      self.is_const -> self = rhs * self.const_term(); otherwise the Lc product of the term maps.
"""
import re
from symex import SymEx, show, strip

P = 'yui::types::poly::poly::PolyBase::<X, R>::'


def sk(t):
    return re.sub(r'#(?:i\d+:)?\d+\.\d+', '', show(t))


def run(facts, rep):
    b = facts.bodies.get(P + 'is_const')
    inst = 'PolyBase::is_const|all terms have the constant monomial'
    if b is None:
        rep.indet('E16: PolyBase::is_const not found')
    else:
        rep.saw(b)
        ok = False
        shape = None
        for p in SymEx(b).run():
            r = p.ret
            if p.end != 'return':
                continue
            shape = sk(r)
            ev = [e for e in p.calls() if e.name.endswith('Iterator::all') and r[0] == 'call' and r[3] == e.site]
            if ev and len(ev[0].args) == 2 and ev[0].args[1][0] == 'closure':
                it = sk(ev[0].pre[0])
                cb = facts.bodies.get(ev[0].args[1][1])
                clo_ok = False
                if cb is not None:
                    for q in SymEx(cb).run():
                        qr = q.ret
                        if q.end == 'return' and qr is not None and qr[0] == 'call' and qr[1].split('::')[-1] == 'is_one' and sk(qr[2][0]).endswith('.0'):
                            clo_ok = True
                ok = clo_ok and ('iter(' in it and 'arg1' in it) and 'lead' not in it and 'max' not in it and 'take' not in it and 'next' not in it
        if not ok:
            # the same universal test as a loop: an iteration whose monomial is not one answers false, exhaustion answers true
            hp = SymEx(b, havoc_loops=True).run()
            inl, aft, src_ok = [], [], False
            for p in hp:
                for (fid, bb_, l), v in p.state.loop_entry.items():
                    if fid == 0 and re.match(r'into_iter\(iter\((deref\()?&?\*?arg1(\.data)?\)*\)$', sk(v).replace('&', '').replace('*', '')):
                        src_ok = True
                if p.end != 'return':
                    continue
                nx = [e.value for e in p.branches() if sk(e.term).startswith('discr(next(')]
                one = [(sk(e.term), e.value) for e in p.branches() if re.match(r'is_one\(&?\*?next\(.*\)\.Some\.0\.0\)$', sk(e.term))]
                if nx and nx[-1] == 1:
                    inl.append((sk(p.ret), one[-1][1] if one else None))
                elif nx:
                    aft.append(sk(p.ret))
            if src_ok and inl and all(r == '0' and o == 0 for r, o in inl) and aft and all(r == '1' for r in aft):
                ok = True
        distinguished = shape is not None and re.search(r'is_one\(&?\*?(lead_term|lead_deg|lead_mono|max|min|next|first|last|any_term)\(', shape or '') is not None
        if ok:
            rep.ok('E16.S1-is-const-universal', inst, 'self.iter().all(|(x, _)| x.is_one())')
        elif not distinguished:
            rep.indet('E16.S1: PolyBase::is_const outside the recognised fragment: %s' % shape)
        else:
            rep.violation('E16.S1-is-const-universal', inst,
                          'PolyBase::is_const is `%s`: the constant/one shortcuts of `*=` need "every term is the constant monomial"; testing one distinguished term is weaker '
                          '(Laurent polynomials such as 1 + x^-1 have leading monomial 1)' % shape, where=b.where())
    # S2
    ones = facts.find(r'^yui::<types::poly::poly::PolyBase<X, R> as num_traits::One>::is_one$')
    inst = 'PolyBase::is_one|is_const && const_term().is_one()'
    if len(ones) != 1:
        rep.indet('E16: One::is_one for PolyBase not found')
    else:
        o = ones[0]
        rep.saw(o)
        good = set()
        for p in SymEx(o).run():
            if p.end != 'return':
                continue
            conds = [(sk(e.term), e.value) for e in p.branches()]
            r = sk(p.ret)
            if conds == [('is_const(arg1)', 0)] and r == '0':
                good.add('not const -> false')
            elif conds == [('is_const(arg1)', 'else')] and r.startswith('is_one(') and 'const_term(arg1)' in r:
                good.add('const -> const_term.is_one')
            else:
                good.add('OTHER %s %s' % (conds, r))
        if good == {'not const -> false', 'const -> const_term.is_one'}:
            rep.ok('E16.S2-is-one', inst, 'both arms as expected')
        else:
            # by value: the answer as a function of (is_const(self), const_term(self).is_one())
            from dtree import DTree, Stuck
            dt_ = DTree(facts)
            tbl = {}
            try:
                for C_ in (0, 1):
                    for O_ in (0, 1):
                        def atom(t, ev, C_=C_, O_=O_):
                            s_ = sk(t).replace('&', '').replace('*', '')
                            if s_ == 'is_const(arg1)':
                                return (C_,)
                            if t[0] == 'call' and t[1].split('::')[-1] == 'is_one' and 'const_term(arg1)' in s_:
                                return (O_,)
                            return None
                        v_, _ = dt_.decide(o.defp, {1: 'SELF'}, atom)
                        tbl[(C_, O_)] = bool(v_)
            except (Stuck, KeyError, TypeError) as ex:
                rep.indet('E16.S2: One::is_one for PolyBase outside the recognised fragment: %s' % str(ex)[:100])
                tbl = None
            if tbl is not None:
                if tbl == {(c_, o_): bool(c_ and o_) for c_ in (0, 1) for o_ in (0, 1)}:
                    rep.ok('E16.S2-is-one', inst, 'is_const && const_term().is_one() (by value)')
                else:
                    rep.violation('E16.S2-is-one', inst, 'One::is_one for PolyBase answers %s as a function of (is_const, const_term().is_one())' % tbl, where=o.where())
    # S3
    ms = facts.find(r'^yui::<types::poly::poly::PolyBase<X, R> as std::ops::MulAssign<&types::poly::poly::PolyBase<X, R>>>::mul_assign$')
    inst = 'PolyBase::mul_assign|guards paired with their shortcuts'
    if len(ms) != 1:
        rep.indet('E16: PolyBase *= &PolyBase not found')
        return
    m = ms[0]
    rep.saw(m)
    arms = set()
    for p in SymEx(m).run():
        if p.end != 'return':
            continue
        conds = tuple((sk(e.term), e.value) for e in p.branches())
        root = ('ptr', ('arg', 1))
        whole = p.state.read(root, ())
        data = p.state.read(root, ('data',))
        calls = [(e.name.split('::')[-1], tuple(sk(a) for a in e.pre)) for e in p.calls() if e.name.split('::')[-1] in ('mul_assign', 'mul')]
        if conds == (('is_one(arg2)', 'else'),):
            arms.add('one:untouched' if whole == ('deref', ('arg', 1)) and not calls else 'one:?%s' % (calls,))
        elif conds == (('is_one(arg2)', 0), ('is_const(arg2)', 'else')):
            arms.add('rhs-const:scale' if calls == [('mul_assign', ('*arg1', 'const_term(arg2)'))] else 'rhs-const:?%s' % (calls,))
        elif conds == (('is_one(arg2)', 0), ('is_const(arg2)', 0), ('is_const(arg1)', 'else')):
            arms.add('self-const:rhs*c' if calls == [('mul', ('arg2', 'const_term(arg1)'))] and whole[0] == 'call' else 'self-const:?%s' % (calls,))
        elif conds == (('is_one(arg2)', 0), ('is_const(arg2)', 0), ('is_const(arg1)', 0)):
            arms.add('general:lc-product' if calls == [('mul_assign', ('*arg1.data', '&*arg2.data'))] else 'general:?%s' % (calls,))
        else:
            arms.add('UNRECOGNISED %s' % (conds,))
    want = {'one:untouched', 'rhs-const:scale', 'self-const:rhs*c', 'general:lc-product'}
    known_calls = ("[('mul_assign', ('*arg1', 'const_term(arg2)'))]", "[('mul', ('arg2', 'const_term(arg1)'))]", "[('mul_assign', ('*arg1.data', '&*arg2.data'))]", '[]')
    if arms == want:
        rep.ok('E16.S3-mul-shortcuts', inst, ', '.join(sorted(arms)))
    elif any(a.startswith('UNRECOGNISED') for a in arms) or any('?' in a and a.split('?', 1)[1] not in known_calls for a in arms):
        rep.indet('E16.S3: PolyBase::mul_assign outside the recognised fragment: %s' % sorted(arms))
    else:
        rep.violation('E16.S3-mul-shortcuts', inst, 'PolyBase::mul_assign pairs a guard with the shortcut of another one: arms %s; expected %s' % (sorted(arms), sorted(want)), where=m.where())


def check_sub_negates(facts, rep):
    """S4 (C16, additive group of Lc / polynomials): `a -= b` adds the *negated* coefficients of b. In SubAssign<&Lc> every
    call that writes into self (or self.data) with data derived from rhs passes the coefficient through `neg` (or is a
    coefficient-level sub_assign); a whole-container copy of rhs.data, correct for +=, is not. Every polynomial type and
    every by-value / by-reference variant delegates to this one body (OPV), so the slip would make 0 - g = g everywhere."""
    import re
    from symex import SymEx, show, subterms
    fn = [b for k, b in facts.bodies.items() if k.endswith('::sub_assign') and 'types::lc::lc::Lc<X, R> as std::ops::SubAssign<&types::lc::lc::Lc<X, R>>' in k]
    if len(fn) != 1:
        rep.indet('E16.S4: Lc SubAssign<&Lc> not found (%d)' % len(fn))
        return
    b = fn[0]
    rep.saw(b)

    def dk(t):
        return re.sub(r'&mut _\d+', 'IT', re.sub(r'#(?:i\d+:)?\d+\.\d+', '', show(t, -1000)))
    n = 0
    probs = []
    from symex import apply_closure
    work = [(p, None) for p in SymEx(b, havoc_loops=True, max_paths=5000).run()]
    for p, _ in list(work):
        # rhs.iter().for_each(|(x, r)| ..): the closure body is the loop body, its parameter an element of rhs
        for e in p.calls():
            if e.name.split('::')[-1] == 'for_each' and len(e.args) == 2 and 'arg2' in dk(e.pre[0] if e.pre and e.args[0][0] == 'mref' else e.args[0]):
                for q in apply_closure(e.args[1], [('item',)], havoc_loops=True) or []:
                    work.append((q, 'item'))
    for p, item in work:
        rhs_iter = item is not None or any(e.name.endswith('into_iter') and e.args and 'arg2' in dk(e.args[0]) for e in p.calls())
        for e in p.calls():
            if not e.args:
                continue
            a0 = dk(e.args[0])
            if not (a0.startswith('IT') or '*arg1' in a0) or not (e.args[0][0] == 'mref' or a0.startswith('&mut')):
                continue
            if '*arg1' not in a0:
                continue
            rest = [dk(x) for x in e.args[1:]]
            from_rhs = [r for r in rest if 'arg2' in r or (rhs_iter and 'next(IT)' in r) or (item is not None and "('item',)" in r)]
            if not from_rhs:
                continue
            n += 1
            name = e.name.split('::')[-1]
            joined = ' '.join(rest)
            if name in ('sub_assign', 'sub') or 'neg(' in joined:
                continue
            probs.append('%s(%s) moves data of rhs into self without negating the coefficients' % (name, ', '.join(r[:50] for r in rest)))
    inst = 'Lc -=|every coefficient taken from rhs is negated'
    if n == 0:
        rep.indet('E16.S4: no transfer from rhs into self found in Lc::sub_assign')
    elif probs:
        rep.violation('E16.S4-sub-negates', inst, 'Lc::sub_assign: ' + '; '.join(sorted(set(probs))[:2]) + ' (0 - g = g)', where=b.where())
    else:
        rep.ok('E16.S4-sub-negates', inst, '%d transfer site(s), all through neg' % n)
