"""E22 - the crossing-choice heuristic only orders the crossings: every crossing is consumed exactly once (C02).

TngComplexBuilder::process_all repeatedly asks choose_next for the crossing that connects best to what was built so
far. The homotopy type can only be independent of the heuristic if the heuristic decides nothing but the order:
  H1  choose_next answers None only when the selector over *all* remaining crossings (self.crossings.iter(),
      optionally enumerated - no filter / skip / take in front of it) found nothing, i.e. when no crossing remains;
  H2  otherwise it answers Some(self.crossings.remove(i)) with i the enumerate index of the selected entry: the
      crossing handed out is the one taken off the list;
  H3  process_all appends every crossing it is handed and stops only on None;
  H4  who-may-write: elements of `crossings` are removed only by choose_next, append_prepare (the crossing being
      appended) and remove_crossings (callers that take crossings over); everything else replaces the list.
A change that lets the score decide *whether* a crossing is used (stop at score 0, skip resolved crossings, ...) passes
every test on connected diagrams. NOT decided: invariance itself (pairs of diagrams), the score function.
"""
import re
from symex import SymEx, show, strip
from core import op_place
from e5_locks import resolve_place

B = 'yui_kh::kh::internal::v2::builder::TngComplexBuilder::<R>::'
SELECTORS = ('max_by_key', 'min_by_key', 'max_by', 'min_by', 'max', 'min', 'next', 'last', 'next_back')
FULL = ('iter', 'into_iter', 'deref', 'enumerate', 'rev', 'as_slice')


def sk(t):
    return re.sub(r'#(?:i\d+:)?\d+\.\d+', '', show(t, -60))


NARROWING = ('filter', 'filter_map', 'skip', 'take', 'skip_while', 'take_while', 'step_by', 'map_while', 'flat_map')
POS_SELECTORS = ('position_max_by_key', 'position_min_by_key', 'position_max', 'position_min', 'position_max_by', 'position_min_by')


class Unknown(Exception):
    pass


def _selector_over_all(t):
    """selector(...) whose receiver chain is the full iteration of self.crossings -> (ok, index_kind, description);
    raises Unknown for shapes outside the fragment"""
    t = strip(t)
    if not (t[0] == 'call' and t[2]):
        raise Unknown('not an Iterator selector: ' + sk(t)[:60])
    sel = t[1].split('::')[-1]
    if sel not in SELECTORS + POS_SELECTORS:
        raise Unknown('selector %s' % sel)
    kind = 'position' if sel in POS_SELECTORS else None
    cur = strip(t[2][0])
    chain = [sel]
    while cur[0] == 'call' and cur[2]:
        n = cur[1].split('::')[-1]
        chain.append(n)
        if n in NARROWING:
            return False, kind, 'the selector runs over %s: crossings rejected by `%s` are never handed out' % (' <- '.join(chain), n)
        if n not in FULL:
            raise Unknown('adapter %s' % n)
        if n == 'enumerate' and kind is None:
            kind = 'enumerate'
        cur = strip(cur[2][0])
    if sk(cur).replace('&', '').replace('*', '') != 'arg1.crossings':
        raise Unknown('the selector runs over ' + sk(cur)[:60])
    return True, kind, ' <- '.join(chain)


def check_consume(body, rep, label):
    """every path through the loop hands the chosen crossing to an append* call; the function returns only on None"""
    bad = []
    n = 0
    for p in SymEx(body, havoc_loops=True, max_paths=5000).run():
        if p.end not in ('return', 'backedge'):
            continue
        n += 1
        choose = [(sk(e.term), e.value) for e in p.branches() if re.match(r'discr\(choose_next\(', sk(e.term))]
        if not choose:
            bad.append('a path ends (%s) without asking choose_next' % p.end)
            continue
        t, v = choose[-1]
        got = t[len('discr('):-1]
        if v == 1:
            apps = [e for e in p.calls() if e.name.split('::')[-1].startswith('append') and any(sk(a).replace('&', '') == got.replace('&', '') + '.Some.0' for a in e.args[1:])]
            if not apps:
                bad.append('a crossing handed out by choose_next is not passed to any append* call (calls: %s)' % [e.name.split('::')[-1] for e in p.calls()][:8])
            if p.end == 'return':
                bad.append('the loop is left after a crossing was handed out')
        else:
            if p.end != 'return':
                bad.append('the loop continues after choose_next answered None')
    inst = '%s|appends every crossing handed out, stops only on None' % label
    if n < 2:
        rep.indet('E22.H3: %s has %d loop paths' % (label, n))
    elif bad:
        rep.violation('E22.H3-process-all', inst, '; '.join(sorted(set(bad))[:3]) + ': that crossing never enters the complex', where=body.where())
    else:
        rep.ok('E22.H3-process-all', inst, '%d loop paths' % n)


def run(facts, rep):
    cn = facts.bodies.get(B + 'choose_next')
    pa = facts.bodies.get(B + 'process_all')
    if not (cn and pa):
        rep.indet('E22: TngComplexBuilder::{choose_next, process_all} not found')
        return
    rep.saw(cn)
    rep.saw(pa)
    # H1 / H2
    n = 0
    try:
        n = _h12(cn, rep)
    except Unknown as e:
        rep.indet('E22: choose_next outside the recognised fragment: %s' % e)
        return
    rep.floor('E22 return paths of choose_next', n, 2)
    # H3
    check_consume(pa, rep, 'TngComplexBuilder::process_all')
    _h4(facts, rep)


def _unq(t):
    """undo the `?` desugaring on Option: branch(X).Continue.0 -> X.Some.0"""
    if not isinstance(t, tuple):
        return t
    if t and t[0] == 'field' and t[2] == 'Continue.0':
        b = strip(t[1])
        if b[0] == 'call' and b[1].endswith('Try::branch') and len(b[2]) == 1:
            return ('field', _unq(b[2][0]), 'Some.0')
    return tuple(_unq(x) for x in t)


def _is_branch(t):
    t = strip(t)
    return t[0] == 'call' and t[1].endswith('Try::branch') and len(t[2]) == 1


def _h12_loop(cn, rep):
    """the selection written as a scan: `let mut best = None; for (i, x) in crossings.iter().enumerate() { if .. { best =
    Some((i, ..)) } }; best.map(|(i, _)| crossings.remove(i))`. None iff empty <=> an iteration entered with best = None always
    leaves it Some; the removed index is the enumerate index of a scanned entry."""
    from symex import apply_closure
    hp = SymEx(cn, havoc_loops=True, max_paths=5000).run()
    rets = [p for p in hp if p.end == 'return']
    back = [p for p in hp if p.end == 'backedge']
    if len(rets) != 1 or not back:
        return None
    r = strip(rets[0].ret)
    if not (r[0] == 'call' and r[1].split('::')[-1] == 'map' and len(r[2]) == 2 and strip(r[2][0])[0] == 'loopvar' and strip(r[2][1])[0] == 'closure'):
        return None
    L = strip(r[2][0])[2]
    entry = {}
    for p in hp:
        for (fid, bb, l), v in p.state.loop_entry.items():
            if fid == 0 and strip(v)[0] != 'loopvar':
                entry.setdefault(l, set()).add(sk(v).replace('&', '').replace('*', ''))
    if entry.get(L) != {'Option::None{}'}:
        raise Unknown('the running selection starts from %s' % sorted(entry.get(L, ())))
    taken = {sk(q.ret).replace('&mut ', '').replace('&', '').replace('*', '').replace("('sel',)", 'SEL') for q in apply_closure(strip(r[2][1]), [('sel',)]) or [] if q.end == 'return'}
    inst2 = 'TngComplexBuilder::choose_next|hands out the crossing it takes off the list'
    if taken not in ({'remove(arg1.crossings, SEL.0)'}, {'swap_remove(arg1.crossings, SEL.0)'}):
        raise Unknown('the selection is mapped to %s' % sorted(taken))
    stay_none = []
    bad_idx = []
    for p in back:
        fin = strip(p.mem.get((('local', L), ()), ('loopvar', 0, L)))
        was = [e.value for e in p.branches() if strip(e.term)[0] == 'discr' and strip(strip(e.term)[1]) == ('loopvar', strip(r[2][0])[1], L)]
        if fin[0] == 'adt' and fin[2] == 'Some' and strip(fin[4][0])[0] == 'tuple':
            i0 = strip(strip(fin[4][0])[1][0])
            ok_i = False
            if i0[0] == 'field' and i0[2] == '0' and strip(i0[1])[0] == 'field' and strip(i0[1])[2] == 'Some.0':
                nx = strip(strip(i0[1])[1])
                if nx[0] == 'call' and nx[1].endswith('Iterator::next') and nx[2][0][0] == 'mref':
                    src = entry.get(nx[2][0][1][0][1], set())
                    ok_i = src == {'into_iter(enumerate(iter(deref(arg1.crossings))))'} or src == {'into_iter(enumerate(iter(arg1.crossings)))'}
            if not ok_i:
                bad_idx.append(sk(i0)[:80])
        elif fin[0] == 'loopvar':
            if not was or was[-1] != 1:
                stay_none.append([(sk(e.term)[:60], e.value) for e in p.branches()][-3:])
        else:
            raise Unknown('the running selection becomes %s' % sk(fin)[:80])
    inst1 = 'TngComplexBuilder::choose_next|None only when no crossing remains'
    if stay_none:
        rep.violation('E22.H1-none-iff-empty', inst1, 'choose_next can answer None while crossings remain (an iteration can leave the running selection empty: %s): process_all stops early and the remaining crossings never enter the complex' % stay_none[0], where=cn.where())
    else:
        rep.ok('E22.H1-none-iff-empty', inst1, 'every iteration entered with no selection makes one; the scan covers every crossing')
    if bad_idx:
        rep.violation('E22.H2-removed-is-returned', inst2, 'choose_next removes the entry at index %s, which is not the position of a scanned crossing' % bad_idx[0], where=cn.where())
    else:
        rep.ok('E22.H2-removed-is-returned', inst2, 'Some(crossings.remove(i)) with i the enumerate index of a scanned entry')
    return 2


def _h12(cn, rep):
    n = _h12_loop(cn, rep)
    if n:
        return n
    n = 0
    for p in SymEx(cn, max_paths=5000).run():
        if p.end != 'return':
            continue
        n += 1
        r = strip(p.ret)
        if r[0] == 'call' and r[1].endswith('from_residual') and len(r[2]) == 1 and strip(r[2][0])[0] == 'field' and strip(r[2][0])[2] == 'Break.0' and _is_branch(strip(r[2][0])[1]):
            r = ('adt', 'std::option::Option', 'None', (), ())
        r = _unq(r)
        if not (r[0] == 'adt' and r[1].endswith('Option')):
            raise Unknown('choose_next returns %s' % sk(r)[:60])
        conds = []
        for e in p.branches():
            tt = strip(e.term)
            if tt[0] == 'discr' and _is_branch(tt[1]):
                conds.append((('discr', _unq(strip(tt[1])[2][0])), 1 if e.value == 0 else 'else'))
            else:
                conds.append((_unq(e.term), e.value))
        if r[2] == 'None':
            inst = 'TngComplexBuilder::choose_next|None only when no crossing remains'
            ok = len(conds) == 1 and strip(conds[0][0])[0] == 'discr' and conds[0][1] != 1
            why = ''
            if ok:
                ok, _, why = _selector_over_all(strip(conds[0][0])[1])
            else:
                sel_conds = [c for c in conds if strip(c[0])[0] == 'discr']
                if len(sel_conds) == len(conds) == 1:
                    raise Unknown('None under %s' % sk(conds[0][0])[:80])
                why = 'None is answered under the conditions %s' % [(sk(a)[:80], b) for a, b in conds]
            if ok:
                rep.ok('E22.H1-none-iff-empty', inst, why)
            else:
                rep.violation('E22.H1-none-iff-empty', inst, 'choose_next can answer None while crossings remain (%s): process_all stops early and the remaining crossings never enter the complex' % why,
                              where=cn.where())
        else:
            inst = 'TngComplexBuilder::choose_next|hands out the crossing it takes off the list'
            v = strip(r[4][0])
            ok = v[0] == 'call' and v[1].split('::')[-1] in ('remove', 'swap_remove') and len(v[2]) == 2 and sk(v[2][0]).replace('&mut ', '').replace('*', '') == 'arg1.crossings'
            why = 'Some(%s)' % sk(v)[:100]
            if ok:
                idx = strip(v[2][1])
                # SEL.Some.0.0  (enumerate index of the selected entry)
                m = idx
                path = []
                while m[0] == 'field':
                    path.append(str(m[2]))
                    m = strip(m[1])
                ok2, kind, why2 = _selector_over_all(m)
                want_path = {'enumerate': ['0', 'Some.0'], 'position': ['Some.0']}.get(kind)
                ok = ok2 and want_path is not None and path == want_path and len(conds) == 1 and sk(strip(conds[0][0])[1]) == sk(m) and conds[0][1] == 1
                why = why2 if ok else 'index %s (%s)' % (sk(idx)[:100], why2)
            if ok:
                rep.ok('E22.H2-removed-is-returned', inst, why)
            else:
                rep.violation('E22.H2-removed-is-returned', inst, 'choose_next answers %s: the crossing handed out is not (only) the entry removed at the selected index' % why, where=cn.where())
    return n


def _h4(facts, rep):
    allowed = {B + 'choose_next': 'hands the removed crossing out (H2)', B + 'append_prepare': 'removes the crossing being appended',
               B + 'remove_crossings': 'caller takes the crossings over (symmetric builder)'}
    # a private method that only the allowed sites (or such methods) call is a step of them
    rcg = facts.rev_callgraph()
    changed = True
    while changed:
        changed = False
        for key, b in facts.bodies.items():
            if key in allowed or b.kind == 'Closure' or not key.startswith(B) or b.d.get('vis', 'pub') == 'pub':
                continue
            callers = rcg.get(key, ())
            roots = {(facts.bodies[c].d.get('root') or c) if c in facts.bodies else c for c in callers}
            if callers and all(r in allowed for r in roots):
                allowed[key] = 'private step of %s' % sorted(x.split('::')[-1] for x in roots)[0]
                changed = True
    k = 0
    for key, b in sorted(facts.bodies.items()):
        root = b.d.get('root') or key
        if not (root.startswith('yui_kh::') and b.crate == 'yui_kh'):
            continue
        for c in b.calls():
            m = (c.generic or c.callee or '').split('::')[-1]
            if m not in ('remove', 'swap_remove', 'retain', 'retain_mut', 'pop', 'truncate', 'clear', 'drain', 'split_off', 'dedup', 'dedup_by_key') or not c.args:
                continue
            pl = op_place(c.args[0])
            if pl is None or not b.local_ty(pl['l']).startswith('&mut '):
                continue
            r = resolve_place(b, pl, 0, True)
            # directly on self, or through a closure that captured `self.crossings` (edition-2021 disjoint capture) / `self`
            if not (re.search(r'\(\*_1\)\.crossings\)*$', r.lstrip('&')) or (b.kind == 'Closure' and re.search(r'_1\._ref__self(__|\)*\.)crossings\)*$', r.lstrip('&')))):
                continue
            st = (facts.bodies.get(root).impl or {}).get('self_ty', '') if facts.bodies.get(root) else ''
            if 'TngComplexBuilder' not in st:
                continue
            k += 1
            inst = '%s|%s on crossings' % (key, m)
            if root in allowed:
                rep.ok('E22.H4-crossing-removal-sites', inst, allowed[root])
            else:
                rep.violation('E22.H4-crossing-removal-sites', inst, '%s removes entries of TngComplexBuilder.crossings outside choose_next / append_prepare / remove_crossings: that crossing never enters the complex' % key,
                              where=c.where())
    rep.floor('E22 removal sites on TngComplexBuilder.crossings', k, 3)
