"""E24 - every cmp_lex is "the first differing exponent in increasing variable order decides" (C16).

lex (and through it grlex, lead_term, lead_coeff, normalizing_unit of polynomials) is a total order compatible with
multiplication exactly when it compares the exponent vectors component by component, *in increasing variable index*,
self against other at the same index, over an index set that contains both supports:
  X1  fixed arity (Var, Var2, Var3): the then_with chain compares component 0, 1, 2 in that order, self.k with other.k;
  X2  MultiVar delegates to the wrapped multi-degree with (self.0, other.0);
  X3  MultiDeg folds `res.then_with(|| cmp(self[i], other[i]))` over a source that is increasing and covers both
      supports - the dense range min(min_index) ..= max(max_index) - ; a concatenation of the two key lists is not
      increasing (an index only `other` has is visited after all of self's), so antisymmetry fails.
The unit tests compare monomials with identical support. NOT decided: Ord of the exponent type, the BTreeMap order.
"""
import re
from symex import SymEx, show, strip

T = 'types::poly::mono::MonoOrd>::cmp_lex'


def sk(t):
    return re.sub(r'#(?:i\d+:)?\d+\.\d+', '', show(t, -1000))


def _closure_ret(facts, owner, t):
    t = strip(t)
    if t[0] != 'closure':
        return None
    cb = facts.bodies.get(t[1])
    if cb is None:
        return None
    rets = [p.ret for p in SymEx(cb).run() if p.end == 'return']
    return (cb, rets[0]) if len(rets) == 1 else None


def _chain(facts, b, t, out):
    """then_with(then_with(cmp(a0, b0), clo1), clo2) -> [cmp terms in evaluation order]"""
    t = strip(t)
    if t[0] == 'call' and t[1].endswith('Ordering::then_with') and len(t[2]) == 2:
        if not _chain(facts, b, t[2][0], out):
            return False
        c = _closure_ret(facts, b, t[2][1])
        if c is None:
            return False
        return _chain(facts, c[0], c[1], out)
    if t[0] == 'call' and (t[1].endswith('::cmp') or t[1].endswith('Ord::cmp')) and len(t[2]) == 2:
        out.append((sk(t[2][0]), sk(t[2][1])))
        return True
    return False


def _comp(s):
    """'&*arg1.0' / '&*arg1.^_ref__self.1' -> (side, k)"""
    s = s.replace('&', '').replace('*', '')
    m = re.match(r'arg1\.\^(?:_ref__)?(self|other)\.(\d)$', s)
    if m:
        return m.group(1), int(m.group(2))
    m = re.match(r'arg([12])\.(\d)$', s)
    if m:
        return ('self' if m.group(1) == '1' else 'other'), int(m.group(2))
    return None


def _loop_form(b):
    """for i in lo..=hi { match cmp(self[i], other[i]) { Equal => continue, ord => return ord } } Equal
    -> 'ok' | a description of a recognised wrong variant | None (not this form)"""
    try:
        hp = SymEx(b, havoc_loops=True, max_paths=2000).run()
    except Exception:
        return None
    srcs = set()
    for p in hp:
        for (fid, bb_, l), v in p.state.loop_entry.items():
            v = strip(v)
            if v[0] == 'call' and v[1].split('::')[-1] == 'into_iter' and len(v[2]) == 1:
                srcs.add(sk(v[2][0]))
    if len(srcs) != 1:
        return None
    src_s = next(iter(srcs))
    dense = re.match(r'new\(min\(unwrap_or\(min_index\(arg([12])\), 0\), unwrap_or\(min_index\(arg([12])\), 0\)\), max\(unwrap_or\(max_index\(arg([12])\), 0\), unwrap_or\(max_index\(arg([12])\), 0\)\)\)$', src_s)
    if not dense:
        return None
    ITEM = r'next\(&mut _\w+\)\.Some\.0'
    step_re = re.compile(r'^cmp\(&?\*?index\(arg([12]), (%s)\), &?\*?index\(arg([12]), (%s)\)\)$' % (ITEM, ITEM))
    inner, after, back = [], [], []
    for p in hp:
        steps = [c for c in p.branches() if strip(c.term)[0] == 'discr' and step_re.match(sk(strip(c.term)[1]))]
        if p.end == 'backedge':
            back.append(steps)
        elif p.end == 'return':
            (inner if steps else after).append((p, steps))
    if not inner or not after or not back:
        return None
    for p, steps in after:
        if sk(p.ret) != 'Ordering::Equal{}':
            return None
    orders = set()
    for p, steps in inner:
        m = step_re.match(sk(strip(steps[-1].term)[1]))
        if sk(strip(p.ret)) != sk(strip(steps[-1].term)[1]) or m.group(2) != m.group(4):
            return None
        if steps[-1].value == 0:
            return None              # returns on Equal
        orders.add((m.group(1), m.group(3)))
    for steps in back:
        if not steps or steps[-1].value != 0:
            return None              # continues on something else than Equal
    if {dense.group(1), dense.group(2)} != {'1', '2'} or {dense.group(3), dense.group(4)} != {'1', '2'}:
        return 'the scanned range %s does not cover the supports of both monomials' % src_s
    if orders == {('1', '2')}:
        return 'ok'
    if orders == {('2', '1')}:
        return 'the step compares other[i] with self[i]'
    return None


def run(facts, rep):
    n = 0
    for b in sorted(facts.bodies.values(), key=lambda x: x.defp):
        if b.crate != 'yui' or not b.defp.endswith(T) or b.kind == 'Closure':
            continue
        rep.saw(b)
        n += 1
        st = (b.impl or {}).get('self_ty', '')
        rets = [p.ret for p in SymEx(b).run() if p.end == 'return']
        inst = '%s|first differing exponent in increasing variable order' % b.defp
        if len(rets) != 1:
            v = _loop_form(b)
            if v == 'ok':
                rep.ok('E24.lex-order', inst, 'loop over min(min_index) ..= max(max_index): the first non-equal cmp(self[i], other[i]) is returned, Equal after the loop')
            elif v:
                rep.violation('E24.lex-order', inst, v, where=b.where())
            else:
                rep.indet('E24: %s has %d return shapes' % (b.defp, len(rets)))
            continue
        r = strip(rets[0])
        # X2 delegation
        if r[0] == 'call' and r[1].endswith('cmp_lex') and len(r[2]) == 2:
            a = [sk(x).replace('&', '').replace('*', '') for x in r[2]]
            if a == ['arg1.0', 'arg2.0']:
                rep.ok('E24.lex-order', inst, 'delegates to the wrapped multi-degree (self.0, other.0)')
            else:
                rep.violation('E24.lex-order', inst, 'cmp_lex delegates with (%s, %s), expected (self.0, other.0)' % tuple(a), where=b.where())
            continue
        # X3 fold
        if r[0] == 'call' and r[1].split('::')[-1] == 'fold' and len(r[2]) == 3:
            src, init, clo = r[2]
            s = sk(src)
            dense = re.match(r'new\(min\(unwrap_or\(min_index\(arg([12])\), 0\), unwrap_or\(min_index\(arg([12])\), 0\)\), max\(unwrap_or\(max_index\(arg([12])\), 0\), unwrap_or\(max_index\(arg([12])\), 0\)\)\)$', s)
            probs = []
            if dense:
                if {dense.group(1), dense.group(2)} != {'1', '2'} or {dense.group(3), dense.group(4)} != {'1', '2'}:
                    probs.append('the scanned range %s does not cover the supports of both monomials' % s)
            elif strip(src)[0] == 'call' and strip(src)[1].split('::')[-1] in ('chain', 'interleave', 'zip', 'rev'):
                probs.append('the indices are scanned as %s, which is not increasing over the union of both supports: an index only one monomial has is visited out of order, so cmp_lex(a, b) and cmp_lex(b, a) can both be Greater' % s[:160])
            else:
                rep.indet('E24: index source of MultiDeg::cmp_lex outside the recognised fragment: %s' % s[:160])
                continue
            if sk(init) != 'Ordering::Equal{}':
                probs.append('the fold starts from %s' % sk(init))
            c1 = _closure_ret(facts, b, clo)
            step = None
            if c1 is not None:
                t1 = strip(c1[1])
                if t1[0] == 'call' and t1[1].endswith('then_with') and len(t1[2]) == 2 and sk(t1[2][0]) == 'arg2':
                    c2 = _closure_ret(facts, c1[0], t1[2][1])
                    if c2 is not None:
                        step = sk(c2[1])
            m = re.match(r'cmp\(index\(arg1\.\^(?:_ref__)?(self|other), \*?\*?arg1\.\^(?:_ref__)?i\), index\(arg1\.\^(?:_ref__)?(self|other), \*?\*?arg1\.\^(?:_ref__)?i\)\)$', step or '')
            if step is None:
                rep.indet('E24: fold step of MultiDeg::cmp_lex outside the recognised fragment')
                continue
            if not m:
                rep.indet('E24: fold step of MultiDeg::cmp_lex outside the recognised fragment: %s' % step[:160])
                continue
            if (m.group(1), m.group(2)) != ('self', 'other'):
                probs.append('the fold step is %s, expected res.then_with(|| cmp(self[i], other[i]))' % step)
            if probs:
                rep.violation('E24.lex-order', inst, '; '.join(probs), where=b.where())
            else:
                rep.ok('E24.lex-order', inst, 'fold over min(min_index) ..= max(max_index) of then_with(cmp(self[i], other[i]))')
            continue
        # X3 as a search: range.map(|i| cmp(self[i], other[i])).find(|o| o.is_ne()).unwrap_or(Equal)
        if r[0] == 'call' and r[1].split('::')[-1] == 'unwrap_or' and len(r[2]) == 2 and sk(r[2][1]) == 'Ordering::Equal{}':
            from symex import apply_closure
            fe = None
            for p in SymEx(b).run():
                for e in p.calls():
                    if e.name.split('::')[-1] == 'find' and e.site == strip(r[2][0])[3] if strip(r[2][0])[0] == 'call' else False:
                        fe = e
            verdict = None
            if fe is not None and fe.pre:
                m_ = strip(fe.pre[0])
                preds = {sk(q.ret) for q in apply_closure(fe.args[1], [('item',)]) or [] if q.end == 'return'}
                if m_[0] == 'call' and m_[1].split('::')[-1] == 'map' and len(m_[2]) == 2 and preds in ({"is_ne(*('item',))"}, {"is_ne(('item',))"}, {"ne(('item',), Ordering::Equal{})"}):
                    src_s = sk(m_[2][0])
                    steps = {sk(q.ret).replace('&', '').replace('*', '') for q in apply_closure(m_[2][1], [('item',)]) or [] if q.end == 'return'}
                    dense = re.match(r'new\(min\(unwrap_or\(min_index\(arg([12])\), 0\), unwrap_or\(min_index\(arg([12])\), 0\)\), max\(unwrap_or\(max_index\(arg([12])\), 0\), unwrap_or\(max_index\(arg([12])\), 0\)\)\)$', src_s)
                    if dense and steps == {"cmp(index(arg1, ('item',)), index(arg2, ('item',)))"}:
                        if {dense.group(1), dense.group(2)} == {'1', '2'} and {dense.group(3), dense.group(4)} == {'1', '2'}:
                            verdict = 'ok'
                        else:
                            verdict = 'the scanned range %s does not cover the supports of both monomials' % src_s
                    elif dense and steps == {"cmp(index(arg2, ('item',)), index(arg1, ('item',)))"}:
                        verdict = 'the step compares other[i] with self[i]'
            if verdict == 'ok':
                rep.ok('E24.lex-order', inst, 'first non-equal cmp(self[i], other[i]) over min(min_index) ..= max(max_index)')
            elif verdict:
                rep.violation('E24.lex-order', inst, verdict, where=b.where())
            else:
                rep.indet('E24: %s outside the recognised fragment: %s' % (b.defp, sk(r)[:120]))
            continue
        # X1 fixed arity
        seq = []
        if not _chain(facts, b, r, seq):
            rep.indet('E24: %s outside the recognised fragment: %s' % (b.defp, sk(r)[:120]))
            continue
        comps = [(_comp(a), _comp(c)) for a, c in seq]
        arity = {'var::Var<': 1, 'var2::Var2<': 2, 'var3::Var3<': 3}
        want_n = next((v for k, v in arity.items() if k in st), None)
        if any(x is None or y is None for x, y in comps) or want_n is None:
            rep.indet('E24: %s compares %s' % (b.defp, seq))
            continue
        good = [(('self', k), ('other', k)) for k in range(want_n)]
        if comps == good:
            rep.ok('E24.lex-order', inst, 'components %s in order, self against other' % list(range(want_n)))
        else:
            rep.violation('E24.lex-order', inst, 'cmp_lex compares %s, expected components 0..%d in increasing order, self.k against other.k' % (comps, want_n - 1), where=b.where())
    rep.floor('E24 cmp_lex implementations', n, 5)


def check_index_bounds(facts, rep):
    """X3 (C16, "lex and graded lex are total orders"): MultiDeg::cmp_lex compares the exponents over min_index ..= max_index
    of both operands; the two bounds must be the extreme *keys* of the exponent map (min / max over the indices, or the
    first / last key of the ordered map). A bound computed from another bound and the number of entries
    (`min + len - 1`) is right only for a support without gaps: x2 and x2*x4 then compare Equal."""
    import re
    from symex import SymEx, show, strip
    n = 0
    for fn, good, what in (('min_index', ('min', 'first_key_value', 'first', 'next'), 'smallest'), ('max_index', ('max', 'last_key_value', 'last', 'next_back'), 'largest')):
        b = facts.bodies.get('yui::types::poly::mdeg::MultiDeg::<I>::' + fn)
        if b is None:
            rep.indet('E24.X3: MultiDeg::%s not found' % fn)
            continue
        rep.saw(b)
        inst = 'MultiDeg::%s|the %s key of the exponent map' % (fn, what)
        vs = set()
        for p in SymEx(b, havoc_loops=True, max_paths=500).run():
            if p.end != 'return' or p.ret is None:
                continue
            s_ = re.sub(r'#(?:i\d+:)?\d+\.\d+', '', show(p.ret, -1000))
            t = strip(p.ret)
            names = []
            by_site = {e.site: e for e in p.calls()}
            while t[0] in ('call', 'field') and (t[0] == 'field' or t[2]):
                if t[0] == 'field':
                    t = strip(t[1])
                    continue
                names.append(t[1].split('::')[-1])
                a0 = t[2][0]
                if a0[0] == 'mref' and len(t) > 3 and t[3] in by_site and by_site[t[3]].pre:
                    a0 = by_site[t[3]].pre[0]
                t = strip(a0)
            derived = re.match(r'^(map|and_then)\((min_index|max_index)\(arg1\), closure', s_)
            if derived or (re.search(r'(Add|Sub)WithOverflow\(|\badd\(|\bsub\(', s_) and re.search(r'\b(len|ninds|count)\(', s_)):
                vs.add(('arith', ('a function of %s' % derived.group(2)) if derived else s_[:90]))
            elif t == ('arg', 1) and any(g in names for g in good) and not any(x in names for x in ('len', 'ninds', 'count')):
                vs.add(('ok', [g for g in good if g in names][0]))
            elif t == ('arg', 1) and any(g in names for g in (('max', 'last_key_value', 'last', 'next_back') if fn == 'min_index' else ('min', 'first_key_value', 'first'))):
                vs.add(('other-end', '.'.join(reversed(names))[:60]))
            else:
                vs.add(('?', s_[:80]))
        n += 1
        if vs and all(v[0] == 'ok' for v in vs):
            rep.ok('E24.X3-index-bounds', inst, sorted(vs)[0][1])
        elif any(v[0] in ('arith', 'other-end') for v in vs) and not any(v[0] == '?' for v in vs):
            v = [v for v in vs if v[0] in ('arith', 'other-end')][0]
            rep.violation('E24.X3-index-bounds', inst,
                          'MultiDeg::%s is computed as %s, not as the %s key: for a support with gaps (x2*x4) the range cmp_lex walks ends early, exponents beyond it are never compared and distinct monomials are Equal - the order is not total and lead_term depends on the iteration order of the term map' % (fn, v[1], what),
                          where=b.where())
        else:
            rep.indet('E24.X3: MultiDeg::%s outside the recognised fragment: %s' % (fn, sorted(vs)))
    rep.floor('E24.X3 index bounds of MultiDeg', n, 2)
