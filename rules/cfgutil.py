"""CFG helpers shared by the scan-loop rules (E21, E7.T9)."""


def reach_without(body, start, removed):
    seen, stack = set(), [start]
    while stack:
        b = stack.pop()
        if b in seen or b in removed:
            continue
        seen.add(b)
        stack.extend(body.succs(b))
    return seen


def for_loops(body):
    """[(into_iter bb, next bb, some-successor, none-successor, range operand text)] for `for x in <iter>` loops:
    an IntoIterator::into_iter call whose result feeds an Iterator::next call followed by a switch on its discriminant"""
    out = []
    dom = body.dominators()
    its = [c for c in body.calls() if (c.generic or c.callee or '').endswith('into_iter')]
    for c in body.calls():
        nm = c.callee or c.generic or ''
        if not nm.endswith('::next'):
            continue
        cands = [i.bb for i in its if i.bb in dom.get(c.bb, ())]
        if not cands:
            continue
        I = max(cands, key=lambda b: len(dom[b]))
        succ = body.succs(c.bb)
        if not succ:
            continue
        sw = body.blocks[succ[0]]['term']
        hops = 0
        cur = succ[0]
        while sw['k'] == 'goto' and hops < 3:
            cur = sw['target']
            sw = body.blocks[cur]['term']
            hops += 1
        if sw['k'] != 'switch':
            continue
        some = [t for v, t in sw['targets'] if v == 1]
        none = [t for v, t in sw['targets'] if v == 0]
        if len(some) == 1 and len(none) == 1:
            out.append((I, c.bb, some[0], none[0]))
    return out


def early_exits(body, next_bb, some_bb):
    """blocks through which the loop body starting at some_bb can reach a function return without asking next() again"""
    r = reach_without(body, some_bb, {next_bb})
    return sorted(r & set(body.return_blocks()))
