"""Positive controls: the fixture crate /verif/fixtures is analysed by the same driver; each engine must flag
its seeded `bad_*` item and stay silent on the `good_*` twin. A control that is not flagged makes the check
fail closed (INDETERMINATE, exit 3) - a rule that matches nothing would otherwise pass vacuously forever."""
import os, hashlib, shutil, fcntl, glob
import harness
from harness import VERIF, CACHE, DRIVER, sh, nightly_sysroot, BuildFailed
from core import Facts

FIX = os.path.join(VERIF, 'fixtures')


def _hash():
    h = hashlib.sha256()
    for p in (os.path.join(FIX, 'src', 'lib.rs'), os.path.join(FIX, 'Cargo.toml'), os.path.join(VERIF, 'driver', 'src', 'main.rs')):
        h.update(open(p, 'rb').read())
    return h.hexdigest()[:16]


def facts_dir():
    harness.ensure_tools()
    d = os.path.join(CACHE, 'fixture-facts', _hash())
    marker = os.path.join(d, '.complete')
    os.makedirs(CACHE, exist_ok=True)
    lock = open(os.path.join(CACHE, 'extract.lock'), 'w')
    fcntl.flock(lock, fcntl.LOCK_EX)
    try:
        if os.path.exists(marker):
            return d
        if os.path.isdir(d):
            shutil.rmtree(d)
        os.makedirs(d)
        shutil.copy(os.path.join(harness.REPO, 'Cargo.lock'), os.path.join(FIX, 'Cargo.lock'))
        tgt = os.path.join(CACHE, 'target')
        for fp in glob.glob(os.path.join(tgt, 'debug', '.fingerprint', 'yui-verif-fixtures-*')):
            shutil.rmtree(fp, ignore_errors=True)
        env = dict(os.environ)
        env['LD_LIBRARY_PATH'] = nightly_sysroot() + '/lib'
        env['RUSTFLAGS'] = '-Zmir-opt-level=0 -Awarnings'
        env['RUSTC_WORKSPACE_WRAPPER'] = DRIVER
        env['YUI_FACTS_DIR'] = d
        env['CARGO_TARGET_DIR'] = tgt
        env['CARGO_NET_OFFLINE'] = 'true'
        r = sh(['cargo', '+nightly', 'check', '--offline'], cwd=FIX, env=env)
        if r.returncode != 0 or not os.path.exists(os.path.join(d, 'yui_verif_fixtures.json')):
            raise BuildFailed('fixture crate does not build:\n' + r.stdout[-2000:])
        open(marker, 'w').write('ok')
        return d
    finally:
        fcntl.flock(lock, fcntl.LOCK_UN)
        lock.close()


_cached = None


def load():
    global _cached
    if _cached is None:
        _cached = facts_dir()
    return _cached


class Scratch:
    """a throw-away Report-like sink for running an engine on the fixture"""

    def __init__(self):
        self.violations = []
        self.oks = []
        self.indeterminate = []
        self.inventory = {}
        self.functions = set()
        self.callsites = 0

    def ok(self, rule, subject, how=None, sample=False):
        self.oks.append((rule, subject))

    def violation(self, rule, key, what, where=None, detail=None):
        self.violations.append((rule, key, what))

    def indet(self, r):
        self.indeterminate.append(r)

    def floor(self, name, count, floor):
        self.inventory[name] = count
        return True

    def saw(self, b):
        pass

    def rule(self, *a):
        pass


def run_controls(rep, engines, main_facts_loader):
    """runs the positive control of each named engine on the fixture facts, then restores the real fact base"""
    try:
        d = load()
    except BuildFailed as e:
        rep.indet('positive controls: %s' % e)
        return
    ff = Facts(d)
    try:
        for eng in engines:
            flagged, silent, detail = CONTROLS[eng](ff)
            rep.controls.append({'engine': eng, 'bad_flagged': flagged, 'good_silent': silent, 'detail': detail})
            if not flagged:
                rep.indet('positive control of %s not flagged (%s): the rule has stopped matching' % (eng, detail))
            if not silent:
                rep.indet('positive control of %s: the conforming twin is flagged (%s)' % (eng, detail))
    finally:
        main_facts_loader()      # re-register ids / promoted constants of the real fact base


def _c_e2(ff):
    import e2_float
    r = e2_float.run(ff)
    roots = set(r['roots'])
    return ('yui_verif_fixtures::exact::bad_add' in roots, not any('good_' in k for k in roots), sorted(roots))


def _c_e3(ff):
    import e3_gcd
    s = Scratch()
    e3_gcd.run(ff, s, trait='yui_verif_fixtures::euc::EucRing')
    bad = [v for v in s.violations if 'EucRing::gcd|returns clone(arg1)' in v[1]]
    lcm_bad = [v for v in s.violations if '::lcm' in v[1]]
    return (bool(bad), not lcm_bad, [v[1] for v in s.violations])


def _c_e4(ff):
    import e4_bitseq
    s = Scratch()
    e4_bitseq.run(ff, s, module='yui_verif_fixtures::bits::', adt='yui_verif_fixtures::bits::Bits', floor=3, order=False)
    bad = [v for v in s.violations if 'bad_push' in v[1]]
    good = [v for v in s.violations if 'bad_push' not in v[1]]
    return (len(bad) >= 2, not good, [v[1] for v in s.violations])


def _c_e1(ff):
    import e1_typestate
    from e1_typestate import TypeSpec, HASHMAP_PRESERVING
    spec = TypeSpec(adt='yui_verif_fixtures::norm::Sparse', fields=['data'], normaliser=r'norm::Sparse::clean$',
                    preserving=HASHMAP_PRESERVING,
                    literal_ok={r'norm::Sparse::new$': 'empty map', r'Sparse as std::default::Default>::default$': 'derived', r'Sparse as std::clone::Clone>::clone$': 'derived'})
    s = Scratch()
    e1_typestate.run_type(ff, s, spec, 'Sparse', 1)
    bad = [v for v in s.violations if 'bad_add' in v[1]]
    good = [v for v in s.violations if 'bad_add' not in v[1]]
    return (bool(bad), not good, [v[1] for v in s.violations])


def _c_e5(ff):
    import e5_locks
    s = Scratch()
    summ = e5_locks.Summaries(ff)
    e5_locks.check_guards(ff, s, summ, lambda b: b.defp.startswith('yui_verif_fixtures::locks::'), 'fixture', 1)
    l2 = [v for v in s.violations if v[0].startswith('E5.L2') and 'bad_relock' in v[1]]
    l1 = [v for v in s.violations if v[0].startswith('E5.L1') and 'bad_rayon_under_borrow' in v[1]]
    good = [v for v in s.violations if 'good_' in v[1]]
    return (bool(l1) and bool(l2), not good, [v[1] for v in s.violations])


def _c_e6(ff):
    import e6_mirror
    s = Scratch()
    for nm in ('bad_swap_rows', 'good_swap_rows'):
        b = ff.bodies['yui_verif_fixtures::dense::calc::Calc::' + nm]
        e6_mirror.check_wrapper(s, b, ['p', 'pinv'])
    bad = [v for v in s.violations if 'bad_swap_rows' in v[1] and 'pinv' in v[1]]
    good = [v for v in s.violations if 'good_swap_rows' in v[1]]
    return (bool(bad), not good, [v[1] for v in s.violations])


CONTROLS = {'E1': _c_e1, 'E2': _c_e2, 'E3': _c_e3, 'E4': _c_e4, 'E5': _c_e5, 'E6': _c_e6}
