"""E14 - dimensional (scaling) analysis of the integral LLL state (C10).

LLLData maintains D_j = det(b_0..b_j)^2-type Gram determinants (`det[j]`) and lambda[i][j] = D_j * mu_ij.
Under the scaling b -> c*b of the basis every quantity is homogeneous in c:
      deg det[j] = 2(j+1)      deg lambda[(i,j)] = 2(j+1)      deg of a row multiplier / quotient = 0
and every exact update formula of the algorithm must respect that grading (like units in physics):
sums and comparisons join terms of equal degree, products add, quotients subtract, conj / neg keep and
norm doubles the degree, and a value stored into det[j] / lambda[(i,j)] has degree 2(j+1).
The formulas are read from the MIR path summaries of swap, add_row_to, reduce, lovasz_ok; indices are affine
in the step k, so degrees are affine forms in k (on the k < 2 path D_{k-2} is the literal one() and k = 1).
A dropped factor, a wrong index or a misplaced division in the swap / update formulas is inhomogeneous.
NOT decided: that the homogeneous formula is the right one (e.g. a sign error).
"""
import re
from fractions import Fraction
from symex import SymEx, show, strip, show_lv
from e8_formulas import affine, NotAffine, fshow


def sk(t):
    return re.sub(r'#(?:i\d+:)?\d+\.\d+', '', show(t))


class Inhomogeneous(Exception):
    def __init__(self, msg, forms=()):
        Exception.__init__(self, msg)
        self.forms = forms


class _Unused(Exception):
    pass


class Unknown(Exception):
    pass


def idx_atom(t):
    s = sk(t)
    m = re.match(r'arg(\d+)$', s)
    if m:
        return 'a' + m.group(1)
    if 'next(' in s and s.endswith('Some.0'):
        return 'it:' + re.sub(r'[^0-9]', '', s)[:6]
    if t[0] == 'loopvar':
        return 'lv:%s' % (t[2],)
    return None


def _unchecked(t):
    """k.checked_sub(c).Some.0 is k - c (on the path where it is Some)"""
    if not isinstance(t, tuple) or not t:
        return t
    if t[0] == 'field' and t[2] == 'Some.0' and t[1][0] == 'call' and t[1][1].split('::')[-1] in ('checked_sub', 'checked_add') and len(t[1][2]) == 2:
        op = 'SubWithOverflow' if t[1][1].endswith('checked_sub') else 'AddWithOverflow'
        return ('field', ('bin', op, _unchecked(t[1][2][0]), _unchecked(t[1][2][1])), '0')
    if t[0] in ('ref', 'deref'):
        return (t[0], _unchecked(t[1]))
    if t[0] == 'field':
        return ('field', _unchecked(t[1]), t[2])
    if t[0] == 'bin':
        return ('bin', t[1], _unchecked(t[2]), _unchecked(t[3]))
    if t[0] == 'cast':
        return ('cast', t[1], _unchecked(t[2])) + tuple(t[3:])
    return t


def aff(t):
    t = _unchecked(t)
    try:
        return affine(strip(t) if t[0] in ('ref', 'deref') else t, idx_atom)
    except NotAffine as e:
        raise Unknown('index not affine: %s' % e)


def fadd(a, b, s=1):
    r = dict(a)
    for k, v in b.items():
        r[k] = r.get(k, 0) + s * v
        if r[k] == 0:
            del r[k]
    return r


def fscale(a, c):
    return {k: v * c for k, v in a.items() if v * c != 0}


def is_field(t, name):
    t = strip(t)
    return t[0] == 'field' and t[2] == name and strip(t[1]) == ('arg', 1) or (t[0] == 'field' and t[2] == name)


class Deg:
    def __init__(self, subst):
        self.subst = subst      # {'a2': 1} on the k = 1 path

    def norm(self, f):
        out = {}
        for k, v in f.items():
            if k in self.subst:
                out[1] = out.get(1, 0) + v * self.subst[k]
            else:
                out[k] = out.get(k, 0) + v
        return {k: v for k, v in out.items() if v != 0}

    def place_degree(self, container, index):
        """degree of det[idx] / lambda[(i, j)]"""
        if container == 'det':
            return self.norm(fadd(fscale(aff(index), 2), {1: Fraction(2)}))
        if container == 'lambda':
            ix = strip(index)
            if ix[0] != 'tuple' or len(ix[1]) != 2:
                raise Unknown('lambda index is not a pair: ' + sk(index))
            return self.norm(fadd(fscale(aff(ix[1][1]), 2), {1: Fraction(2)}))
        raise Unknown(container)

    def container_of(self, t):
        s = t
        while s[0] in ('ref', 'deref', 'loopvar') or (s[0] == 'call' and s[1].split('::')[-1] in ('deref', 'deref_mut') and len(s[2]) == 1):
            if s[0] == 'loopvar':
                break
            s = s[1] if s[0] in ('ref', 'deref') else s[2][0]
        txt = sk(t)
        if txt.endswith('.det') or re.search(r'\.det\)*$', txt):
            return 'det'
        if txt.endswith('.lambda') or re.search(r'\.lambda\)*$', txt):
            return 'lambda'
        if t[0] == 'mref':
            p = t[1][1]
            if p and p[-1] in ('det', 'lambda'):
                return p[-1]
        return None

    def deg(self, t):
        while t[0] in ('ref', 'deref'):
            t = t[1]
        k = t[0]
        if k == 'call':
            last = t[1].split('::')[-1]
            a = t[2]
            if last in ('index', 'index_mut') and len(a) == 2:
                c = self.container_of(a[0])
                if c:
                    return self.place_degree(c, a[1])
                raise Unknown('index into ' + sk(a[0])[:40])
            if last in ('add', 'sub') and len(a) == 2:
                d1, d2 = self.deg(a[0]), self.deg(a[1])
                if d1 != d2:
                    raise Inhomogeneous('%s joins degree %s with degree %s' % (last, fshow(d1), fshow(d2)), (d1, d2))
                return d1
            if last == 'mul' and len(a) == 2:
                return self.norm(fadd(self.deg(a[0]), self.deg(a[1])))
            if last == 'div' and len(a) == 2:
                return self.norm(fadd(self.deg(a[0]), self.deg(a[1]), -1))
            if last in ('conj', 'neg', 'clone') and len(a) == 1:
                return self.deg(a[0])
            if last == 'norm' and len(a) == 1:
                return fscale(self.deg(a[0]), 2)
            if last in ('one', 'zero') and not a:
                return {}
            if last == 'as_int' and len(a) == 1:
                return self.deg(a[0])
            if last == 'div_round' and len(a) == 2:
                return self.norm(fadd(self.deg(a[0]), self.deg(a[1]), -1))
            raise Unknown('call ' + t[1][-40:])
        if k == 'arg':
            return {}             # scalar parameters (row multipliers) are dimensionless
        if k == 'field' and t[2].endswith('Some.0'):
            return self.deg(t[1])
        if k == 'field' and t[2] in ('0', '1') and sk(t[1]).startswith('alpha('):
            return {}
        if k == 'post':
            return self.deg(t[2])
        raise Unknown(sk(t)[:60])


FUNS = ['swap', 'add_row_to', 'reduce', 'lovasz_ok']
BASE = 'yui_matrix::dense::lll::LLLData::<R>::'


def run(facts, rep):
    nform = 0
    for fn in FUNS:
        b = facts.bodies.get(BASE + fn)
        if b is None:
            rep.indet('E14: %s not found' % (BASE + fn))
            continue
        rep.saw(b)
        seen = {}
        for p in SymEx(b, havoc_loops=True, max_paths=20000).run():
            subst = {}
            for e in p.branches():
                s = sk(e.term)
                if s == 'Ge(arg2, 2)' and e.value == 0:
                    subst['a2'] = 1       # 0 < k < 2
                elif s in ('Lt(arg2, 2)', 'Le(arg2, 1)') and e.value != 0:
                    subst['a2'] = 1
                elif re.match(r'discr\(checked_sub\(arg2, 2\)\)$', s) and e.value == 0:
                    subst['a2'] = 1       # k.checked_sub(2) is None
            D = Deg(subst)
            for e in p.events:
                checks = []
                if e.kind == 'write' and e.lv[0][0] == 'ptr':
                    tgt = e.lv[0][1]
                    if tgt[0] == 'call' and tgt[1].split('::')[-1] == 'index_mut' and len(tgt[2]) == 2 and not e.lv[1]:
                        c = D.container_of(tgt[2][0])
                        if c:
                            checks.append(('store', c, tgt[2][1], e.term, e.line))
                elif e.kind == 'call':
                    last = e.name.split('::')[-1]
                    if last in ('swap_cols', 'swap_columns') and len(e.args) == 3 and D.container_of(e.args[0]) == 'lambda':
                        # a whole-column exchange of lambda: entries of column a (degree 2(a+1)) land in column b
                        try:
                            da, db = D.place_degree('lambda', ('tuple', (('const', 0), e.args[1]))), D.place_degree('lambda', ('tuple', (('const', 0), e.args[2])))
                            key = ('colswap', 'lambda', sk(e.args[1]) + ',' + sk(e.args[2]), 'swap_cols', tuple(sorted(subst.items())))
                            if key not in seen:
                                seen[key] = (True, fshow(da), e.line) if da == db else (False, 'columns %s and %s of lambda are exchanged as they are, although their entries have degrees %s and %s (lambda[(i,j)] = D_j * mu_ij)' % (sk(e.args[1]), sk(e.args[2]), fshow(da), fshow(db)), e.line)
                        except (Unknown, Inhomogeneous) as ex:
                            seen[('colswap', 'lambda', sk(e.args[1]), 'swap_cols', tuple(sorted(subst.items())))] = (None, str(ex), e.line)
                    if last == 'div_round' and len(e.args) == 2:
                        checks.append(('quotient', None, None, ('call', 'x::div_round', e.args, e.site), e.line))
                    elif last in ('ge', 'gt', 'le', 'lt', 'cmp', 'partial_cmp') and len(e.args) == 2 and 'as_int(' in sk(e.args[0]):
                        checks.append(('compare', None, None, ('call', 'x::sub', e.args, e.site), e.line))
                for kind, c, index, term, line in checks:
                    key = (kind, c, sk(index) if index is not None else '', re.sub(r'\s+', ' ', sk(term))[:200], tuple(sorted(subst.items())))
                    if key in seen:
                        continue
                    try:
                        d = D.deg(term)
                        if kind == 'store':
                            want = D.place_degree(c, index)
                            if d != want:
                                raise Inhomogeneous('value of degree %s stored into %s[%s] of degree %s' % (fshow(d), c, sk(index), fshow(want)), (d, want))
                        elif kind == 'quotient' and d != {}:
                            raise Inhomogeneous('size-reduction quotient has degree %s, must be dimensionless' % fshow(d), (d,))
                        seen[key] = (True, fshow(d), line)
                    except Inhomogeneous as ex:
                        # a mismatch counts only if every atom of the degrees is one the index reader knows (the step k, a
                        # loop index, a literal): an opaque atom means the reader, not the formula, is out of its depth
                        opaque = sorted({str(k_) for f_ in ex.forms for k_ in f_ if not (k_ == 1 or re.match(r'(a\d+|it:\d*|lv:\w+)$', str(k_)))})
                        if opaque:
                            seen[key] = (None, 'degree with an unread index atom %s: %s' % (opaque[:2], str(ex)[:120]), line)
                        else:
                            seen[key] = (False, str(ex), line)
                    except Unknown as ex:
                        seen[key] = (None, str(ex), line)
        for key, (ok, msg, line) in sorted(seen.items(), key=lambda kv: str(kv[0])):
            kind, c, index, term, subst = key
            nform += 1
            inst = '%s|%s %s%s%s' % (BASE + fn, kind, (c + '[' + index + '] := ') if c else '', term[:120], ' (k=1)' if subst else '')
            if ok:
                rep.ok('E14.scaling-homogeneity', inst, 'degree %s' % msg)
            elif ok is False:
                rep.violation('E14.scaling-homogeneity', inst,
                              'LLLData::%s: %s in `%s`: the update is not homogeneous under scaling of the basis (deg det[j] = deg lambda[(i,j)] = 2(j+1)), so it cannot be the exact Gram-Schmidt update' % (fn, msg, term[:160]),
                              where='%s:%d' % (b.file, line))
            else:
                rep.indet('E14: formula outside the recognised fragment in %s: %s' % (fn, msg))
    rep.floor('E14 LLL update formulas checked', nform, 9)
