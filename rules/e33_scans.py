"""E33 - a boolean scan looks at every element (C06, C12, C13, C16, C18, C01 - wherever a predicate is a search).

Many predicates of the workspace are searches: "some crossing touches both paths", "every entry off the diagonal is
zero", "no component is closed". Written as a loop, the function returns the *witness* answer from inside the loop and the
*default* answer after it; written as an iterator chain it ends in any / all / find / position. Such a function decides the
property for every element only if the scan cannot stop early with the default answer:
  X1  loop form: every return taken from inside an iteration yields a constant different from the constant returned
      after the loop (a `break` / early `return default` makes the answer depend on the listing order of the elements);
  X2  chain form: between the source and the terminal any / all / find / position there is no truncating adapter
      (take_while, map_while, skip_while, take, skip, step_by, scan) - `filter` / `filter_map` are the adapters that skip
      an element *and go on*.
Instances are discovered (every non-test `fn .. -> bool` of the workspace whose paths show one of the two forms) and
counted against a floor confirmed by reading (27 on the pinned tree, all clean). NOT decided: that the predicate tested per
element is the right one.
"""
import re
from symex import SymEx, show, strip, subterms, TooManyPaths

TRUNC = {'take_while', 'map_while', 'skip_while', 'take', 'skip', 'step_by', 'scan'}
TERMINAL = {'any', 'all', 'find', 'position', 'find_map'}
CRATES = ('yui', 'yui_matrix', 'yui_homology', 'yui_link', 'yui_kh', 'ykh')


def sk(t):
    return re.sub(r'#(?:i\d+:)?\d+\.\d+', '', show(t, -1000))


def chain_of(ev, pre_of, depth=0):
    """adapter names from the terminal call down to the source, following `&mut iterator-local` to the value it held"""
    names = []
    t = ev
    while depth < 20:
        depth += 1
        t = strip(t)
        if t[0] == 'mref':
            break
        if t[0] != 'call' or not t[2]:
            break
        names.append(t[1].split('::')[-1])
        a0 = t[2][0]
        if a0[0] == 'mref' and t[3] in pre_of:
            a0 = pre_of[t[3]]
        t = a0
    return names


def run(facts, rep, select=None):
    n = 0
    for k, b in sorted(facts.bodies.items()):
        if b.kind == 'Closure' or b.ret_ty != 'bool' or b.from_expansion or '::tests::' in k or k.split('::')[0] not in CRATES:
            continue
        if select is not None and not select(b):
            continue
        try:
            ps = SymEx(b, havoc_loops=True, max_paths=3000).run()
        except TooManyPaths:
            continue
        inloop, after, chains = [], [], []
        for p in ps:
            if p.end != 'return':
                continue
            nx = [e.value for e in p.branches() if e.frame in (0, None) and sk(e.term).startswith('discr(next(')]
            r = strip(p.ret)
            rv = r[1] if r[0] == 'const' else None
            if nx:
                (inloop if nx[-1] == 1 else after).append(rv)
            pre_of = {e.site: e.pre[0] for e in p.calls() if e.pre and e.args and e.args[0][0] == 'mref'}
            for e in p.calls():
                if e.name.split('::')[-1] in TERMINAL and e.name.startswith(('std::', 'core::', 'itertools::')) and e.frame in (0, None):
                    chains.append(chain_of(('call', e.name, e.args, e.site), pre_of))
        if not (inloop or chains):
            continue
        n += 1
        rep.saw(b)
        short = b.defp
        if inloop:
            inst = '%s|loop form: an early return carries the witness answer' % short
            dflt = {x for x in after if x is not None}
            wit = set(inloop)
            if None in wit or len(dflt) != 1:
                rep.ok('E33.X1-exhaustive-loop', inst, 'returns computed values (not a constant-answer scan): not armed')
            elif wit & dflt:
                rep.violation('E33.X1-exhaustive-loop', inst,
                              '%s leaves its scan from inside an iteration with the answer %s, which is also the answer given when the scan finds nothing: an element that merely does not qualify ends the search, later elements are never examined, and the result depends on the order in which the elements are listed' % (short, sorted(wit & dflt)),
                              where=b.where())
            else:
                rep.ok('E33.X1-exhaustive-loop', inst, 'in-loop returns %s, after the loop %s' % (sorted(wit), sorted(dflt)))
        seen_ch = set()
        for ch in chains:
            if tuple(ch) in seen_ch:
                continue
            seen_ch.add(tuple(ch))
            inst = '%s|chain form: %s' % (short, ' <- '.join(ch[:6]))
            cut = [x for x in ch[1:] if x in TRUNC]
            if cut:
                rep.violation('E33.X2-exhaustive-chain', inst,
                              '%s searches through %s: the adapter %s ends the iteration at the first element it rejects, so the elements after it are never examined (filter / filter_map skip an element and continue)' % (short, ' <- '.join(ch[:6]), cut[0]),
                              where=b.where())
            else:
                rep.ok('E33.X2-exhaustive-chain', inst, 'no truncating adapter')
    return n


def run_for(facts, rep, label, prefixes, floor):
    """the scans of one area (def-path substrings), with the instance floor counted on the pinned tree"""
    n = run(facts, rep, select=lambda b: any(x in b.defp for x in prefixes))
    rep.floor('E33 boolean scans (%s)' % label, n, floor)
