"""Operator-variant agreement (C14 "in every by-value / by-reference / assigning form").

For each scalar type and each operator family (add, sub, mul, div, rem, neg) the impl bodies of
`Op` / `OpAssign` for T and &T form a delegation forest: every body is either a *root* (does the
arithmetic) or a pure delegation - exactly one call to a sibling of the same family and type,
with the operands in the same order (through refs / clones only) and no other arithmetic, whose
result is what the body returns (or leaves in *self). There is exactly one root per family,
except for listed twin roots (hand-written T / &T pairs) whose summaries must agree.
"""
import re
from symex import paths_of, show, strip, TooManyPaths

FAMILIES = {'Add': 'add', 'AddAssign': 'add', 'Sub': 'sub', 'SubAssign': 'sub', 'Mul': 'mul', 'MulAssign': 'mul',
            'Div': 'div', 'DivAssign': 'div', 'Rem': 'rem', 'RemAssign': 'rem', 'Neg': 'neg'}
BENIGN = ('clone::Clone::clone', 'borrow::Borrow::borrow', 'ops::Deref::deref', 'convert::Into::into', 'convert::From::from',
          'ToOwned::to_owned')
# by-value twins of by-reference accessors (one line of reason each)
TWIN_NORMALISE = {'pair_into': 'pair'}   # QuadInt::pair_into(self) is the consuming form of pair(&self)


def fam_of(b):
    im = b.impl
    if not im or b.kind == 'Closure':
        return None
    tr = im.get('trait') or ''
    if not tr.startswith('std::ops::'):
        return None
    return FAMILIES.get(tr.split('::')[-1])


def sk(t):
    s = re.sub(r'#\d+\.\d+', '', show(strip_deep(t)))
    for a, b_ in TWIN_NORMALISE.items():
        s = s.replace(a + '(', b_ + '(')
    return s


def strip_deep(t):
    t = strip(t)
    if t[0] == 'call':
        return ('call', t[1], tuple(strip_deep(a) for a in t[2]), '')
    if t[0] == 'adt':
        return ('adt', t[1], t[2], t[3], tuple(strip_deep(a) for a in t[4]))
    if t[0] == 'field':
        return ('field', strip_deep(t[1]), t[2])
    if t[0] == 'tuple':
        return ('tuple', tuple(strip_deep(a) for a in t[1]))
    return t


def arg_of(t):
    """which formal argument a delegated operand is (through refs, derefs, clones, &mut places)"""
    if t[0] == 'mref':
        root = t[1][0]
        if root[0] == 'ptr':
            t = root[1]
        elif root[0] == 'local':
            return None
    t = strip(t)
    if t[0] == 'arg':
        return t[1]
    return None


def run(facts, rep, adts, floor):
    groups = {}
    for b in facts.bodies.values():
        fam = fam_of(b)
        if fam is None:
            continue
        adt = b.impl.get('self_adt')
        if adt is None:
            m = re.match(r"&(?:'\w+ )?(?:mut )?(.*)$", b.impl['self_ty'])
            st = m.group(1) if m else b.impl['self_ty']
            for a in adts:
                if st.split('<')[0].endswith(a.split('::', 1)[1]):
                    adt = a
        if adt not in adts:
            continue
        groups.setdefault((adt, _variant_key(b), fam), []).append(b)
    total = 0
    for (adt, vk, fam), bodies in sorted(groups.items()):
        names = {b.defp for b in bodies}
        roots = []
        for b in sorted(bodies, key=lambda x: x.defp):
            rep.saw(b)
            total += 1
            try:
                rets = [p for p in paths_of(b) if p.end == 'return']
            except TooManyPaths:
                rep.indet('opvariants: path explosion in %s' % b.defp)
                continue
            deleg = None
            if len(rets) == 1:
                p = rets[0]
                sib = [e for e in p.calls() if e.name in names and e.name != b.defp]
                other = [e for e in p.calls() if e.name not in names and not any(e.name.endswith(x) or (e.fn and e.fn['def'].endswith(x)) for x in BENIGN)]
                if len(sib) == 1 and not other:
                    e = sib[0]
                    order = [arg_of(a) for a in e.pre]
                    is_assign = b.local_ty(1).startswith('&mut ')
                    want = [1, 2][:len(e.args)]
                    flows = False
                    if is_assign:
                        w = p.state.read(('ptr', ('arg', 1)), ())
                        flows = (w[0] == 'call' and w[3] == e.site) or (w[0] == 'post' and w[1] == e.site)
                    else:
                        r = p.ret
                        flows = (r[0] == 'call' and r[3] == e.site) or (r[0] == 'post' and r[1] == e.site)
                    deleg = (e.name, order == want, flows, order)
            inst = '%s|%s variant' % (b.defp, fam)
            if deleg is None:
                roots.append(b)
                continue
            tgt, order_ok, flows, order = deleg
            if order_ok and flows:
                rep.ok('OPV.delegation', inst, 'delegates to %s with operands in order' % tgt.split('::', 1)[1][:70])
            else:
                rep.violation('OPV.delegation', inst,
                              '%s forwards to %s but %s' % (b.defp, tgt, 'passes the operands as %s (expected [1, 2])' % order if not order_ok
                                                             else 'does not return / store the forwarded result'),
                              where=b.where())
        # roots
        inst = '%s %s|%s roots' % (adt.split('::')[-1], vk, fam)
        if not roots:
            rep.violation('OPV.roots', inst, 'operator family %s of %s has no body doing the arithmetic (delegation cycle)' % (fam, adt),
                          where=bodies[0].where())
            continue
        shapes = {}
        for r in roots:
            try:
                ps = [p for p in paths_of(r) if p.end == 'return']
            except TooManyPaths:
                ps = []
            shape = tuple(sorted({sk(p.ret) if not r.local_ty(1).startswith('&mut ') else sk(p.state.read(('ptr', ('arg', 1)), ())) for p in ps}))
            shapes[r.defp] = shape
        if len(roots) == 1:
            rep.ok('OPV.roots', inst, 'single hand-written body %s' % roots[0].defp.split('::', 1)[1][:80])
        elif len(set(shapes.values())) == 1:
            rep.ok('OPV.roots', inst, '%d twin bodies with identical summaries %s' % (len(roots), list(shapes.values())[0][:1]))
        else:
            rep.violation('OPV.roots', inst,
                          'operator family %s of %s has %d independent bodies whose summaries differ: %s' % (fam, adt, len(roots), shapes),
                          where=roots[0].where())
    rep.floor('operator-variant bodies examined', total, floor)


def _variant_key(b):
    """QuadInt has specialised impls per D (-1, -3, generic): keep them apart"""
    m = re.search(r'QuadInt<I, ([^>]+)>', b.impl['self_ty'])
    return m.group(1) if m else ''
