"""E15 - the nearest-integer quotient never overflows on primitive integers (C15, C10, C09).

`DivRound for T: Integer` is generic, so its arithmetic is trait calls and carries no compiler-inserted
overflow checks in MIR; for i32/i64/i128 an intermediate outside [MIN, MAX] panics (overflow checks
on) or wraps (off) - either way "the exactly rounded quotient for operands of any size" is lost.
Every path of the body is replayed over a linear model of truncating division on a w-bit two's
complement type (w in {8, 32, 64, 128}, M = 2^(w-1) - 1):
    a, q in [-M-1, M], q != 0;  quo = a / q, rem = a % q with |rem| <= |q| - 1 and sign(rem) in {0, sign a};
    |quo| <= M + 1, and 2|quo| <= M + 1 whenever |q| >= 2;  quo >= 0 if a, q have equal signs, <= 0 otherwise
(signs are path conditions: the code branches on is_negative / is_zero before it needs them).
Obligation: every Neg / Add / Sub the path performs has its mathematical result in [-M-1, M]
(Fourier-Motzkin entailment, e4_bitseq.entails). `a / q` itself (MIN / -1) is outside the claim: its result
is not representable.
"""
import re
from fractions import Fraction
from symex import SymEx, show, strip
from e4_bitseq import Lin, entails

FN = r'^yui::misc::int_ext::<impl misc::div_round::DivRound for T>::div_round$'


def sk(t):
    return re.sub(r'#(?:i\d+:)?\d+\.\d+', '', show(t))


class Model:
    def __init__(self, M):
        self.M = M
        self.K = []
        self.vars = {}
        self.sign = {}     # var -> 'neg' | 'nonneg' | 'pos' | 'zero'

    def var(self, name):
        if name not in self.vars:
            self.vars[name] = Lin.var(name)
            self.K.append(Lin.var(name) + Lin.const(self.M + 1))      # >= -M-1
            self.K.append(Lin.const(self.M) - Lin.var(name))          # <= M
        return self.vars[name]

    def lin(self, t):
        t = strip(t)
        if t == ('arg', 1):
            return self.var('a')
        if t == ('arg', 2):
            return self.var('q')
        if t[0] == 'call':
            last = t[1].split('::')[-1]
            a = t[2]
            if last == 'div' and [strip(x) for x in a] == [('arg', 1), ('arg', 2)]:
                return self.var('quo')
            if last == 'rem' and [strip(x) for x in a] == [('arg', 1), ('arg', 2)]:
                return self.var('rem')
            if last == 'one' and not a:
                return Lin.const(1)
            if last == 'zero' and not a:
                return Lin.const(0)
            if last == 'neg' and len(a) == 1:
                x = self.lin(a[0])
                return None if x is None else -x
            if last == 'add' and len(a) == 2:
                x, y = self.lin(a[0]), self.lin(a[1])
                return None if x is None or y is None else x + y
            if last == 'sub' and len(a) == 2:
                x, y = self.lin(a[0]), self.lin(a[1])
                return None if x is None or y is None else x - y
        return None

    def assume_sign(self, t, neg):
        x = self.lin(t)
        if x is None:
            return
        if neg:
            self.K.append(-x - Lin.const(1))      # x <= -1
        else:
            self.K.append(x)                       # x >= 0

    def division_axioms(self):
        """facts about quo, rem that follow from the signs known so far (called whenever signs change)"""
        a, q, quo, rem = self.var('a'), self.var('q'), self.var('quo'), self.var('rem')
        K = self.K
        qneg = entails(K, -q - Lin.const(1))
        qpos = entails(K, q - Lin.const(1))
        rneg = entails(K, -rem - Lin.const(1))
        rpos = entails(K, rem)
        absq = -q if qneg else (q if qpos else None)
        absr = -rem if rneg else (rem if rpos else None)
        if absq is not None and absr is not None:
            K.append(absq - absr - Lin.const(1))                 # |rem| <= |q| - 1
        if absq is not None:
            # rem has the sign of a (or is zero)
            if rneg:
                K.append(-a - Lin.const(1))
            if entails(K, rem - Lin.const(1)):
                K.append(a - Lin.const(1))
        K.append(Lin.const(self.M + 1) - quo)
        K.append(quo + Lin.const(self.M + 1))
        if absq is not None and entails(K, absq - Lin.const(2)):
            half = (self.M + 1) // 2
            K.append(Lin.const(half) - quo)                      # 2|quo| <= M + 1
            K.append(quo + Lin.const(half))


def run(facts, rep):
    bs = facts.find(FN)
    if len(bs) != 1:
        rep.indet('E15: integer div_round not found')
        return
    b = bs[0]
    rep.saw(b)
    paths = [p for p in SymEx(b).run() if p.end == 'return']
    if not paths:
        rep.indet('E15: no return path in div_round')
        return
    results = {}
    for w in (8, 32, 64, 128):
        M = (1 << (w - 1)) - 1
        for p in paths:
            m = Model(M)
            m.var('a'); m.var('q'); m.var('quo'); m.var('rem')
            # q != 0 is the documented precondition; its sign is learnt from the branches
            pending = []
            for e in p.events:
                if e.kind == 'branch':
                    c = e.term
                    truth = (e.value == 'else')
                    if c[0] == 'call' and c[1].split('::')[-1] == 'is_negative':
                        m.assume_sign(c[2][0], truth)
                        if strip(c[2][0]) == ('arg', 2) and not truth:
                            m.K.append(m.var('q') - Lin.const(1))          # q >= 0 and q != 0
                        m.division_axioms()
                    elif c[0] == 'call' and c[1].split('::')[-1] == 'is_zero':
                        x = m.lin(c[2][0])
                        if x is not None and truth:
                            m.K.append(x); m.K.append(-x)
                        elif x is not None:
                            pending.append(x)       # x != 0: becomes x >= 1 / x <= -1 once its sign is known
                        m.division_axioms()
                    elif c[0] == 'call' and c[1].split('::')[-1] in ('le', 'lt', 'ge', 'gt') and len(c[2]) == 2:
                        x, y = m.lin(c[2][0]), m.lin(c[2][1])
                        op = c[1].split('::')[-1]
                        if x is not None and y is not None:
                            if not truth:
                                op = {'le': 'gt', 'lt': 'ge', 'ge': 'lt', 'gt': 'le'}[op]
                            m.K.append({'le': y - x, 'lt': y - x - Lin.const(1), 'ge': x - y, 'gt': x - y - Lin.const(1)}[op])
                    elif c[0] == 'bin' and c[1] == 'Eq' and all(z[0] == 'call' and z[1].split('::')[-1] == 'is_negative' for z in (c[2], c[3])):
                        args = {sk(strip(z[2][0])) for z in (c[2], c[3])}
                        if args == {'arg1', 'arg2'}:
                            quo = m.var('quo')
                            m.K.append(quo if truth else -quo)       # equal signs: quo >= 0, else quo <= 0
                    for x in list(pending):
                        if entails(m.K, x):
                            m.K.append(x - Lin.const(1)); pending.remove(x); m.division_axioms()
                        elif entails(m.K, -x):
                            m.K.append(-x - Lin.const(1)); pending.remove(x); m.division_axioms()
                elif e.kind == 'call':
                    last = e.name.split('::')[-1]
                    if last in ('neg', 'add', 'sub') and ('ops::' in e.name):
                        res = m.lin(('call', e.name, e.args, e.site))
                        key = (last, tuple(sk(a) for a in e.args))
                        src = b.src_line(e.line)
                        if res is None:
                            results.setdefault(key, {'ok': True, 'line': e.line, 'src': src, 'bad': None})
                            results[key]['ok'] = False
                            results[key]['bad'] = 'operands outside the linear model'
                            continue
                        lo = entails(m.K, res + Lin.const(M + 1))
                        hi = entails(m.K, Lin.const(M) - res)
                        r = results.setdefault(key, {'ok': True, 'line': e.line, 'src': src, 'bad': None})
                        if not (lo and hi):
                            r['ok'] = False
                            r['bad'] = r['bad'] or 'w=%d: result of %s(%s) not provably within [-2^%d, 2^%d-1]%s' % (
                                w, last, ', '.join(key[1]), w - 1, w - 1, '' if lo else ' (may fall below MIN)')
    for key, r in sorted(results.items()):
        inst = '%s|%s(%s) stays in range' % (b.defp, key[0], ', '.join(key[1]))
        if r['ok']:
            rep.ok('E15.divround-no-overflow', inst, 'proved for 8/32/64/128-bit two\'s complement on every path through `%s`' % r['src'])
        else:
            rep.violation('E15.divround-no-overflow', inst,
                          'div_round: %s at `%s`; for primitive integers the intermediate overflows (panic or silent wrap) although the rounded quotient is representable' % (r['bad'], r['src']),
                          where='%s:%d' % (b.file, r['line']))
    rep.floor('E15 arithmetic operations of div_round proved', len(results), 5)


def check_nearest(facts, rep):
    """V1 (C15, "nearest-integer division returns the exactly rounded quotient"): the decision tree of the generic
    DivRound::div_round - its path conditions and results are terms over a / q (truncating), a % q, is_negative, is_zero,
    negation, +, -, <=, == - is folded over the grid a in -9..9, q in -7..7 \\ {0} (every sign pattern, |a| < |q| and
    |a| >= |q|, exact halves): on the one path whose conditions hold the result r must satisfy 2|a - r*q| <= |q|, with
    r moved away from zero on an exact half. No arithmetic of the repository is executed: the terms are evaluated with
    the integers' own meaning of the seven operations."""
    bs = facts.find(FN)
    if len(bs) != 1:
        rep.indet('E15.V1: generic div_round not found')
        return
    b = bs[0]
    rep.saw(b)
    inst = 'DivRound for T: Integer|result is the nearest integer to a / q on the grid -9..9 x -7..7'

    class Stuck(Exception):
        pass

    def tdiv(x, y):
        q_ = abs(x) // abs(y)
        return q_ if (x >= 0) == (y >= 0) else -q_

    def ev(t, a, q):
        t = strip(t)
        if t == ('arg', 1):
            return a
        if t == ('arg', 2):
            return q
        if t[0] == 'const':
            return int(t[1])
        if t[0] == 'bin' and t[1] in ('Eq', 'Ne', 'Lt', 'Le', 'Gt', 'Ge') and len(t) == 4:
            x, y = ev(t[2], a, q), ev(t[3], a, q)
            return int({'Eq': x == y, 'Ne': x != y, 'Lt': x < y, 'Le': x <= y, 'Gt': x > y, 'Ge': x >= y}[t[1]])
        if t[0] == 'un' and t[1] == 'Not':
            return int(not ev(t[2], a, q))
        if t[0] == 'call':
            last = t[1].split('::')[-1]
            xs = [ev(x, a, q) for x in t[2]]
            if last == 'div' and len(xs) == 2:
                if xs[1] == 0:
                    raise Stuck('division by zero')
                return tdiv(xs[0], xs[1])
            if last == 'rem' and len(xs) == 2:
                return xs[0] - tdiv(xs[0], xs[1]) * xs[1]
            if last in ('add', 'sub', 'mul') and len(xs) == 2:
                return xs[0] + xs[1] if last == 'add' else (xs[0] - xs[1] if last == 'sub' else xs[0] * xs[1])
            if last == 'neg' and len(xs) == 1:
                return -xs[0]
            if last == 'abs' and len(xs) == 1:
                return abs(xs[0])
            if last == 'signum' and len(xs) == 1:
                return (xs[0] > 0) - (xs[0] < 0)
            if last in ('one', 'zero') and not xs:
                return 1 if last == 'one' else 0
            if last in ('is_zero', 'is_negative', 'is_positive', 'is_one') and len(xs) == 1:
                return int({'is_zero': xs[0] == 0, 'is_negative': xs[0] < 0, 'is_positive': xs[0] > 0, 'is_one': xs[0] == 1}[last])
            if last in ('le', 'lt', 'ge', 'gt', 'eq', 'ne') and len(xs) == 2:
                return int({'le': xs[0] <= xs[1], 'lt': xs[0] < xs[1], 'ge': xs[0] >= xs[1], 'gt': xs[0] > xs[1], 'eq': xs[0] == xs[1], 'ne': xs[0] != xs[1]}[last])
        raise Stuck(sk(t)[:60])
    try:
        paths = [p for p in SymEx(b, max_paths=4000).run() if p.end == 'return' and p.ret is not None]
    except Exception as ex:
        rep.indet('E15.V1: %s' % str(ex)[:80])
        return
    bad = []
    npts = 0
    try:
        for a in range(-9, 10):
            for q in range(-7, 8):
                if q == 0:
                    continue
                hits = []
                for p in paths:
                    ok = True
                    for c in p.branches():
                        if (c.name or '').startswith('assert:'):
                            continue
                        v = ev(c.term, a, q)
                        if c.value == 'else':
                            ok = ok and v not in tuple(c.args or ())
                        else:
                            ok = ok and v == c.value
                        if not ok:
                            break
                    if ok:
                        hits.append(ev(p.ret, a, q))
                if len(set(hits)) != 1:
                    raise Stuck('%d paths apply at (%d, %d)' % (len(hits), a, q))
                r = hits[0]
                npts += 1
                d2 = 2 * abs(a - r * q)
                away = abs(r) >= abs(tdiv(a, q)) + (1 if d2 == abs(q) else 0) if d2 == abs(q) else True
                if d2 > abs(q) or not away:
                    bad.append((a, q, r))
    except Stuck as ex:
        rep.indet('E15.V1: div_round outside the evaluated fragment: %s' % ex)
        return
    if bad:
        a, q, r = bad[0]
        rep.violation('E15.V1-nearest', inst,
                      'div_round(%d, %d) is read as %d (|%d - %d*%d| = %d > |%d|/2, or a tie not rounded away from zero); %d of %d grid points are wrong' % (a, q, r, a, r, q, abs(a - r * q), q, len(bad), npts),
                      where=b.where())
    else:
        rep.ok('E15.V1-nearest', inst, '%d grid points, %d paths' % (npts, len(paths)))
