"""E31 - the column-intersection test of dir_sum_decomp relates the two columns it is given (C12, block splitting).

group_cols unites columns i and j exactly when col_intersects(a, j1, j2) answers true. Blocks are the connected components
only if that answer means "some row index of column j1 equals some row index of column j2". Structurally: on every
path that answers true, the deciding test - an `== Equal` comparison or a membership test (`any` + binary_search /
contains) - takes one operand whose provenance is column j1 and the other whose provenance is column j2 (provenance:
the `col(inner(a), j)` an iterator / slice was created from, followed through `next(&mut it)` and closure captures).
A test that compares a column with itself answers true for any non-empty column and merges independent summands - silently:
the block sum still reconstructs the matrix. NOT decided: that every common row is found (completeness of the merge scan).
"""
import re
from symex import SymEx, show, strip, subterms

FN = 'yui_matrix::sparse::decomp::col_intersects'


def sk(t):
    return re.sub(r'#(?:i\d+:)?\d+\.\d+', '', show(t, -1000))


def prov(t, pre_of, depth=0):
    """{'arg2', 'arg3'} provenance of a value: which column argument it was read from"""
    out = set()
    if depth > 6:
        return out
    for x in subterms(t):
        if not isinstance(x, tuple) or not x:
            continue
        if x[0] == 'call' and x[1].split('::')[-1] == 'col' and len(x[2]) == 2:
            j = strip(x[2][1])
            if j[0] == 'arg':
                out.add('arg%d' % j[1])
        if x[0] == 'call' and x[1].endswith('::next') and x[3] in pre_of:
            out |= prov(pre_of[x[3]], pre_of, depth + 1)
    return out


def run(facts, rep):
    b = facts.bodies.get(FN)
    if b is None:
        rep.indet('E31: col_intersects not found')
        return
    rep.saw(b)
    n_true = 0
    verdicts = {}
    try:
        paths = SymEx(b, max_paths=40000).run()
    except Exception as e:
        rep.indet('E31: %s' % e)
        return
    for p in paths:
        if p.end != 'return' or sk(p.ret) not in ('1', 'true'):
            if p.end == 'return' and sk(p.ret) not in ('0', 'false'):
                # the answer is the value of a test
                r = strip(p.ret)
                if r[0] == 'call' and r[1].split('::')[-1] == 'any':
                    pass
                else:
                    continue
            else:
                continue
        pre_of = {}
        for e in p.calls():
            if e.pre and e.args and e.args[0][0] == 'mref':
                pre_of[e.site] = e.pre[0]
        n_true += 1
        r = strip(p.ret)
        decided = None
        if r[0] == 'call' and r[1].split('::')[-1] == 'any':
            decided = ('any', r)
        else:
            br = p.branches()
            for e in reversed(br):
                t = strip(e.term)
                if t[0] == 'discr' and strip(t[1])[0] == 'call' and strip(t[1])[1].split('::')[-1] == 'cmp':
                    decided = ('cmp', strip(t[1]))
                    break
                if t[0] == 'call' and t[1].split('::')[-1] in ('eq', 'any', 'contains'):
                    decided = (t[1].split('::')[-1], t)
                    break
                if t[0] == 'bin' and t[1] == 'Eq':
                    decided = ('Eq', t)
                    break
        if decided is None:
            verdicts.setdefault('unknown', []).append('a true answer without a recognisable deciding test')
            continue
        kind, t = decided
        if kind in ('cmp', 'eq'):
            pa, pb = prov(t[2][0], pre_of), prov(t[2][1], pre_of)
            key = 'cmp(%s, %s)' % (sorted(pa), sorted(pb))
        elif kind == 'Eq':
            pa, pb = prov(t[2], pre_of), prov(t[3], pre_of)
            key = 'Eq(%s, %s)' % (sorted(pa), sorted(pb))
        elif kind == 'contains':
            pa, pb = prov(t[2][0], pre_of), prov(t[2][1], pre_of)
            key = 'contains(%s, %s)' % (sorted(pa), sorted(pb))
        else:   # any(iter, closure { capture.binary_search(x) / contains })
            it = t[2][0]
            ev = next((e for e in p.calls() if e.site == t[3]), None)
            if it[0] == 'mref' and ev is not None and ev.pre:
                it = ev.pre[0]
            pa = prov(it, pre_of)
            clo = strip(t[2][1])
            pb = set()
            if clo[0] == 'closure':
                for c in clo[2]:
                    pb |= prov(c, pre_of)
                cb = facts.bodies.get(clo[1])
                member = False
                if cb is not None:
                    for q in SymEx(cb).run():
                        for e in q.calls():
                            if e.name.split('::')[-1] in ('binary_search', 'contains', 'eq', 'binary_search_by'):
                                member = True
                if not member:
                    verdicts.setdefault('unknown', []).append('any(..) with a closure that is not a membership test')
                    continue
            key = 'any(%s) over membership in %s' % (sorted(pa), sorted(pb))
        good = pa and pb and len(pa) == 1 and len(pb) == 1 and pa != pb and (pa | pb) == {'arg2', 'arg3'}
        if not pa or not pb:
            verdicts.setdefault('unknown', []).append('%s: operand without column provenance' % key)
        elif good:
            verdicts.setdefault('good', []).append(key)
        else:
            verdicts.setdefault('bad', []).append(key)
    inst = 'decomp::col_intersects|a true answer compares a row index of column j1 with one of column j2'
    if verdicts.get('bad'):
        rep.violation('E31.P2-relates-both-columns', inst,
                      'col_intersects can answer true from a test whose two operands come from the same column (%s): any non-empty column then "intersects" the other, independent summands are merged into one block (the block sum still reconstructs the matrix, so nothing else notices)' %
                      sorted(set(verdicts['bad']))[:2], where=b.where())
    elif verdicts.get('unknown') or not verdicts.get('good'):
        rep.indet('E31: col_intersects outside the recognised fragment: %s' % sorted(set(verdicts.get('unknown', ['no true path'])))[:2])
    else:
        rep.ok('E31.P2-relates-both-columns', inst, '%d true paths, all decided by %s' % (n_true, sorted(set(verdicts['good']))))
    rep.floor('E31 true-answering paths of col_intersects', n_true, 1)
