"""E31 - the column-intersection test of dir_sum_decomp relates the two columns it is given (C12, block splitting).

group_cols unites columns i and j exactly when col_intersects(a, j1, j2) answers true. Blocks are the connected components
only if that answer means "some row index of column j1 equals some row index of column j2". Structurally: on every
path that answers true, the deciding test - an `== Equal` comparison or a membership test (`any` + binary_search /
contains) - takes one operand whose provenance is column j1 and the other whose provenance is column j2 (provenance:
the `col(inner(a), j)` an iterator / slice was created from, followed through `next(&mut it)` and closure captures).
A test that compares a column with itself answers true for any non-empty column and merges independent summands - silently:
the block sum still reconstructs the matrix. NOT decided: that every common row is found (completeness of the merge scan).
"""
import re
from symex import SymEx, show, strip, subterms

FN = 'yui_matrix::sparse::decomp::col_intersects'


def sk(t):
    return re.sub(r'#(?:i\d+:)?\d+\.\d+', '', show(t, -1000))


def prov(t, pre_of, depth=0):
    """{'arg2', 'arg3'} provenance of a value: which column argument it was read from"""
    out = set()
    if depth > 6:
        return out
    for x in subterms(t):
        if not isinstance(x, tuple) or not x:
            continue
        if x[0] == 'call' and x[1].split('::')[-1] == 'col' and len(x[2]) == 2:
            j = strip(x[2][1])
            if j[0] == 'arg':
                out.add('arg%d' % j[1])
        if x[0] == 'call' and x[1].endswith('::next') and x[3] in pre_of:
            out |= prov(pre_of[x[3]], pre_of, depth + 1)
    return out


def run(facts, rep):
    b = facts.bodies.get(FN)
    if b is None:
        rep.indet('E31: col_intersects not found')
        return
    rep.saw(b)
    n_true = 0
    verdicts = {}
    try:
        paths = SymEx(b, max_paths=40000).run()
    except Exception as e:
        rep.indet('E31: %s' % e)
        return
    for p in paths:
        if p.end != 'return' or sk(p.ret) not in ('1', 'true'):
            if p.end == 'return' and sk(p.ret) not in ('0', 'false'):
                # the answer is the value of a test
                r = strip(p.ret)
                if r[0] == 'call' and r[1].split('::')[-1] == 'any':
                    pass
                else:
                    continue
            else:
                continue
        pre_of = {}
        for e in p.calls():
            if e.pre and e.args and e.args[0][0] == 'mref':
                pre_of[e.site] = e.pre[0]
        n_true += 1
        r = strip(p.ret)
        decided = None
        if r[0] == 'call' and r[1].split('::')[-1] == 'any':
            decided = ('any', r)
        else:
            br = p.branches()
            for e in reversed(br):
                t = strip(e.term)
                if t[0] == 'discr' and strip(t[1])[0] == 'call' and strip(t[1])[1].split('::')[-1] == 'cmp':
                    decided = ('cmp', strip(t[1]))
                    break
                if t[0] == 'call' and t[1].split('::')[-1] in ('eq', 'any', 'contains'):
                    decided = (t[1].split('::')[-1], t)
                    break
                if t[0] == 'bin' and t[1] == 'Eq':
                    decided = ('Eq', t)
                    break
        if decided is None:
            verdicts.setdefault('unknown', []).append('a true answer without a recognisable deciding test')
            continue
        kind, t = decided
        if kind in ('cmp', 'eq'):
            pa, pb = prov(t[2][0], pre_of), prov(t[2][1], pre_of)
            key = 'cmp(%s, %s)' % (sorted(pa), sorted(pb))
        elif kind == 'Eq':
            pa, pb = prov(t[2], pre_of), prov(t[3], pre_of)
            key = 'Eq(%s, %s)' % (sorted(pa), sorted(pb))
        elif kind == 'contains':
            pa, pb = prov(t[2][0], pre_of), prov(t[2][1], pre_of)
            key = 'contains(%s, %s)' % (sorted(pa), sorted(pb))
        else:   # any(iter, closure { capture.binary_search(x) / contains })
            it = t[2][0]
            ev = next((e for e in p.calls() if e.site == t[3]), None)
            if it[0] == 'mref' and ev is not None and ev.pre:
                it = ev.pre[0]
            pa = prov(it, pre_of)
            clo = strip(t[2][1])
            pb = set()
            if clo[0] == 'closure':
                for c in clo[2]:
                    pb |= prov(c, pre_of)
                cb = facts.bodies.get(clo[1])
                member = False
                if cb is not None:
                    for q in SymEx(cb).run():
                        for e in q.calls():
                            if e.name.split('::')[-1] in ('binary_search', 'contains', 'eq', 'binary_search_by'):
                                member = True
                if not member:
                    verdicts.setdefault('unknown', []).append('any(..) with a closure that is not a membership test')
                    continue
            key = 'any(%s) over membership in %s' % (sorted(pa), sorted(pb))
        good = pa and pb and len(pa) == 1 and len(pb) == 1 and pa != pb and (pa | pb) == {'arg2', 'arg3'}
        if not pa or not pb:
            verdicts.setdefault('unknown', []).append('%s: operand without column provenance' % key)
        elif good:
            verdicts.setdefault('good', []).append(key)
        else:
            verdicts.setdefault('bad', []).append(key)
    inst = 'decomp::col_intersects|a true answer compares a row index of column j1 with one of column j2'
    if verdicts.get('bad'):
        rep.violation('E31.P2-relates-both-columns', inst,
                      'col_intersects can answer true from a test whose two operands come from the same column (%s): any non-empty column then "intersects" the other, independent summands are merged into one block (the block sum still reconstructs the matrix, so nothing else notices)' %
                      sorted(set(verdicts['bad']))[:2], where=b.where())
    elif verdicts.get('unknown') or not verdicts.get('good'):
        rep.indet('E31: col_intersects outside the recognised fragment: %s' % sorted(set(verdicts.get('unknown', ['no true path'])))[:2])
    else:
        rep.ok('E31.P2-relates-both-columns', inst, '%d true paths, all decided by %s' % (n_true, sorted(set(verdicts['good']))))
    rep.floor('E31 true-answering paths of col_intersects', n_true, 1)


def check_triang_storage(facts, rep):
    """P3 (C12, "the triangular solvers return an exact solution for every valid input"): a valid triangular matrix may
    *store* zeros anywhere (is_triang and the debug preconditions look at values, not at the pattern), so "the diagonal
    entry of column j" is the stored entry with row index j - found by comparing indices - and never "the first / last
    stored entry of the column". The functions of yui_matrix::sparse::triang therefore see the matrix only through its
    (i, j, value) iterators (`iter`, `col_vec(j).iter()`); none of them reads the raw compressed storage (`inner()`,
    `data()`, `col(j)`, `row_indices()`, `values()`, `col_offsets()`, `disassemble()`), and collect_diag keeps an entry
    iff i == j."""
    import re
    from symex import SymEx, show, strip, apply_closure
    RAW = ('inner', 'data', 'col', 'row_indices', 'values', 'col_offsets', 'disassemble', 'csc_data', 'into_raw_data')
    n = 0
    hits = []
    for k, b in sorted(facts.bodies.items()):
        if not k.startswith('yui_matrix::sparse::triang::') or '::tests::' in k:
            continue
        n += 1
        rep.saw(b)
        for c in b.calls():
            g = (c.generic or '')
            last = g.split('::')[-1]
            if last in RAW and ('SpMat' in g or 'Csc' in g or 'CsLane' in g or 'CsMatrix' in g or 'cs::' in g):
                hits.append((k.split('::triang::')[-1], last, c.line))
    inst = 'sparse::triang|entries are reached through (i, j, value) iterators only'
    compares = False
    if hits:
        # raw access is wrong only as a way of finding entries *by position*: a function that compares the stored row
        # indices with something is doing its own (unread) search - not judged
        for k, b in facts.bodies.items():
            if k.startswith('yui_matrix::sparse::triang::') and k.split('::triang::')[-1].split('::')[0] == hits[0][0].split('::')[0]:
                try:
                    for p in SymEx(b, havoc_loops=True, max_paths=3000).run():
                        for c in p.branches():
                            t_ = re.sub(r'#(?:i\d+:)?\d+\.\d+', '', show(c.term, -1000))
                            if re.match(r'^(Eq|Ne|Lt|Le|Gt|Ge|eq|ne|cmp|lt|le|gt|ge)\(', t_) and re.search(r'row_indices\(|data\([^)]*\)\.1|\.row_idx|rows\[', t_):
                                compares = True
                except Exception:
                    compares = True
    if hits and compares:
        rep.indet('E31.P3: %s reads the compressed storage (`%s`) and compares row indices itself: not read' % hits[0][:2])
    elif hits:
        rep.violation('E31.P3-no-raw-storage', inst,
                      '%s reads the compressed storage of the matrix (`%s`, line %d): an entry is then identified by its position among the stored entries of a column, which is right only while no zero is stored outside the triangle - for such a (valid) input the solver takes a stored zero for the diagonal' % hits[0],
                      where='yui-matrix/src/sparse/triang.rs:%d' % hits[0][2])
    else:
        rep.ok('E31.P3-no-raw-storage', inst, '%d functions, no raw storage access' % n)
    rep.floor('E31.P3 functions of sparse::triang', n, 8)
    # collect_diag: Some(a) iff i == j
    cd = facts.bodies.get('yui_matrix::sparse::triang::collect_diag')
    if cd is None:
        rep.indet('E31.P3: collect_diag not found')
        return
    inst2 = 'collect_diag|keeps the stored entry (i, j, a) iff i == j'
    verdict = None
    for p in SymEx(cd, havoc_loops=True, max_paths=500).run():
        for e in p.calls():
            if e.name.split('::')[-1] == 'filter_map' and len(e.args) == 2 and strip(e.args[1])[0] == 'closure':
                rows = set()
                for q in apply_closure(e.args[1], [('item',)]) or []:
                    if q.end != 'return' or q.ret is None:
                        continue
                    conds = [(re.sub(r'#(?:i\d+:)?\d+\.\d+', '', show(c.term, -1000)), c.value != 0) for c in q.branches()]
                    r = strip(q.ret)
                    rows.add((tuple(conds), r[2] if r[0] == 'adt' else '?'))
                eq = {"Eq(('item',).0, ('item',).1)", "Eq(('item',).1, ('item',).0)"}
                if rows and all(len(c) == 1 and c[0][0] in eq for c, _ in rows) and {(c[0][1], v) for c, v in rows} == {(True, 'Some'), (False, 'None')}:
                    verdict = 'ok'
                else:
                    verdict = str(sorted(rows, key=str))[:160]
    if verdict is None:
        # the same selection as a loop: for (i, j, a) in a.iter() { if i != j { continue } diag.push(a) }
        seen_ = set()
        for p in SymEx(cd, havoc_loops=True, max_paths=500).run():
            if p.end != 'backedge':
                continue
            pushed = any(e.name.split('::')[-1] == 'push' and len(e.args) == 2 and re.search(r'\.Some\.0\.2$', re.sub(r'#(?:i\d+:)?\d+\.\d+', '', show(strip(e.args[1]), -1000))) for e in p.calls())
            eqs = []
            for c in p.branches():
                t_ = re.sub(r'#(?:i\d+:)?\d+\.\d+', '', show(c.term, -1000))
                m_ = re.match(r'^(Eq|Ne)\((next\(&mut _\d+\)\.Some\.0)\.([01]), (next\(&mut _\d+\)\.Some\.0)\.([01])\)$', t_)
                if m_ and m_.group(2) == m_.group(4) and {m_.group(3), m_.group(5)} == {'0', '1'}:
                    eqs.append((c.value != 0) == (m_.group(1) == 'Eq'))
            seen_.add((pushed, tuple(eqs)))
        if seen_ and seen_ == {(True, (True,)), (False, (False,))}:
            verdict = 'ok'
        elif seen_:
            verdict = 'loop: %s' % sorted(seen_)
    if verdict == 'ok':
        rep.ok('E31.P3-no-raw-storage', inst2, 'filter_map(|(i, j, a)| (i == j).then(a))')
    elif verdict is None and not hits:
        rep.indet('E31.P3: collect_diag outside the recognised fragment')
    elif verdict is not None and verdict != 'ok':
        rep.indet('E31.P3: collect_diag selects by %s' % verdict)
