#!/usr/bin/env python3
"""debug helper: pretty-print the MIR facts of bodies matching a regex"""
import sys, json, os
sys.path.insert(0, os.path.dirname(os.path.abspath(__file__)))
from core import *

def fmt_op(b, op):
    p = op_place(op)
    if p is not None:
        return ('move ' if 'move' in op else '') + place_str(b, p)
    c = op_const(op)
    if c:
        if 'fn' in c: return 'fn:' + (c['fn'].get('res') or c['fn']['def'])
        if 'val' in c: return 'const %s' % c['val']
        return 'const<%s>' % c.get('repr', c['ty'])[:40]
    return str(op)[:40]

def fmt_rv(b, rv):
    k = rv['k']
    if k == 'use': return fmt_op(b, rv['op'])
    if k == 'ref': return ('&mut ' if rv['mut'] else '&') + place_str(b, rv['place'])
    if k == 'bin': return '%s(%s, %s)' % (rv['op'], fmt_op(b, rv['a']), fmt_op(b, rv['b']))
    if k == 'un': return '%s(%s)' % (rv['op'], fmt_op(b, rv['a']))
    if k == 'cast': return '%s as %s [%s]' % (fmt_op(b, rv['op']), rv['ty'], rv['kind'])
    if k == 'agg': return '%s{%s}(%s)' % (rv.get('agg'), rv.get('adt') or rv.get('closure') or '', ', '.join(fmt_op(b, o) for o in rv['ops']))
    if k == 'discr': return 'discr(%s)' % place_str(b, rv['place'])
    return json.dumps(rv)[:80]

def dump(b, out=sys.stdout):
    print('==', b.defp, b.where(), 'ret', b.ret_ty, file=out)
    for i, l in enumerate(b.locals):
        print('   _%d: %s %s' % (i, l['ty'], l.get('name', '')), file=out)
    for i, blk in enumerate(b.blocks):
        print(' bb%d%s:' % (i, ' (cleanup)' if blk['cleanup'] else ''), file=out)
        for s in blk['stmts']:
            if s['k'] == 'assign':
                print('    %s = %s   // L%d' % (place_str(b, s['lhs']), fmt_rv(b, s['rv']), s['line']), file=out)
            elif s['k'] in ('live', 'dead'):
                pass
            else:
                print('    ', json.dumps(s)[:100], file=out)
        t = blk['term']
        if t['k'] == 'call':
            c = Call(b, i, t)
            print('    %s = CALL %s(%s) -> bb%s unwind %s  // L%d' % (place_str(b, t['dest']), c.callee if c.fn else fmt_op(b, t['func']), ', '.join(fmt_op(b, a) for a in t['args']), t.get('target'), t.get('unwind'), t['line']), file=out)
            if c.fn and not c.resolved: print('         (unresolved: trait %s self %s)' % (c.fn.get('trait'), c.fn.get('self_ty')), file=out)
        elif t['k'] == 'switch':
            print('    SWITCH %s %s else bb%d' % (fmt_op(b, t['discr']), t['targets'], t['otherwise']), file=out)
        elif t['k'] == 'assert':
            print('    ASSERT %s == %s [%s] -> bb%d' % (fmt_op(b, t['cond']), t['expected'], t['msg'], t['target']), file=out)
        elif t['k'] == 'drop':
            print('    DROP %s -> bb%d unwind %s' % (place_str(b, t['place']), t['target'], t.get('unwind')), file=out)
        else:
            print('    %s %s' % (t['k'].upper(), t.get('target', '')), file=out)

if __name__ == '__main__':
    d = sys.argv[1]; rx = sys.argv[2]
    f = Facts(d)
    for b in f.find(rx):
        dump(b)
