"""E12 / E13 - paired updates and their order in the tangle-complex builder.

  P1 (C06)  canonical cycles are transported *before* the complex is rewritten:
            TngComplex::deloop is called only from TngComplexBuilder::deloop, after a loop over
            all `elements` that calls BuildElem::deloop with the same key; TngComplex::eliminate is
            called only from TngComplexBuilder::eliminate, after eliminate_elements (which reads
            the edge that is about to be removed) - itself a loop over all elements calling
            BuildElem::eliminate(&self.complex, i, j). Rewriting first would make the cycle's
            transport read a removed edge or miss the rewrite.
  E13 (C01) the adjacency of the tangle complex is stored twice (out_edges map, in_edges set):
            every body mutates them in corresponding ways (insert/insert, remove/remove,
            clear/clear), on every path for the loop-free bodies; a half-inserted edge makes
            keys_into miss a predecessor during elimination.
"""
import re
from symex import SymEx, show, strip
from core import op_place
from e5_locks import resolve_place


def sk(t):
    return re.sub(r'#(?:i\d+:)?\d+\.\d+', '', show(t))


BUILDER = 'yui_kh::kh::internal::v2::builder::TngComplexBuilder::<R>::'
COMPLEX = 'yui_kh::kh::internal::v2::tng_complex::TngComplex::<R>::'
ELEM = 'yui_kh::kh::internal::v2::builder::BuildElem::<R>::'


def _callers(facts, target):
    out = set()
    for k, b in facts.bodies.items():
        for c in b.calls():
            if c.name == target:
                out.add(k)
    return out


def _elements_loop_then(facts, rep, wrapper, elem_fn, then_fn, rule, what):
    """in `wrapper`: a loop over (*self).elements calling elem_fn on each item, exhausted before then_fn is called"""
    b = facts.bodies.get(wrapper)
    inst = '%s|%s' % (wrapper, what)
    if b is None:
        rep.indet('%s: %s not found' % (rule, wrapper))
        return
    rep.saw(b)
    paths = SymEx(b, havoc_loops=True, max_paths=20000).run()
    loop_call = False
    then_ok = None
    foreach_sites = set()
    inverted = False
    for p in paths:
        evs = p.events
        for i, e in enumerate(evs):
            if e.kind != 'call':
                continue
            if e.name == elem_fn:
                recv = sk(e.args[0])
                if 'next(' in recv and 'Some.0' in recv:
                    loop_call = True
            if e.name.split('::')[-1] == 'for_each' and len(e.args) == 2 and 'elements' in sk(e.pre[0] if e.pre and e.args[0][0] == 'mref' else e.args[0]):
                # self.elements.iter_mut().for_each(|e| e.f(..)): the closure body is the loop body
                from symex import apply_closure
                for q in apply_closure(e.args[1], [('item',)]) or []:
                    if any(c.name == elem_fn and "('item',)" in sk(c.args[0]) for c in q.calls()):
                        loop_call = True
                        foreach_sites.add(e.site)
            if then_fn is not None and e.name == then_fn:
                # before it: the elements iterator was created and ran dry (None branch), or a callee did the loop
                before = evs[:i]
                it = any(x.kind == 'call' and ('iter_mut' in x.name or 'into_iter' in x.name) and 'elements' in ' '.join(sk(a) for a in x.args) for x in before)
                dry = any(x.kind == 'branch' and sk(x.term).startswith('discr(next(') and x.value == 0 for x in before)
                ok = (it and dry) or any(x.kind == 'call' and x.site in foreach_sites for x in before)
                after = evs[i + 1:]
                if not ok and any(x.kind == 'call' and (x.name == elem_fn or x.site in foreach_sites) for x in after):
                    inverted = True
                then_ok = ok if then_ok is None else (then_ok and ok)
    reaches = elem_fn in facts.reach(wrapper)
    if then_fn is None:
        if loop_call:
            rep.ok(rule, inst, 'for e in elements { e.%s(..) }' % elem_fn.split('::')[-1])
        elif not reaches:
            rep.violation(rule, inst, '%s no longer applies %s to every element' % (wrapper, elem_fn), where=b.where())
        else:
            rep.indet('%s: the loop of %s over `elements` was not recognised' % (rule, wrapper))
        return
    if loop_call and then_ok:
        rep.ok(rule, inst, 'all elements transported, then %s' % then_fn.split('::')[-1])
    elif reaches and not inverted:
        rep.indet('%s: %s outside the recognised fragment (loop call: %s, order: %s)' % (rule, wrapper, loop_call, then_ok))
    else:
        rep.violation(rule, inst,
                      '%s: %s is not preceded on every path by the exhausted loop over `elements` calling %s (loop call: %s, order: %s): '
                      'the cycles would be transported against an already rewritten complex' % (wrapper, then_fn, elem_fn, loop_call, then_ok),
                      where=b.where())


def check_cycle_transport(facts, rep):
    # who may call
    for target, owner in ((COMPLEX + 'deloop', BUILDER + 'deloop'), (COMPLEX + 'eliminate', BUILDER + 'eliminate')):
        if target not in facts.bodies:
            rep.indet('E12: %s not found' % target)
            continue
        callers = _callers(facts, target)
        # a private step of the owner (called from nowhere else) is the owner
        steps = {owner}
        ch = True
        while ch:
            ch = False
            for c_ in list(callers):
                cb_ = facts.bodies.get(c_)
                if c_ not in steps and cb_ is not None and cb_.kind != 'Closure' and cb_.d.get('vis', 'pub') != 'pub':
                    cc_ = _callers(facts, c_)
                    if cc_ and cc_ <= steps:
                        steps.add(c_)
                        ch = True
        inst = '%s|called only from %s' % (target.split('::', 4)[-1], owner.split('::')[-2] + '::' + owner.split('::')[-1])
        if callers and callers <= steps:
            rep.ok('E12.P1-who-may-call', inst, 'single caller')
        else:
            rep.violation('E12.P1-who-may-call', inst,
                          '%s is called from %s; it must only be reached through %s, which transports the canonical cycles first' % (target, sorted(callers), owner),
                          where=facts.bodies[target].where())
    _elements_loop_then(facts, rep, BUILDER + 'deloop', ELEM + 'deloop', COMPLEX + 'deloop', 'E12.P1-cycles-before-rewrite', 'elements delooped before the complex')
    # eliminate: eliminate_elements dominates complex.eliminate
    b = facts.bodies.get(BUILDER + 'eliminate')
    inst = '%s|eliminate_elements before complex.eliminate' % (BUILDER + 'eliminate')
    if b is None:
        rep.indet('E12: %s not found' % (BUILDER + 'eliminate'))
    else:
        rep.saw(b)
        ok = None
        for p in SymEx(b, max_paths=20000).run():
            names = [(e.name, e) for e in p.calls() if e.name in (BUILDER + 'eliminate_elements', COMPLEX + 'eliminate')]
            seq = [n for n, _ in names]
            if COMPLEX + 'eliminate' in seq:
                good = seq == [BUILDER + 'eliminate_elements', COMPLEX + 'eliminate']
                if good:
                    a1, a2 = names[0][1].args, names[1][1].args
                    good = [strip(x) for x in a1[1:]] == [strip(x) for x in a2[1:]] == [('arg', 2), ('arg', 3)]
                ok = good if ok is None else (ok and good)
        wrong_order = False
        for p in SymEx(b, max_paths=20000).run():
            seq = [e.name for e in p.calls() if e.name in (BUILDER + 'eliminate_elements', COMPLEX + 'eliminate')]
            if seq[:1] == [COMPLEX + 'eliminate']:
                wrong_order = True
        if ok:
            rep.ok('E12.P1-cycles-before-rewrite', inst, 'eliminate_elements(i, j); complex.eliminate(i, j)')
        elif ok is None or (not wrong_order and (BUILDER + 'eliminate_elements') in facts.reach(BUILDER + 'eliminate') and
                            not any([n for n in [e.name for e in p.calls()] if n == BUILDER + 'eliminate_elements'] for p in SymEx(b, max_paths=20000).run())):
            rep.indet('E12.P1: %s outside the recognised fragment' % (BUILDER + 'eliminate'))
        else:
            rep.violation('E12.P1-cycles-before-rewrite', inst,
                          '%s does not call eliminate_elements(i, j) before complex.eliminate(i, j) with the same keys on every path' % (BUILDER + 'eliminate'),
                          where=b.where())
    _elements_loop_then(facts, rep, BUILDER + 'eliminate_elements', ELEM + 'eliminate', None, 'E12.P1-cycles-before-rewrite', 'every element eliminated')


MUT_KINDS = {'insert': 'insert', 'remove': 'remove', 'clear': 'clear', 'retain': 'remove', 'extend': 'insert', 'drain': 'clear'}


def check_adjacency(facts, rep):
    """E13"""
    mod = 'yui_kh::kh::internal::v2::tng_complex::'
    bodies = [b for b in facts.bodies.values() if b.defp.startswith(mod)]
    n = 0
    rcg = facts.rev_callgraph()
    own = {}

    def kinds_of(b):
        if b.defp in own:
            return own[b.defp]
        kinds = {'out_edges': [], 'in_edges': []}
        for c in b.calls():
            m = (c.generic or '').split('::')[-1]
            if m not in MUT_KINDS or not c.args:
                continue
            p = op_place(c.args[0])
            if p is None or not b.local_ty(p['l']).startswith('&mut '):
                continue
            r = resolve_place(b, p, 0, True)
            for fld in kinds:
                if re.search(r'\.%s$' % fld, r):
                    kinds[fld].append((MUT_KINDS[m], c))
        for bb, j, s in b.assigns():
            f = [e.get('n') for e in s['lhs']['p'] if isinstance(e, dict)]
            for fld in kinds:
                if f and f[-1] == fld and b.name not in ('init', 'new'):
                    kinds[fld].append(('assign', None))
        own[b.defp] = kinds
        return kinds
    # a private helper that touches one of the two copies and is only called from inside the module is a step of its
    # callers: its mutations are counted there (the pairing obligation is the caller's)
    by_def = {b.defp: b for b in bodies}
    steps = set()
    for b in bodies:
        k_ = kinds_of(b)
        if b.kind != 'Closure' and b.d.get('vis', 'pub') != 'pub' and (k_['out_edges'] or k_['in_edges']) and \
                sorted(x for x, _ in k_['out_edges']) != sorted(x for x, _ in k_['in_edges']):
            callers = rcg.get(b.defp, ())
            if callers and all((facts.bodies[c].d.get('root') or c) in by_def or c in by_def for c in callers if c in facts.bodies):
                steps.add(b.defp)
    for b in sorted(bodies, key=lambda x: x.defp):
        if b.defp in steps:
            rep.ok('E13.symmetric-adjacency', '%s|private step' % b.defp, 'mutates one copy; counted in its callers %s' % sorted(x.split('::')[-1] for x in rcg.get(b.defp, ()))[:3])
            continue
        kinds = {'out_edges': list(kinds_of(b)['out_edges']), 'in_edges': list(kinds_of(b)['in_edges'])}
        has_step_call = False
        step_names = []
        for c in b.calls():
            if (c.callee or '') in steps:
                has_step_call = True
                step_names.append(c.callee.split('::')[-1])
                for fld in kinds:
                    kinds[fld] += own[c.callee][fld]
        for c in []:
            m = (c.generic or '').split('::')[-1]
            if m not in MUT_KINDS or not c.args:
                continue
            p = op_place(c.args[0])
            if p is None or not b.local_ty(p['l']).startswith('&mut '):
                continue
            r = resolve_place(b, p, 0, True)
            for fld in kinds:
                if re.search(r'\.%s$' % fld, r):
                    kinds[fld].append((MUT_KINDS[m], c))
        for bb, j, s in b.assigns():
            f = [e.get('n') for e in s['lhs']['p'] if isinstance(e, dict)]
            for fld in kinds:
                if f and f[-1] == fld and b.name not in ('init', 'new'):
                    kinds[fld].append(('assign', None))
        if not kinds['out_edges'] and not kinds['in_edges']:
            continue
        n += 1
        rep.saw(b)
        ko = sorted(k for k, _ in kinds['out_edges'])
        ki = sorted(k for k, _ in kinds['in_edges'])
        inst = '%s|out_edges and in_edges mutated alike%s' % (b.defp, (' (with its private steps %s)' % sorted(set(step_names))) if step_names else '')
        if ko == ki:
            # loop-free bodies: also per path
            ok = True
            if not has_step_call and not any(True for _ in _loops(b)):
                for p in SymEx(b, inline=False).run():
                    if p.end != 'return':
                        continue
                    co = ci = 0
                    for e in p.calls():
                        m = (e.fn or {}).get('def', '').split('::')[-1]
                        if m in MUT_KINDS and e.args and e.args[0][0] == 'mref':
                            s_ = sk(e.args[0])
                            co += bool(re.search(r'\.out_edges\)*$', s_))
                            ci += bool(re.search(r'\.in_edges\)*$', s_))
                    if co != ci:
                        ok = False
            if ok:
                rep.ok('E13.symmetric-adjacency', inst, 'out: %s, in: %s' % (ko, ki))
                continue
        where = (kinds['out_edges'] + kinds['in_edges'])[0][1]
        rep.violation('E13.symmetric-adjacency', inst,
                      '%s mutates out_edges with %s but in_edges with %s: the two copies of the adjacency relation drift apart' % (b.defp, ko, ki),
                      where=where.where() if where else b.where())
    rep.floor('E13 bodies mutating the adjacency', n, 4)


def _loops(b):
    dom = b.dominators()
    succ = b.normal_succ()
    for u in dom:
        for v in succ[u]:
            if v in dom[u]:
                yield (u, v)


def check_canon_cycles(facts, rep):
    """P3 (C06, "canonical cycles as dotted cups on coloured Seifert circles"): the Lee / Bar-Natan canonical cycle
    alpha(o) puts exactly one dot on the cup of every Seifert circle - X when the circle's colour agrees with o, Y
    otherwise - for o = true (and o = false when unreduced); the colouring is the bipartite colouring of the Seifert graph:
    the circle through the base point gets A, a circle first reached from c1 gets other(colour of c1), and `other` exchanges
    A and B. Swapped dots exchange alpha and its conjugate (invisible to ss over a symmetric pair), a non-alternating
    colouring gives a chain that is not a cycle for h, t != 0."""
    import re
    from symex import SymEx, show
    B = 'yui_kh::kh::internal::v2::builder::TngComplexBuilder::<R>::make_canon_cycles'
    outer = facts.bodies.get(B)
    col = [b for k, b in facts.bodies.items() if k.endswith('LinkExt>::colored_seifert_circles')]
    oth = [b for k, b in facts.bodies.items() if k.endswith('ext::link::Color::other')]
    if not (outer and len(col) == 1 and len(oth) == 1):
        rep.indet('E12.P3: make_canon_cycles / colored_seifert_circles / Color::other not found')
        return
    col, oth = col[0], oth[0]
    for b in (outer, col, oth):
        rep.saw(b)

    def dk(t):
        return re.sub(r'&mut _\d+', 'IT', re.sub(r'\^_ref__', '^', re.sub(r'#(?:i\d+:)?\d+\.\d+', '', show(t, -1000)))).replace('&', '').replace('*', '')
    # dots: the closure that turns a coloured circle into a dotted cup, wherever it is created (in make_canon_cycles or in
    # one of its closures), applied to a symbolic circle
    from symex import apply_closure, strip
    table = {}
    cands = [outer] + [b for k, b in facts.bodies.items() if k.startswith(B + '::{closure')]
    found = None
    for cb in cands:
        try:
            ps = SymEx(cb, havoc_loops=True, max_paths=5000).run()
        except Exception:
            continue
        for p in ps:
            for e in p.calls():
                if e.name.split('::')[-1] == 'map' and len(e.args) == 2 and strip(e.args[1])[0] == 'closure' and 'circles' in dk(e.args[0]):
                    qs = apply_closure(e.args[1], [('item',)]) or []
                    if any(c.name.split('::')[-1] == 'add_dot' for q in qs for c in q.calls()):
                        found = (cb, qs)
            if found:
                break
        if found:
            break
    if not found:
        rep.indet('E12.P3: the closure that dots the cups of the Seifert circles was not found')
        return
    where_inner = found[0].where()
    for q in found[1]:
        if q.end != 'return':
            continue
        agree = None
        for e in q.branches():
            m = re.match(r"(Eq|Ne)\((?:is_a\(\('item',\)\.1\), (.+)|(.+), is_a\(\('item',\)\.1\))\)$", dk(e.term))
            if m:
                agree = (m.group(1) == 'Eq') == (e.value != 0)
        dots = [dk(e.args[1]) for e in q.calls() if e.name.split('::')[-1] == 'add_dot' and len(e.args) == 2]
        cups = [dk(e.args[0]).replace("('item',)", 'ITEM') for e in q.calls() if e.name.split('::')[-1] == 'cup']
        table[agree] = (tuple(dots), tuple(cups))
    inst = 'make_canon_cycles|one dot per Seifert circle: X iff colour agrees with the orientation bit'
    want = {True: (('Dot::X{}',), ('from(clone(ITEM.0))',)), False: (('Dot::Y{}',), ('from(clone(ITEM.0))',))}
    if table == want:
        rep.ok('E12.P3-canon-cycles', inst, 'agree -> X, differ -> Y, on the cup of the circle')
    elif set(table) == {True, False} and all(len(v[0]) <= 2 and all(d in ('Dot::X{}', 'Dot::Y{}', 'Dot::None{}') for d in v[0]) for v in table.values()):
        rep.violation('E12.P3-canon-cycles', inst, 'the dots placed on a Seifert circle are %s when its colour agrees with o and %s otherwise; expected exactly one X resp. one Y' % (table[True][0], table[False][0]), where=where_inner)
    else:
        rep.indet('E12.P3: dot assignment outside the recognised fragment: %s' % table)
    # orientations: the list of bits the cycles are built for, per presence of a base point
    oris = set()
    for p in SymEx(outer, havoc_loops=True, max_paths=5000).run():
        if p.end != 'return':
            continue
        red = None
        for e in p.branches():
            if dk(e.term) == 'is_some(arg2)':
                red = e.value != 0
            elif dk(e.term) == 'discr(arg2)':
                red = e.value == 1
            elif dk(e.term) == 'is_none(arg2)':
                red = e.value == 0
        lists = set()
        for e in p.events:
            texts = []
            if e.kind == 'write':
                texts.append(dk(e.term))
            elif e.kind == 'call':
                texts += [dk(a) for a in e.args]
            for t_ in texts:
                for m in re.finditer(r'\[([01](?:, [01])*)\]', t_):
                    lists.add('[%s]' % m.group(1))
        oris.add((red, tuple(sorted(lists))))
    inst = 'make_canon_cycles|orientations: [true] reduced, [true, false] unreduced'
    if oris == {(True, ('[1]',)), (False, ('[1, 0]',))}:
        rep.ok('E12.P3-canon-cycles', inst, 'alpha only / alpha and its conjugate')
    else:
        rep.indet('E12.P3: orientation list outside the recognised fragment: %s' % sorted(oris, key=str))
    # colouring
    rr = {(dk(p.ret), tuple((dk(e.term), e.value) for e in p.branches())) for p in SymEx(oth).run() if p.end == 'return'}
    inst = 'Color::other|exchanges A and B'
    if rr == {('Color::B{}', (('discr(arg1)', 0),)), ('Color::A{}', (('discr(arg1)', 1),))}:
        rep.ok('E12.P3-canon-cycles', inst, 'A <-> B')
    else:
        # by value: fold other() at A and at B
        from dtree import DTree, Stuck
        dt_ = DTree(facts)
        got_ = {}
        try:
            for nm_, d_ in (('A', 0), ('B', 1)):
                def atom(t, ev, nm_=nm_, d_=d_):
                    if t[0] == 'discr' and strip(t[1]) == ('arg', 1):
                        return (d_,)
                    if t[0] == 'call' and t[1].split('::')[-1] in ('eq', 'ne', 'is_a', 'is_b') and strip(t[2][0]) == ('arg', 1):
                        n_ = t[1].split('::')[-1]
                        if n_ == 'is_a':
                            return (int(nm_ == 'A'),)
                        if n_ == 'is_b':
                            return (int(nm_ == 'B'),)
                        o_ = strip(t[2][1])
                        if o_[0] == 'adt' and o_[2] in ('A', 'B'):
                            return (int((o_[2] == nm_) == (n_ == 'eq')),)
                    return None
                v_, _ = dt_.decide(oth.defp, {1: 'SELF'}, atom)
                got_[nm_] = v_.get('<variant>') if isinstance(v_, dict) else v_
        except (Stuck, KeyError, TypeError) as ex:
            rep.indet('E12.P3: Color::other outside the recognised fragment: %s' % str(ex)[:100])
            got_ = None
        if got_ == {'A': 'B', 'B': 'A'}:
            rep.ok('E12.P3-canon-cycles', inst, 'A <-> B (by value)')
        elif got_ is not None:
            rep.violation('E12.P3-canon-cycles', inst, 'Color::other maps %s' % got_, where=oth.where())
    start = None
    step = set()
    base_cl = None

    def norm(x):
        x = re.sub(r'loop\w+_\d+', 'COLORS', x)
        x = re.sub(r'remove\(IT, 0\)|pop_front\(IT\)\.Some\.0|pop\(IT\)\.Some\.0', 'DEQ', x)
        x = re.sub(r'unwrap\(find_position\(IT, closure<[^>]*>\)\)\.0|unwrap\(position\(IT, closure<[^>]*>\)\)', 'START', x)
        return x
    from symex import apply_closure, strip
    for p in SymEx(col, havoc_loops=True, max_paths=20000).run():
        for e in p.events:
            if e.kind == 'write' and e.lv:
                lv = dk(('mref', e.lv))
                m = re.search(r'index_mut\(IT, (unwrap\(find_position\(IT, closure<[^>]*>\)\)\.0|unwrap\(position\(IT, closure<[^>]*>\)\))\)', lv)
                if m:
                    start = dk(e.term)
                elif 'index_mut(IT, next(IT).Some.0)' in lv:
                    step.add(norm(dk(e.term)))
        for e in p.calls():
            if e.name.split('::')[-1] in ('find_position', 'position') and len(e.args) == 2 and strip(e.args[1])[0] == 'closure':
                rr = sorted({dk(q.ret).replace("('item',)", 'ITEM') for q in apply_closure(e.args[1], [('item',)]) or [] if q.end == 'return'})
                if rr and 'contains(' in rr[0]:
                    base_cl = [re.sub(r'\(\(ITEM\)\)|\(ITEM\)', '(ITEM)', x).replace('arg1.^base', 'BASE').replace('arg3', 'BASE') for x in rr]
    inst = 'colored_seifert_circles|base circle A, neighbours get the other colour'
    base_ok = base_cl is not None and len(base_cl) == 1 and re.match(r'contains\(deref\(edges\(ITEM\)\), (BASE|arg2)\)$', base_cl[0]) is not None
    if start == 'Color::A{}' and step == {'other(index(COLORS, DEQ))'} and base_ok:
        rep.ok('E12.P3-canon-cycles', inst, 'colors[i2] = colors[i1].other(); start = circle containing the base point')
    elif step and all(re.match(r'(other\()?(index\(COLORS, (DEQ|START|next\(IT\)\.Some\.0)\)|Color::[AB]\{\})\)?$', s_) for s_ in step) and step != {'other(index(COLORS, DEQ))'}:
        rep.violation('E12.P3-canon-cycles', inst, 'a newly reached Seifert circle is coloured %s instead of other(colour of the circle it was reached from)' % sorted(step), where=col.where())
    else:
        rep.indet('E12.P3: colouring outside the recognised fragment: start %s, step %s, base %s' % (start, sorted(step), base_cl))
