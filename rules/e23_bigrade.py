"""E23 - the bigraded table is a partition of the generators of the total homology / complex by q-degree (C03).

The two library routes to a bigraded table are (a) KhHomology::into_bigraded: split the generators of each H_i by the
q-degree of the generator (collect_gen_info) and (b) KhComplex::into_bigraded: split the generators of each C_i by
q-degree (gen_grid) and take homology piecewise. For the two to agree bidegree by bidegree, and for the ranks / torsion
of the pieces to add up to the total, the splitting must be a partition:
  G1  collect_gen_info visits k = 0 .. rank + #tors of every H_i exactly once; generator k is filed under the single
      key (i, q_deg(gen k)); it counts as free iff k < rank, otherwise contributes tors[k - rank]; its index k is
      recorded in both cases (the coordinate sub-map of the piece);
  G2  KhHomology::into_bigraded builds the piece (i, j) from the table entry of the *same* key: (rank, tors, indices) in
      that order, generators and coordinate map of H_i with i the first key component; a missing key is the zero summand;
  G3  range_of is (min, max) of the keys (so no populated bidegree falls outside the generated support);
  G4  gen_grid puts x in piece (i, j) iff x is a raw generator of C_i and q_deg(x) == j;
  G5  the support of gen_grid is h_range x q_range with h_range = range_of(support) and q_range = range_of of the
      q-degrees of *all* generators of *all* supported summands (a range taken from a subset of the summands lets
      whole q-rows vanish without any panic: the differential preserves q).
The unit tests compare both routes on a few knots at (h, t) = 0; a generator dropped or double-filed in a bidegree that
those knots do not populate is invisible. NOT decided: that generators are q-homogeneous, the universal-coefficient
arithmetic between the rings (run-time values), the F2 reduced/unreduced relation.
"""
import re
from symex import SymEx, show, strip, subterms, find_loops
from dtree import DTree, Stuck

CGI = 'yui_kh::misc::collect_gen_info'
RNG = 'yui_kh::misc::range_of'
HB = 'yui_kh::kh::homology::KhHomology::<R>::into_bigraded'
GG = 'yui_kh::kh::complex::KhComplex::<R>::gen_grid'


def sk(t):
    return re.sub(r'#(?:i\d+:)?\d+\.\d+', '', show(t, -1000))


def lvs(lv):
    """full-depth text of an lvalue ((base, path))"""
    base, path = lv
    if base[0] == 'ptr':
        return '&mut *' + sk(base[1]) + ''.join('.' + str(x) for x in path)
    return sk(('mref', lv))


def argstr(a):
    a = strip(a) if a and a[0] != 'mref' else a
    if a and a[0] == 'mref':
        return lvs(a[1])
    return sk(a)


def canon_iters(strings):
    """rename `&mut _N` iterator locals in order of first appearance -> IT1, IT2 ..."""
    names = {}

    def sub(m):
        return names.setdefault(m.group(0), 'IT%d' % (len(names) + 1))
    return [re.sub(r'&mut _\d+', sub, s) for s in strings], names


def closures_of(facts, owner):
    return {k: b for k, b in facts.bodies.items() if k.startswith(owner + '::{closure')}


def run(facts, rep, parts=('G1', 'G2', 'G3', 'G4', 'G5')):
    if 'G1' in parts:
        _g12(facts, rep)
    if 'G3' in parts:
        _g34(facts, rep)


def _g12(facts, rep):
    cg = facts.bodies.get(CGI)
    if cg is None:
        rep.indet('E23: collect_gen_info not found')
        return
    rep.saw(cg)

    def nk(t):
        x = lvs(t[1]) if (t and t[0] == 'mref') else sk(t)
        return re.sub(r'&mut _\d+', 'IT', x).replace('&mut ', '').replace('&', '').replace('*', '')
    try:
        paths = SymEx(cg, havoc_loops=True, max_paths=20000).run()
    except Exception as e:
        rep.indet('E23.G1: collect_gen_info: %s' % e)
        return
    # source of every loop iterator: the value the iterator local held on entry to its loop
    src_of = {}
    for p in paths:
        for (fid, bb, l), v in p.state.loop_entry.items():
            if fid == 0 and strip(v)[0] != 'loopvar':
                src_of.setdefault(l, set()).add(nk(v))
    probs, unknown = [], []
    domains = {}

    def it_local(t):
        """next(&mut _L).Some.0 -> L"""
        t = strip(t)
        if t[0] == 'field' and t[2] == 'Some.0' and t[1][0] == 'call' and t[1][1].endswith('Iterator::next') and t[1][2][0][0] == 'mref' and t[1][2][0][1][0][0] == 'local':
            return t[1][2][0][1][0][1]
        return None
    for p in paths:
        ents = [e for e in p.calls() if e.name.split('::')[-1] == 'entry' and len(e.args) == 2]
        if not ents:
            continue
        if len(ents) != 1:
            unknown.append('a generator touches %d table entries' % len(ents))
            continue
        key = strip(ents[0].args[1])
        if not (key[0] == 'adt' and key[2] == 'isize2' and len(key[4]) == 2):
            unknown.append('the table key is %s' % nk(key)[:80])
            continue
        I, Q = key[4]
        q = strip(Q)
        g = strip(q[2][0]) if q[0] == 'call' and q[1].split('::')[-1] == 'q_deg' and len(q[2]) == 1 else None
        if g is None or not (g[0] == 'call' and g[1].split('::')[-1] == 'gen' and len(g[2]) == 2):
            unknown.append('the q-coordinate of the key is %s' % nk(Q)[:80])
            continue
        Hs, Ks = nk(g[2][0]), nk(g[2][1])
        if not (Hs.endswith('.Some.0.1') and nk(I) == Hs[:-1] + '0'):
            probs.append('generator %s of summand %s is filed under the homological degree %s' % (Ks, Hs, nk(I))) if re.match(r'next\(IT\)\.Some\.0\.[01]$', nk(I)) else unknown.append('key degree %s for summand %s' % (nk(I), Hs))
            continue
        # the index k: which loop produces it, over which source
        kt = strip(g[2][1])
        comp = None
        L = it_local(kt)
        if L is None and kt[0] == 'field' and kt[2] in ('0', '1'):
            L, comp = it_local(kt[1]), kt[2]
        RK, TL = 'rank(%s)' % Hs, 'len(tors(%s))' % Hs
        item_t = None
        if L is None and kt[0] == 'field' and kt[2] == '0' and kt[1][0] == 'bin' and kt[1][1] == 'AddWithOverflow':
            # k = rank + j with (j, a) from tors.iter().enumerate()
            for x_, y_ in ((kt[1][2], kt[1][3]), (kt[1][3], kt[1][2])):
                y_ = strip(y_)
                if nk(x_) == RK and y_[0] == 'field' and y_[2] == '0' and it_local(y_[1]) is not None:
                    L, comp, item_t = it_local(y_[1]), 'enum', nk(y_[1])
        srcs = src_of.get(L, set()) if L is not None else set()
        dom = None
        if srcs == {'into_iter(Range::Range{start: 0, end: AddWithOverflow(%s, %s).0})' % (RK, TL)} and comp is None:
            dom = 'unified'
        elif srcs == {'into_iter(Range::Range{start: 0, end: %s})' % RK} and comp is None:
            dom = 'free'
        elif comp == '0' and srcs in ({'into_iter(zip(RangeFrom::RangeFrom{start: %s}, iter(tors(%s))))' % (RK, Hs)}, {'into_iter(zip(RangeFrom::RangeFrom{start: %s}, iter(deref(tors(%s)))))' % (RK, Hs)}):
            dom = 'tors'
        elif comp == 'enum' and srcs in ({'into_iter(enumerate(iter(tors(%s))))' % Hs}, {'into_iter(enumerate(iter(deref(tors(%s)))))' % Hs}):
            dom = 'tors'
        elif len(srcs) == 1 and re.match(r'into_iter\(Range::Range\{start: \d+, end: (AddWithOverflow|SubWithOverflow|rank|len|tors|next|IT|Some|[0-9]|[()., ])*\}\)$', next(iter(srcs))) and comp is None:
            probs.append('generators are enumerated over %s, expected 0 .. rank + #tors' % next(iter(srcs))[10:-1])
            continue
        else:
            unknown.append('generator index %s ranges over %s' % (Ks, sorted(srcs)))
            continue
        # what the path does to the entry
        E = None
        for e in p.calls():
            if e.name.split('::')[-1] in ('or_insert_with', 'or_default', 'or_insert') and e.args and strip(e.args[0])[0] == 'call' and strip(e.args[0])[3] == ents[0].site:
                E = ('call', e.name, e.args, e.site)
        if E is None:
            unknown.append('the entry is not obtained through or_insert_with / or_default')
            continue
        Es = nk(E)
        pushes = [(nk(e.args[0]), nk(e.args[1])) for e in p.calls() if e.name.split('::')[-1] == 'push' and len(e.args) == 2]
        idx_push = [x for x in pushes if x[0] == Es + '.2']
        tor_push = [x for x in pushes if x[0] == Es + '.1']
        other = [x for x in pushes if x not in idx_push and x not in tor_push]
        cnt = [nk(e.term) for e in p.events if e.kind == 'write' and e.lv and nk(('mref', e.lv)) == Es + '.0']
        if other or not pushes:
            unknown.append('generator k is recorded through %s' % ([x[0][-40:] for x in pushes] or 'no push'))
            continue
        if dom == 'unified':
            cmpb = [(re.match(r'(Lt|Le|Gt|Ge)\((.*), (.*)\)$', nk(e.term)), e.value) for e in p.branches()]
            cmpb = [(m, v) for m, v in cmpb if m and {m.group(2), m.group(3)} == {Ks, RK}]
            if len(cmpb) != 1:
                unknown.append('the free / torsion decision is not a single comparison of k with rank')
                continue
            m, v = cmpb[0]
            region = set()
            for kk in range(4):
                for rr in range(4):
                    x, y = (kk, rr) if m.group(2) == Ks else (rr, kk)
                    if {'Lt': x < y, 'Le': x <= y, 'Gt': x > y, 'Ge': x >= y}[m.group(1)] == (v != 0):
                        region.add((kk, rr))
            free_region = {(kk, rr) for kk in range(4) for rr in range(4) if kk < rr}
            if region == free_region:
                is_free = True
            elif region == {(kk, rr) for kk in range(4) for rr in range(4)} - free_region:
                is_free = False
            else:
                probs.append('the free / torsion decision is `%s` = %s instead of `k < rank`' % (m.group(0), v != 0))
                continue
            want_t = ['tors(%s)[SubWithOverflow(%s, %s).0]' % (Hs, Ks, RK)]
        else:
            is_free = dom == 'free'
            want_t = [Ks[:-1] + '1'] if item_t is None else [item_t + '.1']
        want_t = want_t + ['clone(%s)' % x for x in want_t]
        if len(idx_push) != 1 or idx_push[0][1] != Ks:
            probs.append('a %s generator does not record its own index exactly once under (i, q_deg(gen k)): index pushes %s' % ('free' if is_free else 'torsion', [x[1][:60] for x in idx_push]))
            continue
        if is_free:
            if len(cnt) != 1 or cnt[0] != 'AddWithOverflow(%s.0, 1).0' % Es or tor_push:
                probs.append('a free generator (k < rank) must add exactly 1 to the rank of its bidegree and no torsion: rank writes %s, torsion pushes %d' % ([c[-50:] for c in cnt], len(tor_push)))
                continue
        else:
            if len(tor_push) != 1 or tor_push[0][1] not in want_t or cnt:
                probs.append('a torsion generator (k >= rank) must contribute tors[k - rank] and no rank: pushes %s, rank writes %d' % ([x[1][:90] for x in tor_push], len(cnt)))
                continue
        domains.setdefault(dom, set()).add(is_free)
    inst = 'collect_gen_info|every generator filed once under (i, q_deg), free iff k < rank'
    covered = domains.get('unified') == {True, False} or (domains.get('free') == {True} and domains.get('tors') == {False})
    if probs:
        rep.violation('E23.G1-partition-by-qdeg', inst, '; '.join(sorted(set(probs))[:3]), where=cg.where())
    elif unknown:
        rep.indet('E23.G1: collect_gen_info outside the recognised fragment: %s' % sorted(set(unknown))[:2])
    elif not covered:
        if set(domains) == {'free'} or set(domains) == {'tors'}:
            rep.violation('E23.G1-partition-by-qdeg', inst, 'only the %s generators are filed: the %s part of every bidegree is missing from the table' % ('free' if 'free' in domains else 'torsion', 'torsion' if 'free' in domains else 'free'), where=cg.where())
        else:
            rep.indet('E23.G1: collect_gen_info outside the recognised fragment (domains %s)' % {k: sorted(v) for k, v in domains.items()})
    else:
        rep.ok('E23.G1-partition-by-qdeg', inst, 'k in 0..rank+#tors (one loop, or 0..rank and rank.. zipped with tors); key (i, q_deg(gen k)); rank += 1 | tors.push(tors[k-rank]); indices.push(k)')
    # ---- G2
    cl = closures_of(facts, HB)
    hb = facts.bodies.get(HB)
    if hb is None or not cl:
        rep.indet('E23: KhHomology::into_bigraded not found')
        return
    rep.saw(hb)
    from symex import peel
    good = 0
    bad = []
    unknown = []
    zero_ok = False
    for k, b in cl.items():
        for p in SymEx(b).run():
            if p.end != 'return' or not any(e.name.split('::')[-1] == 'get' for e in p.calls()):
                continue
            found = [e.value for e in p.branches() if sk(peel(e.term)).startswith('discr(get(')]
            r = peel(p.ret)
            txt = re.sub(r'\^_ref__', '^', sk(r))
            if found and found[-1] != 1:
                if txt == 'zero()':
                    zero_ok = True
                else:
                    unknown.append('no entry: ' + txt[:120])
                continue
            if not (r[0] == 'call' and r[1].split('::')[-1] == 'new' and len(r[2]) == 4):
                unknown.append(txt[:160])
                continue
            a = [re.sub(r'\^_ref__', '^', sk(x)) for x in r[2]]
            m = re.match(r'(get\(arg1\.\^table, arg2\)\.Some\.0)\.0$', a[1])
            E = m.group(1) if m else 'get(arg1.^table, arg2).Some.0'
            want = ['raw_gens(index(arg1.^self, arg2.0))', E + '.0', E + '.1', 'sub(trans(index(arg1.^self, arg2.0)), %s.2)' % E]
            if a == want:
                good += 1
            elif all(re.match(r'^(raw_gens|index|trans|sub|get|Some|len|rank|tors|is_empty|arg[12]|\^self|\^table|[0-9]|[()., ])*$', x) for x in a):
                bad.append('new(%s)' % ', '.join(a))
            else:
                unknown.append('new(%s)' % ', '.join(a)[:200])
    inst = 'KhHomology::into_bigraded|piece (i, j) = table[(i, j)] as (rank, tors, indices) over H_i'
    if bad:
        rep.violation('E23.G2-piece-from-same-key', inst, 'the bigraded piece is assembled as %s, expected Summand::new(gens(H_i), entry.rank, entry.tors, trans(H_i).sub(entry.indices)) with entry = table[(i, j)]' % sorted(bad)[:2], where=hb.where())
    elif unknown or not good or not zero_ok:
        rep.indet('E23.G2: into_bigraded outside the recognised fragment: %s (entry paths %d, zero for a missing key: %s)' % (sorted(unknown)[:2], good, zero_ok))
    else:
        rep.ok('E23.G2-piece-from-same-key', inst, 'Summand::new(gens(H_i), rank, tors, trans(H_i).sub(indices)) | zero')


def _ord_atom(env):
    """atoms of the (min, max) scan: comparisons through PartialOrd / Ord, the accumulator and the scanned item"""
    def atom(t, ev):
        if t[0] == 'loopvar':
            if ('loopvar', t[2]) in env:
                return (env[('loopvar', t[2])],)
            raise Stuck('loop variable _%d is not part of the (min, max) state' % t[2])
        if t[0] == 'field' and t[2] == 'Some.0' and t[1][0] == 'call' and t[1][1].endswith('Iterator::next') and 'item' in env:
            return (env['item'],)
        if t[0] == 'discr' and strip(t[1])[0] == 'call' and strip(t[1])[1].endswith('Iterator::next') and 'item' in env:
            return (1,)
        if t[0] == 'call' and len(t[2]) == 2:
            n = t[1].split('::')[-1]
            if t[1].startswith('std::cmp::') and n in ('lt', 'le', 'gt', 'ge'):
                x, y = ev(t[2][0]), ev(t[2][1])
                return (int({'lt': x < y, 'le': x <= y, 'gt': x > y, 'ge': x >= y}[n]),)
            if t[1].startswith('std::cmp::') and n in ('min', 'max'):
                x, y = ev(t[2][0]), ev(t[2][1])
                return (min(x, y) if n == 'min' else max(x, y),)
            if t[1].startswith('std::cmp::') and n == 'cmp':
                x, y = ev(t[2][0]), ev(t[2][1])
                return ({'<variant>': {-1: 255, 0: 0, 1: 1}[(x > y) - (x < y)]},)
        if t[0] == 'call' and t[1].split('::')[-1] in ('clone', 'deref', 'borrow') and len(t[2]) == 1:
            return (ev(t[2][0]),)
        return None
    return atom


GRID3 = [(m, M, x) for m in range(1, 4) for M in range(m, 4) for x in range(0, 5)]


def _g3(facts, rep):
    """range_of = (min, max) of the scanned keys, decided by value: the accumulator step is folded over every
    relative position of the new key x to a state m <= M (30 points), the first key gives (x, x)"""
    inst = 'range_of|the scan computes (min, max)'
    rb = facts.bodies.get(RNG)
    if rb is None:
        rep.indet('E23.G3: range_of not found')
        return
    rep.saw(rb)
    dt = DTree(facts)
    rc = closures_of(facts, RNG)
    bad = []
    try:
        rets = [p for p in SymEx(rb).run() if p.end == 'return']
        folds = [e for p in rets for e in p.calls() if e.name.endswith('Iterator::fold')]
        if folds:
            # ---- fold form: init None, step closure, (lo, hi) = the two components of the result
            e = folds[0]
            clo = strip(e.args[2])
            init = sk(e.args[1])
            if clo[0] != 'closure' or clo[1] not in facts.bodies or not init.startswith('Option::None'):
                rep.indet('E23.G3: range_of folds from %s with %s' % (init, sk(e.args[2])[:60]))
                return
            cb = facts.bodies[clo[1]]
            rep.saw(cb)
            ends = set()
            for p in rets:
                r = strip(p.ret)
                if r[0] == 'call' and r[1].split('::')[-1] == 'new' and len(r[2]) == 2:
                    comp = []
                    for x in r[2]:
                        x = strip(x)
                        comp.append(x[2] if x[0] == 'field' and any(isinstance(y, tuple) and y and y[0] == 'call' and y[1].endswith('Iterator::fold') for y in subterms(x[1])) else None)
                    ends.add(tuple(comp))
                else:
                    ends.add(None)
            if ends == {('1', '0')}:
                rep.violation('E23.G3-support-range', inst, 'range_of returns max ..= min: the support is empty', where=rb.where())
                return
            if ends != {('0', '1')}:
                rep.indet('E23.G3: range_of builds its result as %s' % sorted(map(str, ends)))
                return
            v, _ = dt.decide(clo[1], {2: {'<variant>': 0}, 3: 7}, _ord_atom({}))
            if not (isinstance(v, dict) and v.get('<variant>') in (1, 'Some') and tuple(v.get('0', ())) == (7, 7)):
                bad.append('the first key x gives %s, expected Some((x, x))' % _pv(v))
            for (m, M, x) in GRID3:
                v, _ = dt.decide(clo[1], {2: {'<variant>': 1, 'Some.0': (m, M)}, 3: x}, _ord_atom({}))
                got = tuple(v.get('0', ())) if isinstance(v, dict) else None
                if got != (min(m, x), max(M, x)):
                    bad.append('state (%d, %d), key %d gives %s' % (m, M, x, _pv(v)))
            form = 'fold(None, step)'
        else:
            # ---- loop form: (lo, hi) are loop-carried locals, initialised from the first key
            hv = SymEx(rb, havoc_loops=True).run()
            exits = [p for p in hv if p.end == 'return' and any(isinstance(y, tuple) and y and y[0] == 'loopvar' for y in subterms(p.ret))]
            back = [p for p in hv if p.end == 'backedge']
            if len(exits) != 1 or not back:
                rep.indet('E23.G3: range_of has neither a fold nor a single scanning loop (%d exits, %d iterations)' % (len(exits), len(back)))
                return
            r = strip(exits[0].ret)
            if not (r[0] == 'call' and r[1].split('::')[-1] == 'new' and len(r[2]) == 2 and all(strip(x)[0] == 'loopvar' for x in r[2])):
                rep.indet('E23.G3: range_of returns %s after its loop' % sk(exits[0].ret)[:120])
                return
            lo, hi = strip(r[2][0])[2], strip(r[2][1])[2]
            # zero iterations: both ends are the first key
            zero = [p for p in rets if sum(1 for e in p.calls() if e.name.endswith('Iterator::next')) == 2]
            firsts = {sk(p.ret) for p in zero}
            if len(zero) != 1:
                rep.indet('E23.G3: %d zero-iteration paths through range_of' % len(zero))
                return
            z = strip(zero[0].ret)
            za = [sk(x) for x in z[2]] if z[0] == 'call' and len(z[2]) == 2 else []
            if not (len(za) == 2 and za[0] == za[1] and za[0].startswith('next(') and za[0].endswith('.Some.0')):
                bad.append('a single key x gives %s, expected x ..= x' % sk(zero[0].ret)[:120])
            inloop = set()
            for info in find_loops(rb).values():
                inloop |= info['blocks']
            paths = [([(e.term, e.value, e.args) for e in p.branches() if e.bb in inloop], None, p) for p in back]
            for (m, M, x) in GRID3:
                env = {('loopvar', lo): m, ('loopvar', hi): M, 'item': x}
                at = _ord_atom(env)
                _, p = dt.decide_paths(paths, {}, at, what='the loop of range_of', want_ret=False)
                got = tuple(dt.ev(p.mem[(('local', l), ())], {}, at) for l in (lo, hi))
                if got != (min(m, x), max(M, x)):
                    bad.append('state (%d, %d), key %d gives %s' % (m, M, x, got))
            form = 'first key, then a loop over (min, max)'
    except (Stuck, KeyError, TypeError) as ex:
        rep.indet('E23.G3: range_of outside the recognised fragment: %s' % str(ex)[:160])
        return
    if bad:
        rep.violation('E23.G3-support-range', inst, 'the scan is not (min, max): %s - a populated bidegree can fall outside the generated support and silently disappear from the table' % '; '.join(bad[:3]),
                      where=rb.where())
    else:
        rep.ok('E23.G3-support-range', inst, '%s; %d states x keys folded' % (form, len(GRID3) + 1))


def _pv(v):
    if isinstance(v, dict):
        return {k: x for k, x in v.items() if not k.startswith('<adt')}
    return v


def _g34(facts, rep):
    # ---- G3
    _g3(facts, rep)
    # ---- G4
    gg = facts.bodies.get(GG)
    if gg is None:
        rep.indet('E23: KhComplex::gen_grid not found')
        return
    rep.saw(gg)
    from symex import private_helper, apply_closure
    piece = pred = None
    inst = 'KhComplex::gen_grid|x in piece (i, j) iff x in gens(C_i) and q_deg(x) = j'
    try:
        gens = [e for p in SymEx(gg, havoc_loops=True, inline=private_helper()).run() if p.end == 'return' for e in p.calls('generate')]
        clo = strip(gens[0].args[1]) if gens else None
        if clo is not None and clo[0] == 'closure':
            for q in apply_closure(clo, [('idx',)], inline=private_helper()) or []:
                if q.end != 'return':
                    continue
                s_ = re.sub(r"\('idx',\)", 'IDX', sk(q.ret))
                if s_.startswith('from_raw_gens('):
                    piece = re.sub(r'closure<[^>]*>', 'PRED', s_)
                    for y in subterms(q.ret):
                        if isinstance(y, tuple) and y and y[0] == 'closure':
                            for r_ in apply_closure(y, [('ref', ('item',))]) or []:
                                if r_.end == 'return':
                                    pred = re.sub(r"\('idx',\)", 'IDX', sk(r_.ret)).replace("('item',)", 'ITEM')
    except Exception as ex:
        rep.indet('E23.G4: gen_grid: %s' % str(ex)[:120])
        return
    ok = piece in ('from_raw_gens(cloned(filter(iter(raw_gens(index(arg1, IDX.0))), PRED)))', 'from_raw_gens(copied(filter(iter(raw_gens(index(arg1, IDX.0))), PRED)))') and \
        pred in ('Eq(q_deg(ITEM), IDX.1)', 'Eq(IDX.1, q_deg(ITEM))')
    if ok:
        rep.ok('E23.G4-complex-pieces', inst, 'filter(q_deg(x) == j) over raw_gens(C_i)')
    elif piece is None or pred is None:
        rep.indet('E23.G4: gen_grid outside the recognised fragment (piece %s, predicate %s)' % (piece, pred))
    elif re.match(r'from_raw_gens\((cloned|copied)\(filter\(iter\(raw_gens\(index\(arg1, IDX\.[01]\)\)\), PRED\)\)\)$', piece) and \
            re.match(r'(Eq|Ne|Le|Ge|Lt|Gt)\((q_deg|h_deg)\(ITEM\), IDX\.[01]\)$|(Eq|Ne|Le|Ge|Lt|Gt)\(IDX\.[01], (q_deg|h_deg)\(ITEM\)\)$', pred):
        rep.violation('E23.G4-complex-pieces', inst, 'the piece is %s with predicate %s' % (piece[:200], pred), where=gg.where())
    else:
        rep.indet('E23.G4: gen_grid outside the recognised fragment (piece %s, predicate %s)' % (piece[:160], pred))
    check_support(facts, rep)


def _support_by_loops(gg):
    """the support handed to generate is a vector filled by two nested loops, one over h_range, one over q_range step 2,
    pushing (i, j) unconditionally"""
    try:
        paths = SymEx(gg, havoc_loops=True).run()
    except Exception:
        return False
    rets = [p for p in paths if p.end == 'return']
    back = [p for p in paths if p.end == 'backedge']
    if len(rets) != 1 or not back:
        return False
    gens = rets[0].calls('generate')
    if len(gens) != 1:
        return False
    sup = strip(gens[0].args[0])
    if sup[0] != 'loopvar':
        return False
    L = sup[2]
    entry = {}
    for p in paths:
        for (fid, bb, l), v in p.state.loop_entry.items():
            if fid == 0 and strip(v)[0] != 'loopvar':
                entry.setdefault(l, set()).add(sk(v))
    if entry.get(L) != {'new()'}:
        return False
    pushes = set()
    for p in paths:
        for e in p.events:
            if e.kind == 'branch':
                t = strip(e.term)
                if not (t[0] == 'discr' and strip(t[1])[0] == 'call' and strip(t[1])[1].endswith('Iterator::next')):
                    return False
            if e.kind == 'call' and e.args and e.args[0] == ('mref', (('local', L), ())):
                if e.name.split('::')[-1] != 'push':
                    return False
                v = strip(e.args[1])
                if not (v[0] == 'adt' and v[2] == 'isize2' and len(v[4]) == 2):
                    return False
                src = []
                for c in v[4]:
                    c = strip(c)
                    if not (c[0] == 'field' and c[2] == 'Some.0' and c[1][0] == 'call' and c[1][1].endswith('Iterator::next') and c[1][2][0][0] == 'mref' and c[1][2][0][1][0][0] == 'local'):
                        return False
                    src.append(entry.get(c[1][2][0][1][0][1]))
                pushes.add(tuple(frozenset(x) if x else None for x in src))
    want_i = frozenset({'into_iter(h_range(arg1))'})
    want_j = (frozenset({'into_iter(step_by(clone(&q_range(arg1)), 2))'}), frozenset({'into_iter(step_by(q_range(arg1), 2))'}))
    # a push on some path of the inner iteration, and nothing but iterator tests on any path: every (i, j) is pushed
    inner_pushed = all(any(e.kind == 'call' and e.name.split('::')[-1] == 'push' for e in p.events) for p in back
                       if sum(1 for e in p.branches() if e.value == 1) >= 2)
    return len(pushes) == 1 and inner_pushed and all(a == want_i and b in want_j for a, b in pushes)



def _qrange_by_loop(facts, qb):
    """q_range = range_of(v) with v filled by `for i in self.support() { v.extend(self[i].raw_gens().iter().map(q_deg)) }`"""
    from symex import apply_closure
    try:
        paths = SymEx(qb, havoc_loops=True).run()
    except Exception:
        return False

    def dk(t):
        return re.sub(r'&mut _\d+', 'IT', re.sub(r'\^_ref__', '^', sk(t))).replace('&', '').replace('*', '')
    rets = [p for p in paths if p.end == 'return']
    back = [p for p in paths if p.end == 'backedge']
    if len(rets) != 1 or not back:
        return False
    r = strip(rets[0].ret)
    if not (r[0] == 'call' and r[1].split('::')[-1] == 'range_of' and len(r[2]) == 1 and strip(r[2][0])[0] == 'loopvar'):
        return False
    L = strip(r[2][0])[2]
    entry = {}
    for p in paths:
        for (fid, bb, l), v in p.state.loop_entry.items():
            if fid == 0 and strip(v)[0] != 'loopvar':
                entry.setdefault(l, set()).add(dk(v))
    if entry.get(L) != {'new()'}:
        return False
    for p in paths:
        if any(e.kind == 'branch' and not dk(e.term).startswith('discr(next(') for e in p.events):
            return False        # a conditional skip
    ok = False
    for p in back:
        fills = [e for e in p.calls() if e.args and e.args[0] == ('mref', (('local', L), ()))]
        if len(fills) != 1 or fills[0].name.split('::')[-1] != 'extend':
            return False
        src = strip(fills[0].args[1])
        if not (src[0] == 'call' and src[1].split('::')[-1] == 'map' and len(src[2]) == 2):
            return False
        it = strip(src[2][0])
        if dk(it) != 'iter(raw_gens(index(arg1, next(IT).Some.0)))':
            return False
        nx = None
        for y in subterms(it):
            if isinstance(y, tuple) and y and y[0] == 'call' and y[1].endswith('Iterator::next') and y[2][0][0] == 'mref':
                nx = y[2][0][1][0][1]
        if entry.get(nx) != {'into_iter(support(arg1))'}:
            return False
        vals = {dk(q.ret).replace("('item',)", 'ITEM') for q in apply_closure(src[2][1], [('item',)]) or [] if q.end == 'return'}
        if vals != {'q_deg(ITEM)'}:
            return False
        ok = True
    return ok



def check_support(facts, rep):
    """G5"""
    K = 'yui_kh::kh::complex::KhComplex::<R>::'
    need = {n: facts.bodies.get(K + n) for n in ('h_range', 'q_range', 'gen_grid')}
    if any(v is None for v in need.values()):
        rep.indet('E23.G5: KhComplex::{h_range, q_range, gen_grid} not found')
        return
    for v in need.values():
        rep.saw(v)

    def rets(b):
        return [re.sub(r' as \{closure@[^}]*\}', '', re.sub(r'\^_ref__', '^', sk(p.ret))).replace('(closure<{closure#0}>)', 'closure<{closure#0}>') for p in SymEx(b).run() if p.end == 'return']
    h = rets(need['h_range'])
    q = rets(need['q_range'])
    inner = mapf = None
    for k, b in facts.bodies.items():
        if k == K + 'q_range::{closure#0}':
            inner = rets(b)
        if k == K + 'q_range::{closure#0}::{closure#0}':
            mapf = rets(b)
    inst = 'KhComplex::q_range|min..max of the q-degrees of every generator of every supported summand'
    ok = (h == ['range_of(support(arg1))'] and q == ['range_of(flat_map(support(arg1), closure<{closure#0}>))'] and
          inner == ['map(iter(raw_gens(index(*arg1.^self, arg2))), closure<{closure#0}>)'] and mapf == ['q_deg(arg2)'])
    if not ok and h == ['range_of(support(arg1))']:
        ok = _qrange_by_loop(facts, need['q_range'])
    if ok:
        rep.ok('E23.G5-support-covers-all', inst, 'range_of(support().flat_map(|i| self[i].raw_gens().map(q_deg)))')
    else:
        src = re.match(r'range_of\(flat_map\((.*), closure<\{closure#0\}>\)\)$', q[0]) if len(q) == 1 else None
        if src and src.group(1) != 'support(arg1)' and inner == ['map(iter(raw_gens(index(*arg1.^self, arg2))), closure<{closure#0}>)']:
            rep.violation('E23.G5-support-covers-all', inst,
                          'q_range scans the summands %s instead of every supported degree: generators of the other summands whose q-degree lies outside fall into no cell of gen_grid and their whole q-row disappears from the bigraded complex' % src.group(1)[:120],
                          where=need['q_range'].where())
        else:
            rep.indet('E23.G5: q_range / h_range outside the recognised fragment: %s / %s / %s / %s' % (h, q, inner, mapf))
        return
    g = rets(need['gen_grid'])
    inst = 'KhComplex::gen_grid|support = h_range x q_range (step 2)'
    cl2 = None
    for k, b in facts.bodies.items():
        if k == K + 'gen_grid::{closure#2}':
            cl2 = rets(b)
    stepped = False
    for p in SymEx(need['gen_grid']).run():
        for e in p.calls():
            if e.name.split('::')[-1] == 'step_by' and [sk(a) for a in e.args] == ['q_range(arg1)', '2']:
                stepped = True
    if g == ['generate(map(flat_map(h_range(arg1), closure<{closure#2}>), closure<{closure#0}>), closure<{closure#1}>)'] and cl2 == ['map(clone(*arg1.^q_range), closure<{closure#0}>)'] and stepped:
        rep.ok('E23.G5-support-covers-all', inst, 'cartesian!(h_range, q_range.step_by(2))')
    elif _support_by_loops(need['gen_grid']):
        rep.ok('E23.G5-support-covers-all', inst, 'for i in h_range { for j in q_range.step_by(2) { support.push((i, j)) } }')
    else:
        rep.indet('E23.G5: gen_grid support outside the recognised fragment: %s / %s / step_by(q_range, 2): %s' % (g, cl2, stepped))
