"""E23 - the bigraded table is a partition of the generators of the total homology / complex by q-degree (C03).

The two library routes to a bigraded table are (a) KhHomology::into_bigraded: split the generators of each H_i by the
q-degree of the generator (collect_gen_info) and (b) KhComplex::into_bigraded: split the generators of each C_i by
q-degree (gen_grid) and take homology piecewise. For the two to agree bidegree by bidegree, and for the ranks / torsion
of the pieces to add up to the total, the splitting must be a partition:
  G1  collect_gen_info visits k = 0 .. rank + #tors of every H_i exactly once; generator k is filed under the single
      key (i, q_deg(gen k)); it counts as free iff k < rank, otherwise contributes tors[k - rank]; its index k is
      recorded in both cases (the coordinate sub-map of the piece);
  G2  KhHomology::into_bigraded builds the piece (i, j) from the table entry of the *same* key: (rank, tors, indices) in
      that order, generators and coordinate map of H_i with i the first key component; a missing key is the zero summand;
  G3  range_of is (min, max) of the keys (so no populated bidegree falls outside the generated support);
  G4  gen_grid puts x in piece (i, j) iff x is a raw generator of C_i and q_deg(x) == j;
  G5  the support of gen_grid is h_range x q_range with h_range = range_of(support) and q_range = range_of of the
      q-degrees of *all* generators of *all* supported summands (a range taken from a subset of the summands lets
      whole q-rows vanish without any panic: the differential preserves q).
The unit tests compare both routes on a few knots at (h, t) = 0; a generator dropped or double-filed in a bidegree that
those knots do not populate is invisible. NOT decided: that generators are q-homogeneous, the universal-coefficient
arithmetic between the rings (run-time values), the F2 reduced/unreduced relation.
"""
import re
from symex import SymEx, show, strip

CGI = 'yui_kh::misc::collect_gen_info'
RNG = 'yui_kh::misc::range_of'
HB = 'yui_kh::kh::homology::KhHomology::<R>::into_bigraded'
GG = 'yui_kh::kh::complex::KhComplex::<R>::gen_grid'


def sk(t):
    return re.sub(r'#\d+\.\d+', '', show(t, -1000))


def lvs(lv):
    """full-depth text of an lvalue ((base, path))"""
    base, path = lv
    if base[0] == 'ptr':
        return '&mut *' + sk(base[1]) + ''.join('.' + str(x) for x in path)
    return sk(('mref', lv))


def argstr(a):
    a = strip(a) if a and a[0] != 'mref' else a
    if a and a[0] == 'mref':
        return lvs(a[1])
    return sk(a)


def canon_iters(strings):
    """rename `&mut _N` iterator locals in order of first appearance -> IT1, IT2 ..."""
    names = {}

    def sub(m):
        return names.setdefault(m.group(0), 'IT%d' % (len(names) + 1))
    return [re.sub(r'&mut _\d+', sub, s) for s in strings], names


def closures_of(facts, owner):
    return {k: b for k, b in facts.bodies.items() if k.startswith(owner + '::{closure')}


def run(facts, rep, parts=('G1', 'G2', 'G3', 'G4', 'G5')):
    if 'G1' in parts:
        _g12(facts, rep)
    if 'G3' in parts:
        _g34(facts, rep)


def _g12(facts, rep):
    cg = facts.bodies.get(CGI)
    if cg is None:
        rep.indet('E23: collect_gen_info not found')
        return
    rep.saw(cg)
    H, I, K = 'next(IT1).Some.0.1', 'next(IT1).Some.0.0', 'next(IT2).Some.0'
    ENTRY = 'or_insert_with(entry(TABLE, isize2::isize2{0: %s, 1: q_deg(&gen(%s, %s))}), closure<{closure#0}>)' % (I, H, K)
    free = tors = 0
    rng_ok = None
    probs = []
    for p in SymEx(cg, havoc_loops=True, max_paths=20000).run():
        calls = [(e.name.split('::')[-1], [argstr(a) for a in e.args]) for e in p.calls()]
        flat = []
        for n, a in calls:
            flat.extend(a)
        brs = [sk(e.term) for e in p.branches()]
        wr = [(lvs(e.lv) if e.lv else '', sk(e.term)) for e in p.events if e.kind == 'write']
        allstr, _ = canon_iters([s for n, a in calls for s in a] + brs + [x for w in wr for x in w])
        # re-split
        it = iter(allstr)
        calls = [(n, [next(it) for _ in a]) for n, a in calls]
        brs = [next(it) for _ in brs]
        wr = [(next(it), next(it)) for _ in wr]
        tbl = [a[0] for n, a in calls if n == 'entry']
        for n, a in calls:
            if n == 'into_iter' and a and a[0].startswith('Range::Range'):
                want = 'Range::Range{start: 0, end: AddWithOverflow(rank(%s), len(tors(%s))).0}' % (H, H)
                rng_ok = (a[0] == want) if rng_ok in (None, True) else False
                if a[0] != want:
                    probs.append('generators are enumerated over %s, expected 0 .. rank + #tors' % a[0])
        inner = [(b, e.value) for b, e in zip(brs, p.branches()) if b == 'discr(next(IT2))']
        if not inner or inner[-1][1] != 1:
            continue
        if len(tbl) != 1:
            probs.append('generator k touches %d table entries' % len(tbl))
            continue
        entry = ENTRY.replace('TABLE', tbl[0])
        lt = [(b, e.value) for b, e in zip(brs, p.branches()) if b == 'Lt(%s, rank(%s))' % (K, H)]
        if len(lt) != 1:
            probs.append('the free / torsion decision is not `k < rank`: %s' % [b for b in brs if b.startswith('Lt(')][:2])
            continue
        is_free = lt[0][1] != 0
        pushes = [a for n, a in calls if n == 'push']
        idx_push = [a for a in pushes if a[0] == '&mut *%s.2' % entry and a[1] == K]
        tor_push = [a for a in pushes if a[0] == '&mut *%s.1' % entry]
        cnt = [w for w in wr if w[0] == '&mut *%s.0' % entry]
        if len(idx_push) != 1 or len(pushes) != len(idx_push) + len(tor_push):
            probs.append('generator k (%s) does not record its index exactly once under (i, q_deg(gen k)): pushes %s' % ('free' if is_free else 'torsion', [[x[:70] for x in a] for a in pushes]))
            continue
        if is_free:
            free += 1
            okc = len(cnt) == 1 and cnt[0][1] == 'AddWithOverflow(*%s.0, 1).0' % entry
            if not okc or tor_push:
                probs.append('a free generator (k < rank) must add exactly 1 to the rank of its bidegree and no torsion: writes %s, torsion pushes %d' % ([(a[-40:], b[-60:]) for a, b in wr], len(tor_push)))
        else:
            tors += 1
            want = '*tors(%s)[SubWithOverflow(%s, rank(%s)).0]' % (H, K, H)
            if len(tor_push) != 1 or tor_push[0][1] not in (want, 'clone(&%s)' % want) or cnt:
                probs.append('a torsion generator (k >= rank) must contribute tors[k - rank] and no rank: pushes %s' % [a[1][:90] for a in tor_push])
    inst = 'collect_gen_info|every generator filed once under (i, q_deg), free iff k < rank'
    if free == 0 or tors == 0 or rng_ok is None:
        if probs:
            rep.violation('E23.G1-partition-by-qdeg', inst, '; '.join(sorted(set(probs))[:3]), where=cg.where())
        else:
            rep.indet('E23.G1: collect_gen_info outside the recognised fragment (free paths %d, torsion paths %d)' % (free, tors))
    elif probs:
        rep.violation('E23.G1-partition-by-qdeg', inst, '; '.join(sorted(set(probs))[:3]), where=cg.where())
    else:
        rep.ok('E23.G1-partition-by-qdeg', inst, 'k in 0..rank+#tors; key (i, q_deg(gen k)); rank += 1 | tors.push(tors[k-rank]); indices.push(k)')
    # ---- G2
    cl = closures_of(facts, HB)
    hb = facts.bodies.get(HB)
    if hb is None or not cl:
        rep.indet('E23: KhHomology::into_bigraded not found')
        return
    rep.saw(hb)
    shapes = set()
    for k, b in cl.items():
        for p in SymEx(b).run():
            if p.end == 'return' and any(e.name.split('::')[-1] == 'get' for e in p.calls()):
                br = tuple((sk(e.term), 1 if e.value == 1 else 0) for e in p.branches())
                shapes.add((sk(p.ret), br))
    want = {('new(clone(raw_gens(index(*arg1.^self, arg2.0))), *get(&*arg1.^table, &arg2).Some.0.0, clone(&*get(&*arg1.^table, &arg2).Some.0.1), sub(trans(index(*arg1.^self, arg2.0)), deref(&*get(&*arg1.^table, &arg2).Some.0.2)))',
             (('discr(get(&*arg1.^table, &arg2))', 1),)),
            ('zero()', (('discr(get(&*arg1.^table, &arg2))', 0),))}
    inst = 'KhHomology::into_bigraded|piece (i, j) = table[(i, j)] as (rank, tors, indices) over H_i'
    norm = {(re.sub(r'\^_ref__', '^', a), tuple((re.sub(r'\^_ref__', '^', t), v) for t, v in b)) for a, b in shapes}
    if norm == want:
        rep.ok('E23.G2-piece-from-same-key', inst, 'Summand::new(gens(H_i), rank, tors, trans(H_i).sub(indices)) | zero')
    elif not shapes:
        rep.indet('E23.G2: no closure of into_bigraded looks the table up')
    else:
        rep.violation('E23.G2-piece-from-same-key', inst, 'the bigraded piece is assembled as %s' % sorted(x[0][:260] for x in norm - want), where=hb.where())


def _g34(facts, rep):
    # ---- G3
    rc = closures_of(facts, RNG)
    got = set()
    for k, b in rc.items():
        rep.saw(b)
        for p in SymEx(b).run():
            if p.end == 'return':
                got.add((sk(p.ret), tuple((sk(e.term), (1 if e.value == 1 else 0) if sk(e.term).startswith('discr(') else (0 if e.value == 0 else 1)) for e in p.branches())))
    MIN, MAX, X = 'arg2.Some.0.0', 'arg2.Some.0.1', 'arg3'
    want = {('Option::Some{0: (%s, %s)}' % (MIN, MAX), (('discr(arg2)', 1), ('lt(&%s, &%s)' % (X, MIN), 0), ('lt(&%s, &%s)' % (MAX, X), 0))),
            ('Option::Some{0: (%s, %s)}' % (MIN, X), (('discr(arg2)', 1), ('lt(&%s, &%s)' % (X, MIN), 0), ('lt(&%s, &%s)' % (MAX, X), 1))),
            ('Option::Some{0: (%s, %s)}' % (X, MAX), (('discr(arg2)', 1), ('lt(&%s, &%s)' % (X, MIN), 1))),
            ('Option::Some{0: (%s, %s)}' % (X, X), (('discr(arg2)', 0),))}
    inst = 'range_of|fold computes (min, max)'
    if got == want:
        rep.ok('E23.G3-support-range', inst, '4 arms')
    elif not got:
        rep.indet('E23.G3: range_of fold closure not found')
    else:
        # decide semantically on the 3 orderings x<min, min<=x<=max, x>max
        bad = sorted(str(x)[:200] for x in got - want)
        known = all(re.match(r'Option::Some\{0: \((arg2\.Some\.0\.[01]|arg3), (arg2\.Some\.0\.[01]|arg3)\)\}$', g[0]) for g in got)
        if known:
            rep.violation('E23.G3-support-range', inst, 'the fold is no longer (min, max): arms %s - a populated bidegree can fall outside the generated support and silently disappear from the table' % bad,
                          where=facts.bodies[RNG].where() if RNG in facts.bodies else '')
        else:
            rep.indet('E23.G3: range_of fold outside the recognised fragment: %s' % bad)
    # ---- G4
    gcl = closures_of(facts, GG)
    gg = facts.bodies.get(GG)
    if gg is None:
        rep.indet('E23: KhComplex::gen_grid not found')
        return
    rep.saw(gg)
    piece = pred = None
    for k, b in gcl.items():
        for p in SymEx(b).run():
            if p.end != 'return':
                continue
            s = re.sub(r'\^_ref__', '^', sk(p.ret))
            if s.startswith('from_raw_gens('):
                piece = s
            if 'q_deg(' in s:
                pred = s
    inst = 'KhComplex::gen_grid|x in piece (i, j) iff x in gens(C_i) and q_deg(x) = j'
    ok = piece == 'from_raw_gens(cloned(filter(iter(raw_gens(index(*arg1.^self, arg2.0))), closure<{closure#0}>)))' and pred in ('Eq(q_deg(*arg2), **arg1.^j)', 'Eq(**arg1.^j, q_deg(*arg2))')
    if ok:
        rep.ok('E23.G4-complex-pieces', inst, 'filter(q_deg(x) == j) over raw_gens(C_i)')
    elif piece is None or pred is None:
        rep.indet('E23.G4: gen_grid outside the recognised fragment (piece %s, predicate %s)' % (piece, pred))
    else:
        rep.violation('E23.G4-complex-pieces', inst, 'the piece is %s with predicate %s' % (piece[:200], pred), where=gg.where())
    check_support(facts, rep)


def check_support(facts, rep):
    """G5"""
    K = 'yui_kh::kh::complex::KhComplex::<R>::'
    need = {n: facts.bodies.get(K + n) for n in ('h_range', 'q_range', 'gen_grid')}
    if any(v is None for v in need.values()):
        rep.indet('E23.G5: KhComplex::{h_range, q_range, gen_grid} not found')
        return
    for v in need.values():
        rep.saw(v)

    def rets(b):
        return [re.sub(r' as \{closure@[^}]*\}', '', re.sub(r'\^_ref__', '^', sk(p.ret))).replace('(closure<{closure#0}>)', 'closure<{closure#0}>') for p in SymEx(b).run() if p.end == 'return']
    h = rets(need['h_range'])
    q = rets(need['q_range'])
    inner = mapf = None
    for k, b in facts.bodies.items():
        if k == K + 'q_range::{closure#0}':
            inner = rets(b)
        if k == K + 'q_range::{closure#0}::{closure#0}':
            mapf = rets(b)
    inst = 'KhComplex::q_range|min..max of the q-degrees of every generator of every supported summand'
    ok = (h == ['range_of(support(arg1))'] and q == ['range_of(flat_map(support(arg1), closure<{closure#0}>))'] and
          inner == ['map(iter(raw_gens(index(*arg1.^self, arg2))), closure<{closure#0}>)'] and mapf == ['q_deg(arg2)'])
    if ok:
        rep.ok('E23.G5-support-covers-all', inst, 'range_of(support().flat_map(|i| self[i].raw_gens().map(q_deg)))')
    else:
        src = re.match(r'range_of\(flat_map\((.*), closure<\{closure#0\}>\)\)$', q[0]) if len(q) == 1 else None
        if src and src.group(1) != 'support(arg1)' and inner == ['map(iter(raw_gens(index(*arg1.^self, arg2))), closure<{closure#0}>)']:
            rep.violation('E23.G5-support-covers-all', inst,
                          'q_range scans the summands %s instead of every supported degree: generators of the other summands whose q-degree lies outside fall into no cell of gen_grid and their whole q-row disappears from the bigraded complex' % src.group(1)[:120],
                          where=need['q_range'].where())
        else:
            rep.indet('E23.G5: q_range / h_range outside the recognised fragment: %s / %s / %s / %s' % (h, q, inner, mapf))
        return
    g = rets(need['gen_grid'])
    inst = 'KhComplex::gen_grid|support = h_range x q_range (step 2)'
    cl2 = None
    for k, b in facts.bodies.items():
        if k == K + 'gen_grid::{closure#2}':
            cl2 = rets(b)
    stepped = False
    for p in SymEx(need['gen_grid']).run():
        for e in p.calls():
            if e.name.split('::')[-1] == 'step_by' and [sk(a) for a in e.args] == ['q_range(arg1)', '2']:
                stepped = True
    if g == ['generate(map(flat_map(h_range(arg1), closure<{closure#2}>), closure<{closure#0}>), closure<{closure#1}>)'] and cl2 == ['map(clone(*arg1.^q_range), closure<{closure#0}>)'] and stepped:
        rep.ok('E23.G5-support-covers-all', inst, 'cartesian!(h_range, q_range.step_by(2))')
    else:
        rep.indet('E23.G5: gen_grid support outside the recognised fragment: %s / %s / step_by(q_range, 2): %s' % (g, cl2, stepped))
