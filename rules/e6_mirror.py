"""E6 - transformation-mirroring discipline (SNF, LLL, HNF).

D = P*A*Q, P*P^-1 = I, Q*Q^-1 = I (resp. H = P*A) can only hold if every elementary operation on
the working matrix is mirrored into the companions with the inverse operation on the inverse.

  M1  who-may-write: a mutating `Mat` method is applied to the `target` field of SnfCalc /
      LLLData only inside the wrapper bodies; `target` is replaced wholesale only together with
      p and pinv from the same call's results (LLL preprocessing).
  M2  in every wrapper, on every path (symbolic path summaries), each operation on `target` is
      accompanied - for every companion that is `Some` on that path - by
        swap_rows(i,j)          -> p.swap_rows(i,j)           pinv.swap_cols(i,j)
        swap_cols(i,j)          -> q.swap_cols(i,j)           qinv.swap_rows(i,j)
        mul_row(i,u)            -> p.mul_row(i,u)             pinv.mul_col(i, inv(u))
        mul_col(i,u)            -> q.mul_col(i,u)             qinv.mul_row(i, inv(u))
        add_row_to(i,k,r)       -> p.add_row_to(i,k,r)        pinv.add_col_to(k,i,-r)
        left_elementary(c,i,j)  -> p.left_elementary(c,i,j)   pinv.right_elementary([d,-c,-b,a],i,j)
        right_elementary(c,i,j) -> q.right_elementary(c,i,j)  qinv.left_elementary([d,-c,-b,a],i,j)
      (E*P and P^-1*E^-1), and no companion receives an operation that target did not.
  M3  SnfCalc::process: preprocess < eliminate_all < diag_normalize on the non-zero path.
  M4  every caller passes a unimodular 2x2 block: [s, t, -b, a] with (d,s,t) = gcdx(x,y),
      a = x/d, b = y/d, or [1, 1, -t*b, s*a] (determinant s*a + t*b = 1 by Bezout).
"""
import re
from symex import SymEx, show, strip, TooManyPaths
from core import op_place
from e5_locks import resolve_place

ROW_OPS = {'swap_rows', 'mul_row', 'add_row_to', 'left_elementary'}
COL_OPS = {'swap_cols', 'mul_col', 'add_col_to', 'right_elementary'}
MAT_MUTATORS = ROW_OPS | COL_OPS

WRAPPERS = {
    'yui_matrix::dense::snf::SnfCalc': ['swap_rows', 'swap_cols', 'mul_row', 'mul_col', 'left_elementary', 'right_elementary'],
    'yui_matrix::dense::lll::LLLData': ['swap', 'mul_row', 'add_row_to'],
    'yui_matrix::dense::lll::LLLHNFCalc': ['result'],
}
COMPANIONS = {'yui_matrix::dense::snf::SnfCalc': ['p', 'pinv', 'q', 'qinv'],
              'yui_matrix::dense::lll::LLLData': ['p', 'pinv'],
              'yui_matrix::dense::lll::LLLHNFCalc': ['p', 'pinv']}


def sk(t):
    return re.sub(r'#(?:i\d+:)?\d+\.\d+', '', show(t))


def recv_name(body, t):
    """which matrix a receiver term denotes: 'target', 'p', 'pinv', 'q', 'qinv' or None"""
    if t[0] != 'mref':
        return None
    root, path = t[1]
    if root[0] == 'ptr':
        base = root[1]
        if base == ('arg', 1) and path and isinstance(path[0], str):
            if len(path) == 1:
                return path[0]
            # `if let Some(m) = &mut self.X`: the payload of the Option field itself
            if len(path) == 2 and isinstance(path[1], str) and path[1].endswith('Some.0'):
                return path[0]
            return None
        # &mut *as_mut(&mut self.X).Some.0   /  &mut *as_mut(&mut local X).Some.0
        if base[0] == 'field' and base[2].endswith('Some.0') and base[1][0] == 'call' and base[1][1].endswith('::as_mut') and not path:
            a = base[1][2][0]
            if a[0] == 'mref':
                r2, p2 = a[1]
                if r2 == ('ptr', ('arg', 1)) and len(p2) == 1:
                    return p2[0]
                if r2[0] == 'local' and not p2:
                    return body.local_name(r2[1])
        return None
    if root[0] == 'local' and not path:
        return body.local_name(root[1])
    return None


def is_none_branch(e, body, name):
    """branch event saying companion `name` is None on this path"""
    c = e.term
    # direct match on the Option field / local: discr(self.X)
    if c[0] == 'discr':
        d = c[1]
        nm = None
        if d[0] == 'field' and d[1] == ('deref', ('arg', 1)):
            nm = d[2]
        if nm == name:
            if e.value == 0:
                return True
            return e.value == 'else' and e.args is not None and 1 in e.args
    if c[0] == 'discr' and c[1][0] == 'call' and c[1][1].endswith('::as_mut') and e.value in (0, 'else'):
        a = c[1][2][0]
        if a[0] == 'mref':
            r2, p2 = a[1]
            nm = p2[0] if (r2 == ('ptr', ('arg', 1)) and len(p2) == 1) else (body.local_name(r2[1]) if r2[0] == 'local' and not p2 else None)
            # value 0 = None; 'else' arm is None when the listed target is Some(1)
            if nm == name:
                if e.value == 0:
                    return True
                return e.args is not None and 1 in e.args
    return False


def same(a, b):
    return strip(a) == strip(b)


def _diverges(clo):
    import symex as _sx
    clo = strip(clo)
    if clo[0] != 'closure':
        return False
    cb = _sx.BODIES.get(clo[1])
    if cb is None:
        return False
    try:
        return not any(p.end == 'return' for p in _sx.SymEx(cb, max_paths=200).run())
    except Exception:
        return False


def is_inv_of(t, u):
    """t is (a ref to the payload of) Ring::inv(u)"""
    x = t
    while True:
        if x[0] in ('ref', 'deref'):
            x = x[1]
        elif x[0] == 'field' and x[2].endswith('Some.0'):
            x = x[1]
        elif x[0] == 'call' and (x[1].endswith('::unwrap') or x[1].endswith('::expect')) and len(x[2]) >= 1:
            x = x[2][0]
        elif x[0] == 'call' and x[1].endswith('::unwrap_or_else') and len(x[2]) == 2 and _diverges(x[2][1]):
            x = x[2][0]      # unwrap_or_else(|| panic!(..)) == unwrap()
        else:
            break
    return x[0] == 'call' and x[1].endswith('Ring::inv') and len(x[2]) == 1 and same(x[2][0], u)


def is_neg_of(t, r):
    x = strip(t)
    return x[0] == 'call' and x[1].endswith('ops::Neg::neg') and len(x[2]) == 1 and same(x[2][0], r)


def inv_block_of(t, comps):
    """t == [d, -c, -b, a] for comps == [a, b, c, d]"""
    x = strip(t)
    if x[0] != 'agg' or x[1] != 'array' or len(x[2]) != 4:
        return False
    c = strip(comps)

    def idx(k):
        return ('index', c, ('const', k))
    e = x[2]
    return same(e[0], idx(3)) and is_neg_of(e[1], idx(2)) and is_neg_of(e[2], idx(1)) and same(e[3], idx(0))


def mirror_ok(op, args, comp, cop, cargs):
    """is (cop, cargs) on companion `comp` the right mirror of (op, args) on target?"""
    direct = comp in ('p', 'q')
    if op in ('swap_rows', 'swap_cols'):
        want = op if direct else ('swap_cols' if op == 'swap_rows' else 'swap_rows')
        return cop == want and same(cargs[0], args[0]) and same(cargs[1], args[1])
    if op in ('mul_row', 'mul_col'):
        if direct:
            return cop == op and same(cargs[0], args[0]) and same(cargs[1], args[1])
        want = 'mul_col' if op == 'mul_row' else 'mul_row'
        return cop == want and same(cargs[0], args[0]) and is_inv_of(cargs[1], args[1])
    if op in ('add_row_to', 'add_col_to'):
        if direct:
            return cop == op and all(same(x, y) for x, y in zip(cargs, args))
        want = 'add_col_to' if op == 'add_row_to' else 'add_row_to'
        return cop == want and same(cargs[0], args[1]) and same(cargs[1], args[0]) and is_neg_of(cargs[2], args[2])
    if op in ('left_elementary', 'right_elementary'):
        if direct:
            return cop == op and all(same(x, y) for x, y in zip(cargs, args))
        want = 'right_elementary' if op == 'left_elementary' else 'left_elementary'
        return cop == want and inv_block_of(cargs[0], args[0]) and same(cargs[1], args[1]) and same(cargs[2], args[2])
    return False


def check_wrapper(rep, b, companions):
    try:
        from symex import unmentioned_private_helper
        paths = SymEx(b, havoc_loops=True, max_paths=6000, inline=lambda cb, call: cb.defp in _STEPS or unmentioned_private_helper(cb, call)).run()
    except TooManyPaths:
        rep.indet('E6: path explosion in %s' % b.defp)
        return 0
    rep.saw(b)
    ntriples = 0
    reported = set()
    okd = set()
    for p in paths:
        if p.end not in ('return', 'backedge'):
            continue
        ops = []
        for e in p.calls():
            m = e.name.split('::')[-1]
            if m in MAT_MUTATORS and 'dense::mat::Mat' in e.name and e.args:
                who = recv_name(b, e.args[0])
                if who is not None:
                    ops.append((who, m, e.args[1:], e.line))
        tops = [o for o in ops if o[0] == 'target']
        used = set()
        for (_, op, args, line) in tops:
            side = ('p', 'pinv') if op in ROW_OPS else ('q', 'qinv')
            for comp in side:
                if comp not in companions:
                    continue
                inst = '%s|%s on target -> %s' % (b.defp, op, comp)
                cands = [(i, o) for i, o in enumerate(ops) if o[0] == comp]
                hit = None
                for i, o in cands:
                    if i not in used and mirror_ok(op, args, comp, o[1], o[2]):
                        hit = i
                        break
                if hit is not None:
                    used.add(hit)
                    if inst not in okd:
                        okd.add(inst)
                        ntriples += 1
                        rep.ok('E6.M2-mirrored', inst, '%s.%s(%s)' % (comp, ops[hit][1], ', '.join(sk(a) for a in ops[hit][2])))
                    continue
                if any(is_none_branch(e, b, comp) for e in p.branches()):
                    continue     # companion not requested on this path
                if inst in reported:
                    continue
                reported.add(inst)
                got = ['%s.%s(%s)' % (o[0], o[1], ', '.join(sk(a) for a in o[2])) for _, o in cands]
                rep.violation('E6.M2-mirrored', inst,
                              '%s: target.%s(%s) is not mirrored into `%s` with the %s operation on a path where `%s` is Some (found: %s)' %
                              (b.defp, op, ', '.join(sk(a) for a in args), comp, 'same' if comp in ('p', 'q') else 'inverse', comp, got or 'nothing'),
                              where='%s:%d' % (b.file, line), detail=['path blocks %s' % p.blocks])
        for i, o in enumerate(ops):
            if o[0] in companions and i not in used:
                inst = '%s|stray %s on %s' % (b.defp, o[1], o[0])
                if inst in reported:
                    continue
                reported.add(inst)
                rep.violation('E6.M2-mirrored', inst,
                              '%s: `%s` receives %s(%s) that mirrors no operation on target on that path' % (b.defp, o[0], o[1], ', '.join(sk(a) for a in o[2])),
                              where='%s:%d' % (b.file, o[3]))
    return ntriples


_STEPS = set()


def wrapper_steps(facts, adt, wrappers_of_adt):
    """a private method that only the wrappers (or such methods) call is a step of the wrapper: the mirroring obligation
    (M2) is checked on the wrapper with that step executed in place"""
    rcg = facts.rev_callgraph()
    steps = set()
    changed = True
    while changed:
        changed = False
        for b in facts.bodies.values():
            if b.kind == 'Closure' or b.defp in steps or not (b.impl and b.impl.get('self_adt') == adt) or b.d.get('vis', 'pub') == 'pub' or b.name in wrappers_of_adt:
                continue
            callers = [facts.bodies.get(c) for c in rcg.get(b.defp, ())]
            if callers and all(c is not None and c.impl and c.impl.get('self_adt') == adt and (c.name in wrappers_of_adt or c.defp in steps) for c in callers):
                steps.add(b.defp)
                changed = True
    _STEPS.update(steps)
    return steps


def check_who_may_write(facts, rep, adt, wrappers_of_adt):
    """M1"""
    mutators = {b.defp for b in facts.bodies.values() if b.impl and b.impl.get('self_adt') == 'yui_matrix::dense::mat::Mat'
                and b.arg_count >= 1 and b.local_ty(1).startswith('&mut ') and b.kind != 'Closure'}
    n = 0
    steps = wrapper_steps(facts, adt, wrappers_of_adt)
    for b in facts.bodies.values():
        root = facts.bodies.get(b.d.get('root') or '') or b
        if not (root.impl and root.impl.get('self_adt') == adt):
            continue
        is_wrapper = root.name in wrappers_of_adt or root.defp in steps
        for c in b.calls():
            tgt = c.name or ''
            mut_call = tgt in mutators or (c.generic or '').endswith('IndexMut::index_mut')
            if not mut_call or not c.args:
                continue
            p = op_place(c.args[0])
            if p is None:
                continue
            r = resolve_place(b, p, 0, False)
            if re.search(r'\(\*_1\)(\.data)?\.target$', r.lstrip('&')):
                n += 1
                inst = '%s|%s on target' % (b.defp, tgt.split('::')[-1])
                if is_wrapper:
                    rep.ok('E6.M1-who-may-write', inst, 'inside wrapper')
                else:
                    rep.violation('E6.M1-who-may-write', inst,
                                  '%s mutates the working matrix directly (%s) outside the mirroring wrappers: P/P^-1/Q/Q^-1 are not updated' % (b.defp, tgt),
                                  where=c.where())
        # whole replacement of target
        for bb, j, s in b.assigns():
            lhs = s['lhs']
            f = [e.get('n') for e in lhs['p'] if isinstance(e, dict)]
            if lhs['l'] == 1 and lhs['p'] and lhs['p'][0] == 'deref' and f == ['target'] and root.name not in ('new',):
                inst = '%s|replaces target' % b.defp
                # accepted iff p and pinv are assigned in the same body from the same call as target
                srcs = {}
                for _, _, s2 in b.assigns():
                    f2 = [e.get('n') for e in s2['lhs']['p'] if isinstance(e, dict)]
                    if s2['lhs']['l'] == 1 and len(f2) == 1 and f2[0] in ('target', 'p', 'pinv') and s2['rv']['k'] == 'use':
                        pp = op_place(s2['rv']['op'])
                        if pp is not None:
                            srcs[f2[0]] = resolve_place(b, pp, 0, True).split('.')[0]
                if set(srcs) == {'target', 'p', 'pinv'} and len(set(srcs.values())) == 1:
                    rep.ok('E6.M1-who-may-write', inst, 'target, p, pinv replaced together from %s' % list(srcs.values())[0][:60])
                else:
                    rep.violation('E6.M1-who-may-write', inst,
                                  '%s replaces the working matrix without replacing p and pinv from the same computation (%s)' % (b.defp, srcs),
                                  where='%s:%d' % (b.file, s['line']))
    return n


def check_order(facts, rep):
    """M3"""
    bs = facts.find(r'dense::snf::SnfCalc::<R>::process$')
    if len(bs) != 1:
        rep.indet('E6.M3: SnfCalc::process not found')
        return
    b = bs[0]
    rep.saw(b)
    want = ['preprocess', 'eliminate_all', 'diag_normalize']
    ok = False
    bad = None
    for p in SymEx(b).run():
        if p.end != 'return':
            continue
        seq = [e.name.split('::')[-1] for e in p.calls() if e.name.split('::')[-1] in want]
        if not seq:
            continue      # the zero-matrix path
        if seq == want:
            ok = True
        else:
            bad = seq
    inst = '%s|phase order' % b.defp
    if ok and not bad:
        rep.ok('E6.M3-order', inst, ' < '.join(want))
    else:
        rep.violation('E6.M3-order', inst, 'SnfCalc::process runs its phases as %s; required %s (preprocess overwrites p/pinv, '
                      'the divisibility chain needs diag_normalize last)' % (bad, want), where=b.where())


def check_unimodular_callers(facts, rep):
    """M4"""
    n = 0
    for b in sorted(facts.bodies.values(), key=lambda x: x.defp):
        if not (b.impl and b.impl.get('self_adt') == 'yui_matrix::dense::snf::SnfCalc'):
            continue
        if not any((c.name or '').endswith('SnfCalc::<R>::left_elementary') or (c.name or '').endswith('SnfCalc::<R>::right_elementary') for c in b.calls()):
            continue
        rep.saw(b)
        seen = set()
        from symex import private_helper
        for p in SymEx(b, havoc_loops=True, inline=private_helper(exclude=('left_elementary', 'right_elementary', 'gcdx') + tuple(WRAPPERS['yui_matrix::dense::snf::SnfCalc']))).run():
            for e in p.calls():
                if e.inlined:
                    continue
                m = e.name.split('::')[-1]
                if not (e.name.endswith('SnfCalc::<R>::left_elementary') or e.name.endswith('SnfCalc::<R>::right_elementary')):
                    continue
                blk = strip(e.args[1])
                inst = '%s|%s block %s' % (b.defp, m, sk(blk))
                if inst in seen:
                    continue
                seen.add(inst)
                n += 1
                why = unimodular(blk)
                if why:
                    rep.ok('E6.M4-unimodular-block', inst, why)
                elif not _bezout_vocabulary(blk):
                    rep.indet('E6.M4: %s passes a block outside the recognised fragment to %s: %s' % (b.defp, m, sk(blk)[:200]))
                else:
                    rep.violation('E6.M4-unimodular-block', inst,
                                  '%s passes %s to %s, which is not one of the Bezout shapes with determinant 1 '
                                  '([s,t,-b,a] or [1,1,-t*b,s*a] with (d,s,t)=gcdx(x,y), a=x/d, b=y/d)' % (b.defp, sk(blk), m),
                                  where='%s:%d' % (b.file, e.line))
    rep.floor('E6.M4 elementary-operation call sites', n, 4)


def _gcdx_parts(t):
    """t = gcdx(x,y).k  ->  (k, x, y, callterm)"""
    t = strip(t)
    if t[0] == 'field' and t[1][0] == 'call' and t[1][1].endswith('::gcdx') and t[2] in ('0', '1', '2'):
        return int(t[2]), strip(t[1][2][0]), strip(t[1][2][1]), t[1]
    return None


def _quot(t):
    """t = div(x, &d) with d = gcdx(..).0 -> (x, gcdx call)"""
    t = strip(t)
    if t[0] == 'call' and t[1].endswith('ops::Div::div') and len(t[2]) == 2:
        g = _gcdx_parts(t[2][1])
        if g and g[0] == 0:
            return strip(t[2][0]), g[3]
    return None


def _bezout_vocabulary(blk):
    """every entry of the block is built from gcdx parts, exact quotients, one / zero, negation and products of those:
    only then is "not one of the Bezout shapes" a statement about the block and not about the reader"""
    if blk[0] != 'agg' or blk[1] != 'array' or len(blk[2]) != 4:
        return False

    def known(x):
        x = strip(x)
        if _gcdx_parts(x) or _quot(x):
            return True
        if x[0] == 'call' and (x[1].endswith('One::one') or x[1].endswith('Zero::zero')) and not x[2]:
            return True
        if x[0] == 'call' and (x[1].endswith('ops::Neg::neg') or x[1].endswith('ops::Mul::mul')):
            return all(known(y) for y in x[2])
        return False
    return all(known(x) for x in blk[2])


def unimodular(blk):
    if blk[0] != 'agg' or blk[1] != 'array' or len(blk[2]) != 4:
        return None
    e0, e1, e2, e3 = [strip(x) for x in blk[2]]
    # [s, t, -b, a]
    s, t = _gcdx_parts(e0), _gcdx_parts(e1)
    a = _quot(e3)
    nb = e2[2][0] if (e2[0] == 'call' and e2[1].endswith('ops::Neg::neg')) else None
    b_ = _quot(nb) if nb is not None else None
    if s and t and a and b_ and s[0] == 1 and t[0] == 2 and s[3] == t[3] == a[1] == b_[1] and a[0] == s[1] and b_[0] == s[2]:
        return '[s, t, -y/d, x/d] with (d,s,t) = gcdx(x,y): det = (s*x + t*y)/d = 1'
    # [1, 1, -t*b, s*a]
    def is_one(x):
        return x[0] == 'call' and x[1].endswith('One::one') and not x[2]

    def prod(x):
        x = strip(x)
        if x[0] == 'call' and x[1].endswith('ops::Mul::mul') and len(x[2]) == 2:
            return strip(x[2][0]), strip(x[2][1])
        return None
    if is_one(e0) and is_one(e1) and e2[0] == 'call' and e2[1].endswith('ops::Neg::neg'):
        tb, sa = prod(e2[2][0]), prod(e3)
        if tb and sa:
            t_, b2 = _gcdx_parts(tb[0]), _quot(tb[1])
            s_, a2 = _gcdx_parts(sa[0]), _quot(sa[1])
            if t_ and s_ and a2 and b2 and t_[0] == 2 and s_[0] == 1 and t_[3] == s_[3] == a2[1] == b2[1] and a2[0] == s_[1] and b2[0] == s_[2]:
                return '[1, 1, -t*(y/d), s*(x/d)]: det = (s*x + t*y)/d = 1'
    return None


def run_snf(facts, rep):
    adt = 'yui_matrix::dense::snf::SnfCalc'
    n = 0
    wrapper_steps(facts, adt, WRAPPERS[adt] + ['preprocess_lll'])
    for nm in WRAPPERS[adt]:
        bs = [b for b in facts.bodies.values() if b.impl and b.impl.get('self_adt') == adt and b.name == nm and b.kind != 'Closure']
        if len(bs) != 1:
            rep.indet('E6: wrapper SnfCalc::%s not found exactly once' % nm)
            continue
        n += check_wrapper(rep, bs[0], COMPANIONS[adt])
    rep.floor('E6 SnfCalc mirrored (op, companion) pairs', n, 12)
    w = check_who_may_write(facts, rep, adt, WRAPPERS[adt] + ['preprocess_lll'])
    rep.floor('E6 SnfCalc direct target mutation sites', w, 6)
    check_order(facts, rep)
    check_unimodular_callers(facts, rep)


def run_lll(facts, rep):
    n = 0
    for adt in ('yui_matrix::dense::lll::LLLData', 'yui_matrix::dense::lll::LLLHNFCalc'):
        wrapper_steps(facts, adt, WRAPPERS[adt])
        for nm in WRAPPERS[adt]:
            bs = [b for b in facts.bodies.values() if b.impl and b.impl.get('self_adt') == adt and b.name == nm and b.kind != 'Closure']
            if len(bs) != 1:
                rep.indet('E6: wrapper %s::%s not found exactly once' % (adt.split('::')[-1], nm))
                continue
            n += check_wrapper(rep, bs[0], COMPANIONS[adt])
    rep.floor('E6 LLL/HNF mirrored (op, companion) pairs', n, 8)
    w = check_who_may_write(facts, rep, 'yui_matrix::dense::lll::LLLData', WRAPPERS['yui_matrix::dense::lll::LLLData'])
    w += check_who_may_write(facts, rep, 'yui_matrix::dense::lll::LLLHNFCalc', [])
    rep.floor('E6 LLLData direct target mutation sites', w, 3)


def check_flag_table(facts, rep):
    """M5 (C09, "together with (when requested) matrices .." for every subset of the four flags [p, pinv, q, qinv]):
    SnfCalc::new creates accumulator k exactly when flags[k] is set, with the dimension of its side: p, pinv are m x m
    identities (row operations), q, qinv n x n (column operations). Read from the struct literal of `new`; the small
    closure / helper that turns (size, flag) into Option<identity> is applied to its arguments."""
    from symex import SymEx, strip, apply_closure
    b = facts.bodies.get('yui_matrix::dense::snf::SnfCalc::<R>::new')
    if b is None:
        rep.indet('E6.M5: SnfCalc::new not found')
        return
    rep.saw(b)
    inst = 'SnfCalc::new|accumulator k exists iff flags[k]; p, pinv of size m, q, qinv of size n'
    want = {'p': ('m', 0), 'pinv': ('m', 1), 'q': ('n', 2), 'qinv': ('n', 3)}
    got = {}
    rows = {}
    for p in SymEx(b, max_paths=2000).run():
        r = p.ret
        if p.end != 'return' or r is None or r[0] != 'adt' or len(r) != 5:
            continue
        flds = dict(zip(r[3], r[4]))
        for name in want:
            t = strip(flds.get(name, ('none',)))
            size = flag = None
            if t[0] == 'call' and len(t[2]) == 2 and strip(t[2][0])[0] == 'closure' and strip(t[2][1])[0] == 'tuple' and len(strip(t[2][1])[1]) == 2:
                a_size, a_flag = strip(t[2][1])[1]
                # the helper: Some(id(size)) iff flag
                outs = set()
                for q in apply_closure(t[2][0], [('SIZE',), ('FLAG',)]) or []:
                    if q.end != 'return' or q.ret is None:
                        continue
                    conds = [(c.term, c.value) for c in q.branches()]
                    v = strip(q.ret)
                    if v[0] == 'adt' and v[2] == 'None' and conds == [(('FLAG',), 0)]:
                        outs.add('none-if-unset')
                    elif v[0] == 'adt' and v[2] == 'Some' and len(conds) == 1 and conds[0][0] == ('FLAG',) and conds[0][1] != 0 and strip(v[4][0])[0] == 'call' and strip(v[4][0])[1].split('::')[-1] == 'id' and strip(strip(v[4][0])[2][0]) == ('SIZE',):
                        outs.add('id-if-set')
                    else:
                        outs.add('?')
                if outs != {'none-if-unset', 'id-if-set'}:
                    got[name] = ('?', 'helper %s' % sorted(outs))
                    continue
                s_ = sk(a_size)
                size = 'm' if re.match(r'^shape\(&?arg1\)\.0$|^nrows\(&?arg1\)$', s_) else ('n' if re.match(r'^shape\(&?arg1\)\.1$|^ncols\(&?arg1\)$', s_) else None)
                f_ = strip(a_flag)
                m_ = re.match(r'^arg2\[(\d)\]$', sk(f_))
                flag = int(m_.group(1)) if m_ else None
            if size is None and t[0] == 'adt' and t[1].endswith('Option') and t[2] in ('Some', 'None'):
                # the helper was executed in place: on this path the field is Some(id(size)) or None, and the path has
                # decided each flag it looked at - which flag decides this field is read off all paths below
                flagv = {}
                for c in p.branches():
                    m_ = re.match(r'^arg2\[(\d)\]$', sk(c.term))
                    if m_:
                        flagv[int(m_.group(1))] = (c.value != 0)
                sz = None
                if t[2] == 'Some':
                    v = strip(t[4][0])
                    if v[0] == 'call' and v[1].split('::')[-1] == 'id' and len(v[2]) == 1:
                        s_ = sk(strip(v[2][0]))
                        sz = 'm' if re.match(r'^shape\(&?arg1\)\.0$|^nrows\(&?arg1\)$', s_) else ('n' if re.match(r'^shape\(&?arg1\)\.1$|^ncols\(&?arg1\)$', s_) else '?')
                    else:
                        sz = '?'
                rows.setdefault(name, []).append((t[2] == 'Some', sz, flagv))
                continue
            if size is None or flag is None:
                got[name] = ('?', sk(t)[:80])
            else:
                got[name] = (size, flag)
    for name, rs in rows.items():
        # the flag k with: present on a path iff flags[k] on that path (for all paths), and one size
        ks = [k_ for k_ in range(4) if all(k_ in fv and fv[k_] == some for some, sz, fv in rs)]
        sizes = {sz for some, sz, fv in rs if some}
        if len(ks) == 1 and len(sizes) == 1 and '?' not in sizes and any(some for some, _, _ in rs) and any(not some for some, _, _ in rs):
            got[name] = (next(iter(sizes)), ks[0])
        else:
            got[name] = ('?', 'presence follows flags %s, sizes %s' % (ks, sorted(sizes)))
    if set(got) != set(want) or any(v[0] == '?' for v in got.values()):
        rep.indet('E6.M5: SnfCalc::new outside the recognised fragment: %s' % {k: v for k, v in got.items() if v[0] == '?'} if got else 'E6.M5: SnfCalc::new: no struct literal found')
    elif got == want:
        rep.ok('E6.M5-flag-table', inst, 'p: (m, flags[0]), pinv: (m, flags[1]), q: (n, flags[2]), qinv: (n, flags[3])')
    else:
        wrong = {k: v for k, v in got.items() if v != want[k]}
        rep.violation('E6.M5-flag-table', inst,
                      'SnfCalc::new creates %s: the flags are [p, pinv, q, qinv] and the sizes (m, m, n, n) - a transform that was requested is not returned (and an unrequested one is computed) whenever the two flags differ' % ', '.join('%s from (%s, flags[%d])' % (k, v[0], v[1]) for k, v in sorted(wrong.items())),
                      where=b.where())
