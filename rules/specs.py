"""Frozen E1 instance tables (one line of reason per exception)."""
from e1_typestate import TypeSpec, HASHMAP_PRESERVING, VEC_PRESERVING
from core import op_const, op_place


def _second_arg_is_one(body, call):
    """Ratio::new_raw(a, T::one()): the denominator operand is the result of One::one()"""
    if len(call.args) != 2:
        return False
    p = op_place(call.args[1])
    if p is None or p['p']:
        return False
    for c in body.calls():
        if c.dest and not c.dest['p'] and c.dest['l'] == p['l']:
            return (c.generic or '').endswith('One::one')
    return False


def _arg_is_new_map(body, call):
    """MultiDeg::new_reduced(BTreeMap::new())"""
    p = op_place(call.args[0]) if call.args else None
    if p is None or p['p']:
        return False
    for c in body.calls():
        if c.dest and not c.dest['p'] and c.dest['l'] == p['l']:
            return (c.generic or '').endswith('BTreeMap::<K, V>::new') or (c.generic or '').endswith('::new')
    return False


def _has_filter_not_zero(body, call):
    """MultiDeg::from_iter: the collected iterator passed through `filter(|(_, v)| !v.is_zero())`"""
    return any((c.generic or '').endswith('Iterator::filter') for c in body.calls())


def _maps_neg(body, call):
    """<&MultiDeg as Neg>::neg: entries of a reduced value mapped through Neg (-d != 0 when d != 0)"""
    return any((c.generic or '').endswith('Iterator::map') for c in body.calls())


LC = TypeSpec(
    adt='yui::types::lc::lc::Lc', fields=['data'],
    normaliser=r'types::lc::lc::Lc::<X, R>::clean$',
    preserving=HASHMAP_PRESERVING,
    dirty_api=[(r'types::lc::lc::Lc::<X, R>::add_pair(_ref)?$', 'documented "must clean after call"')],
    literal_ok={r'types::lc::lc::Lc::<X, R>::new$': 'empty map',
                r'<types::lc::lc::Lc<X, R> as std::default::Default>::default$': 'derived Default: empty map',
                r'<types::lc::lc::Lc<X, R> as std::clone::Clone>::clone$': 'derived Clone: copy of a clean value'},
)

MDEG = TypeSpec(
    adt='yui::types::poly::mdeg::MultiDeg', fields=['data'],
    normaliser=r'types::poly::mdeg::MultiDeg::<I>::reduce$',
    preserving=HASHMAP_PRESERVING,
    raw_ctors=[r'types::poly::mdeg::MultiDeg::<I>::new_reduced$'],
    born_clean={r'types::poly::mdeg::MultiDeg::<I>::empty$': ('empty map', _arg_is_new_map),
                r'<types::poly::mdeg::MultiDeg<I> as std::iter::FromIterator<\(usize, I\)>>::from_iter$': ('entries filtered by !is_zero', _has_filter_not_zero),
                r'<&types::poly::mdeg::MultiDeg<I> as std::ops::Neg>::neg$': ('negation of the entries of a reduced value', _maps_neg)},
    literal_ok={r'types::poly::mdeg::MultiDeg::<I>::new_reduced$': 'the raw constructor itself',
                r'<types::poly::mdeg::MultiDeg<I> as std::default::Default>::default$': 'derived Default: empty map',
                r'<types::poly::mdeg::MultiDeg<I> as std::clone::Clone>::clone$': 'derived Clone'},
)

TNG = TypeSpec(
    adt='yui_kh::kh::internal::v2::tng::Tng', fields=['comps'],
    normaliser=r'kh::internal::v2::tng::Tng::normalize$',
    preserving=VEC_PRESERVING,
    literal_ok={r'kh::internal::v2::tng::Tng::new$': 'components sorted by Itertools::sorted before the literal',
                r'<kh::internal::v2::tng::Tng as std::clone::Clone>::clone$': 'derived Clone'},
)

COB = TypeSpec(
    adt='yui_kh::kh::internal::v2::cob::Cob', fields=['comps'],
    normaliser=r'kh::internal::v2::cob::Cob::normalize$',
    preserving=VEC_PRESERVING,
    dirty_api=[(r'kh::internal::v2::cob::Cob::_connect_comp$', 'private helper, callers normalise'),
               (r'kh::internal::v2::cob::Cob::find_comp$', 'private: hands out &mut CobComp into comps')],
    literal_ok={r'kh::internal::v2::cob::Cob::new$': 'components sorted by Itertools::sorted before the literal',
                r'<kh::internal::v2::cob::Cob as std::clone::Clone>::clone$': 'derived Clone',
                r'<kh::internal::v2::cob::Cob as std::default::Default>::default$': 'derived Default: empty vec'},
)
