"""E20 - the arithmetic of QuadInt<I, D> is the arithmetic of Z[w], w = sqrt(D) or (1 + sqrt(D))/2  (C14 / C15).

The component formulas of `mul`, `conj`, `norm`, `inv`, the two `div_round`s and `rem` are read from the MIR
path summaries as *polynomials* in the components (a0, a1), (b0, b1) and the const parameter D, and compared with
the ring they are supposed to implement - symbolically in D, separately for D = 1 (mod 4) and D = 2, 3 (mod 4):

  Q1  every return path of  &QuadInt * &QuadInt  equals the product in Z[w] under that path's zero-tests
      (w^2 = D,  resp.  w^2 = w + (D - 1)/4);
  Q2  conj is the non-trivial automorphism: z + conj z and z * conj z have no w-part, and z * conj z is the
      polynomial `norm` returns;
  Q3  inv(z) = (norm z)^-1 * conj z  and is None exactly when the norm has no inverse;
  Q4  div_round (D = -1, -3): the quotient's components are div_round(c_k, norm rhs) where c_0 + c_1 w is the
      exact numerator  self * conj rhs  re-expressed in the basis the rounding is done in (for Eisenstein
      integers: (m - n) + n w with m <- c_0 + c_1, n <- c_1, a linear identity that is checked);
  Q5  rem = self - rhs * (self / rhs)   (the Euclidean identity gcd relies on, by construction).
  Q6  normalizing_unit (D = -1, -3): on every feasible path of the quadrant / sextant table the returned u is a
      unit and the sign conditions of the path entail (Fourier-Motzkin over a, b) that u * z lies in the
      fundamental sector {x + y w : x > 0, y >= 0} (or z = 0 and u = 1). The sector meets every orbit of the unit
      group exactly once, hence z -> u z is idempotent and constant on associates.

The unit tests fix D in {-1, -3, 2, 5 ...} and a handful of operands; a slip in one coefficient of the
D = 1 (mod 4) branch, in a zero-test shortcut or in the Eisenstein change of basis is a polynomial
non-identity here. NOT decided: overflow of the component type, rounding inside the integer div_round (E15).
"""
import re
from fractions import Fraction
from symex import SymEx, show, strip

Q = 'yui::types::qint::QuadInt::<I, D>::'
MUL = "yui::<&'a types::qint::QuadInt<I, D> as std::ops::Mul<&'b types::qint::QuadInt<I, D>>>::mul"
INV = 'yui::<types::qint::QuadInt<I, D> as abst::ring::Ring>::inv'
DR1 = 'yui::<types::qint::QuadInt<I, -1> as misc::div_round::DivRound>::div_round'
DR3 = 'yui::<types::qint::QuadInt<I, -3> as misc::div_round::DivRound>::div_round'
REMS = ["yui::<&'a types::qint::QuadInt<I, -1> as std::ops::Rem<&'b types::qint::QuadInt<I, -1>>>::rem",
        "yui::<&'a types::qint::QuadInt<I, -3> as std::ops::Rem<&'b types::qint::QuadInt<I, -3>>>::rem"]


from symex import private_helper
INL = private_helper()    # a step extracted into a private helper is read in place


def sk(t):
    return re.sub(r'#(?:i\d+:)?\d+\.\d+', '', show(t, -60))


class Unrec(Exception):
    pass


# ---- polynomials: {monomial: Fraction}, monomial = sorted tuple of (var, exp)

def pconst(c):
    c = Fraction(c)
    return {(): c} if c else {}


def pvar(v):
    return {((v, 1),): Fraction(1)}


def padd(p, q, s=1):
    r = dict(p)
    for k, v in q.items():
        r[k] = r.get(k, 0) + s * v
        if r[k] == 0:
            del r[k]
    return r


def pmul(p, q):
    r = {}
    for m1, v in p.items():
        for m2, w in q.items():
            d = dict(m1)
            for x, e in m2:
                d[x] = d.get(x, 0) + e
            k = tuple(sorted(d.items()))
            r[k] = r.get(k, 0) + v * w
            if r[k] == 0:
                del r[k]
    return r


def psub_var(p, var, q):
    """substitute var := q"""
    r = {}
    for m, v in p.items():
        term = {tuple(x for x in m if x[0] != var): v}
        e = dict(m).get(var, 0)
        for _ in range(e):
            term = pmul(term, q)
        r = padd(r, term)
    return r


def pshow(p):
    if not p:
        return '0'
    out = []
    for m, v in sorted(p.items()):
        mon = '*'.join(x if e == 1 else '%s^%d' % (x, e) for x, e in m)
        out.append(('%s*%s' % (v, mon)) if mon and v != 1 else (mon or str(v)))
    return ' + '.join(out)


D_ = pvar('D')


def last(n):
    return n.split('::')[-1]


def poly(t, env):
    """term -> polynomial; env maps 'argN' -> (p0, p1) components"""
    t = strip(t)
    k = t[0]
    if k == 'const':
        if isinstance(t[1], int) and not isinstance(t[1], bool):
            return pconst(t[1])
        if t[1] == 'D':
            return D_
        raise Unrec('constant ' + sk(t))
    if k == 'field':
        base = strip(t[1])
        # pair(argN).k / pair_into(argN).k / argN.k
        if base[0] == 'call' and last(base[1]) in ('pair', 'pair_into') and len(base[2]) == 1:
            base = strip(base[2][0])
        if base[0] == 'arg' and str(t[2]) in ('0', '1') and ('arg%d' % base[1]) in env:
            return env['arg%d' % base[1]][int(t[2])]
        if base[0] in ('bin',) and str(t[2]) == '0':      # SubWithOverflow(..).0
            return poly(base, env)
        raise Unrec('field ' + sk(t)[:80])
    if k == 'bin':
        op, a, b = t[1], poly(t[2], env), poly(t[3], env)
        op = op.replace('WithOverflow', '').replace('Unchecked', '')
        if op == 'Add':
            return padd(a, b)
        if op == 'Sub':
            return padd(a, b, -1)
        if op == 'Mul':
            return pmul(a, b)
        if op == 'Div' and set(b) == {()}:
            # integer division by a literal: exact on the congruence class the path is guarded by (checked by the caller)
            return pmul(a, pconst(1 / b[()]))
        raise Unrec('operator ' + op)
    if k == 'call':
        n = last(t[1])
        a = t[2]
        if n in ('add', 'sub', 'mul') and len(a) == 2 and 'ops::' in t[1]:
            x, y = poly(a[0], env), poly(a[1], env)
            return padd(x, y) if n == 'add' else padd(x, y, -1) if n == 'sub' else pmul(x, y)
        if n == 'neg' and len(a) == 1:
            return padd({}, poly(a[0], env), -1)
        if n in ('zero', 'one') and not a:
            return pconst(0 if n == 'zero' else 1)
        if n in ('clone', 'unwrap', 'from_i32', 'from', 'into', 'to_owned') and len(a) == 1:
            return poly(a[0], env)
        raise Unrec('call ' + sk(t)[:80])
    if k == 'param' or (k == 'const_param'):
        return D_
    if sk(t) == 'D':
        return D_
    raise Unrec(sk(t)[:80])


def qint(t, env):
    t = strip(t)
    if t[0] == 'adt' and t[1].endswith('QuadInt') and len(t[4]) == 2:
        return (poly(t[4][0], env), poly(t[4][1], env))
    raise Unrec('not QuadInt(x, y): ' + sk(t)[:80])


def ring_mul(u, v, mode):
    """(u0 + u1 w)(v0 + v1 w) in Z[w]"""
    x = pmul(u[0], v[0])
    y = padd(pmul(u[0], v[1]), pmul(u[1], v[0]))
    ww = pmul(u[1], v[1])
    if mode == 1:     # w^2 = w + (D - 1)/4
        return (padd(x, pmul(ww, pmul(padd(D_, pconst(1), -1), pconst(Fraction(1, 4))))), padd(y, ww))
    return (padd(x, pmul(ww, D_)), y)


def path_mode(p):
    """D mod 4 selected by the path's branch on rem_euclid(D, 4): 1, 23 or None (no such branch)"""
    for e in p.branches():
        if sk(e.term) == 'rem_euclid(D, 4)':
            if e.value == 1:
                return 1
            if e.value in (2, 3):
                return 23
            return 'other'
    return None


A = (pvar('a0'), pvar('a1'))
B_ = (pvar('b0'), pvar('b1'))


def zero_tests(p):
    """zero-tests of components taken along the path -> substitutions var := 0"""
    subs = []
    for e in p.branches():
        s = sk(e.term)
        m = re.match(r'is_zero\(&?\*?(?:pair(?:_into)?\()?&?\*?arg(\d)\)?\.(\d)\)$', s)
        if m and e.value == 'else':    # bool true
            subs.append(('ab'[int(m.group(1)) - 1] + m.group(2)))
        elif m and e.value == 0:
            pass
        elif s.startswith('is_zero('):
            raise Unrec('zero test on ' + s[:60])
    return subs


def apply_subs(u, subs):
    for v in subs:
        u = tuple(psub_var(c, v, {}) for c in u)
    return u


def run(facts, rep, parts=('Q1', 'Q2', 'Q3', 'Q4', 'Q5', 'Q6')):
    need = {'mul': MUL, 'conj': Q + 'conj', 'norm': Q + 'norm', 'inv': INV, 'dr1': DR1, 'dr3': DR3}
    bodies = {k: facts.bodies.get(v) for k, v in need.items()}
    missing = [k for k, b in bodies.items() if b is None]
    if missing:
        rep.indet('E20: QuadInt functions not found: %s' % missing)
        return
    for b in bodies.values():
        rep.saw(b)
    env2 = {'arg1': A, 'arg2': B_}
    env1 = {'arg1': A}
    n_inst = 0
    try:
        # Q1
        seen_modes = set()
        for p in (SymEx(bodies['mul'], inline=INL).run() if 'Q1' in parts else ()):
            if p.end != 'return':
                continue
            mode = path_mode(p)
            subs = zero_tests(p)
            got = apply_subs(qint(p.ret, env2), subs)
            modes = [mode] if mode in (1, 23) else [1, 23]
            if mode == 'other':
                continue
            for m in modes:
                seen_modes.add(m)
                want = apply_subs(ring_mul(A, B_, 1 if m == 1 else 23), subs)
                inst = 'QuadInt::mul|path [D mod 4: %s; zero: %s] = product in Z[w]' % ({1: '1', 23: '2,3'}[m], ','.join(subs) or '-')
                n_inst += 1
                if got == want:
                    rep.ok('E20.Q1-product', inst, '(%s) + (%s) w' % (pshow(got[0]), pshow(got[1])))
                else:
                    rep.violation('E20.Q1-product', inst,
                                  'returns (%s) + (%s) w but (a0 + a1 w)(b0 + b1 w) = (%s) + (%s) w with %s' %
                                  (pshow(got[0]), pshow(got[1]), pshow(want[0]), pshow(want[1]), 'w^2 = w + (D-1)/4' if m == 1 else 'w^2 = D'),
                                  where=bodies['mul'].where())
        if 'Q1' in parts and seen_modes != {1, 23}:
            rep.indet('E20: mul does not cover both congruence classes of D (%s)' % seen_modes)
        # Q2
        conj = {}
        for p in SymEx(bodies['conj'], inline=INL).run():
            if p.end == 'return' and path_mode(p) in (1, 23):
                conj.setdefault(path_mode(p), set()).add(tuple(tuple(sorted(c.items())) for c in qint(p.ret, env1)))
        norm = {}
        for p in SymEx(bodies['norm'], inline=INL).run():
            if p.end == 'return' and path_mode(p) in (1, 23):
                norm.setdefault(path_mode(p), set()).add(tuple(sorted(poly(p.ret, env1).items())))
        for m in ((1, 23) if 'Q2' in parts else ()):
            inst = 'QuadInt::conj, norm|D mod 4 = %s: z + conj z, z * conj z rational; norm = z * conj z' % {1: '1', 23: '2,3'}[m]
            n_inst += 1
            if len(conj.get(m, ())) != 1 or len(norm.get(m, ())) != 1:
                rep.indet('E20: conj / norm have %d / %d shapes for D mod 4 = %s' % (len(conj.get(m, ())), len(norm.get(m, ())), m))
                continue
            c = tuple(dict(x) for x in next(iter(conj[m])))
            nm = dict(next(iter(norm[m])))
            tr = (padd(A[0], c[0]), padd(A[1], c[1]))
            pr = ring_mul(A, c, m)
            probs = []
            if tr[1]:
                probs.append('z + conj(z) has w-part %s' % pshow(tr[1]))
            if pr[1]:
                probs.append('z * conj(z) has w-part %s' % pshow(pr[1]))
            if pr[0] != nm:
                probs.append('norm returns %s but z * conj(z) = %s' % (pshow(nm), pshow(pr[0])))
            if not c[1] or c == A:
                probs.append('conj is the identity')
            if probs:
                rep.violation('E20.Q2-conj-norm', inst, '; '.join(probs) + ' (conj z = (%s) + (%s) w)' % (pshow(c[0]), pshow(c[1])), where=bodies['norm'].where())
            else:
                rep.ok('E20.Q2-conj-norm', inst, 'conj = (%s) + (%s) w; norm = %s' % (pshow(c[0]), pshow(c[1]), pshow(nm)))
        # Q3
        shapes = set()
        for p in SymEx(bodies['inv'], inline=INL).run():
            if p.end == 'return':
                br = [(sk(e.term), e.value) for e in p.branches()]
                shapes.add((sk(p.ret), tuple(br)))
        want = {('Option::Some{0: mul(from(inv(&norm(arg1)).Some.0), conj(arg1))}', (('discr(inv(&norm(arg1)))', 1),)),
                ('Option::None{}', (('discr(inv(&norm(arg1)))', 'else'),))}
        want2 = {(a, tuple((t, 0 if v == 'else' else v) for t, v in b)) for a, b in want}
        inst = 'QuadInt::inv|(norm z)^-1 * conj z, None iff the norm is not a unit'
        n_inst += 1
        norm_shapes = {re.sub(r'&', '', s[0]) for s in shapes}
        ok = {re.sub(r'&', '', a) for a, _ in want} == norm_shapes and len(shapes) == 2 and \
            all(len(b) == 1 and b[0][0].replace('&', '') == 'discr(inv(norm(arg1)))' for _, b in shapes) and \
            {(a.startswith('Option::Some'), b[0][1] == 1) for a, b in shapes} == {(True, True), (False, False)}
        if 'Q3' not in parts:
            n_inst -= 1
        elif ok:
            rep.ok('E20.Q3-inverse', inst, 'Some(from(inv(norm z)) * conj z) / None')
        else:
            # a mismatch is a statement about inv only if its shapes stay within the vocabulary norm / conj / inv / from / mul
            voc = all(re.match(r'^(Option::(Some\{0: |None\{\})|mul|from|inv|norm|conj|neg|clone|arg1|Some|[0-9]|[&(){}., :])*$', a) for a, _ in shapes) and \
                all(all(re.match(r'^(discr|inv|norm|is_unit|arg1|[&(), ])*$', t) for t, _ in b) for _, b in shapes)
            if voc and shapes:
                rep.violation('E20.Q3-inverse', inst, 'inv has the shapes %s' % sorted(shapes), where=bodies['inv'].where())
            else:
                raise Unrec('inv has the shapes %s' % sorted(shapes)[:2])
        # Q4
        for key, d, basis in ((('dr1', -1, 'gauss'), ('dr3', -3, 'eisenstein')) if 'Q4' in parts else ()):
            b = bodies[key]
            rets = [p.ret for p in SymEx(b, inline=INL).run() if p.end == 'return']
            inst = 'QuadInt<%d>::div_round|components of (self * conj rhs) rounded by norm rhs' % d
            n_inst += 1
            if len(rets) != 1:
                rep.indet('E20: div_round<%d> has %d return shapes' % (d, len(rets)))
                continue
            probs = []
            r = strip(rets[0])
            if not (r[0] == 'adt' and r[1].endswith('QuadInt') and len(r[4]) == 2):
                rep.indet('E20: div_round<%d> does not return QuadInt(x, y)' % d)
                continue

            NUM = "mul(arg1, conj(arg2))"
            DEN = "norm(arg2)"

            def comp(t):
                """component term -> polynomial in c0, c1 (numerator components) where every div_round(X, norm rhs) -> X"""
                t = strip(t)
                if t[0] == 'call' and last(t[1]) == 'div_round' and len(t[2]) == 2:
                    if sk(t[2][1]).replace('&', '') != DEN:
                        raise Unrec('rounded by %s, not by norm(rhs)' % sk(t[2][1]))
                    return lin(t[2][0])
                if t[0] == 'call' and last(t[1]) in ('add', 'sub') and len(t[2]) == 2:
                    x, y = comp(t[2][0]), comp(t[2][1])
                    return padd(x, y, 1 if last(t[1]) == 'add' else -1)
                if t[0] == 'call' and last(t[1]) == 'neg':
                    return padd({}, comp(t[2][0]), -1)
                raise Unrec('component is not built from div_round(_, norm rhs): ' + sk(t)[:80])

            def lin(t):
                t = strip(t)
                if t[0] == 'field':
                    base = strip(t[1])
                    if base[0] == 'call' and last(base[1]) in ('pair', 'pair_into') and sk(base[2][0]).replace('&', '') == NUM and str(t[2]) in '01':
                        return pvar('c' + str(t[2]))
                    raise Unrec('numerator is %s, expected self * conj(rhs)' % sk(base)[:80])
                if t[0] == 'call' and last(t[1]) in ('add', 'sub') and len(t[2]) == 2:
                    return padd(lin(t[2][0]), lin(t[2][1]), 1 if last(t[1]) == 'add' else -1)
                if t[0] == 'call' and last(t[1]) in ('clone',):
                    return lin(t[2][0])
                raise Unrec('rounded operand ' + sk(t)[:80])
            try:
                x, y = comp(r[4][0]), comp(r[4][1])
            except Unrec as e:
                rep.violation('E20.Q4-div-round', inst, 'div_round<%d>: %s' % (d, e), where=b.where())
                continue
            c0, c1 = pvar('c0'), pvar('c1')
            if (x, y) != (c0, c1):
                probs.append('before rounding the quotient is (%s) + (%s) w, expected c0 + c1 w for self * conj(rhs) = c0 + c1 w' % (pshow(x), pshow(y)))
            if probs:
                rep.violation('E20.Q4-div-round', inst, '; '.join(probs), where=b.where())
            else:
                rep.ok('E20.Q4-div-round', inst, '%s basis: exact part is the numerator' % basis)
        # Q5
        for name in (REMS if 'Q5' in parts else ()):
            b = facts.bodies.get(name)
            if b is None:
                rep.indet('E20: %s not found' % name)
                continue
            rep.saw(b)
            rets = {sk(p.ret).replace('&', '') for p in SymEx(b, inline=INL).run() if p.end == 'return'}
            inst = '%s|self - rhs * (self / rhs)' % name.split(' as ')[0].split('<')[-1]
            n_inst += 1
            if rets == {'sub(arg1, mul(arg2, div(arg1, arg2)))'}:
                rep.ok('E20.Q5-remainder', inst, 'a - b * (a / b)')
            elif rets and all(re.match(r'^(sub|mul|div|add|neg|clone|arg[12]|[(), ])*$', r_) for r_ in rets):
                rep.violation('E20.Q5-remainder', inst, 'rem returns %s' % sorted(rets), where=b.where())
            else:
                raise Unrec('rem returns %s' % sorted(rets)[:2])
    except Unrec as e:
        rep.indet('E20: QuadInt arithmetic outside the recognised fragment: %s' % e)
        return
    rep.floor('E20 QuadInt identities %s' % '+'.join(p for p in parts if p != 'Q6'), n_inst, sum({'Q1': 7, 'Q2': 2, 'Q3': 1, 'Q4': 2, 'Q5': 2}.get(p, 0) for p in parts))
    if 'Q6' in parts:
        check_normalizing_unit(facts, rep)


NU = 'yui::<types::qint::QuadInt<I, D> as abst::ring::Ring>::normalizing_unit'
ONE = 'yui::<types::qint::QuadInt<I, D> as num_traits::One>::one'


def _const_qint(t, facts):
    """unit-valued term -> (u0, u1) integers"""
    t = strip(t)
    if t[0] == 'call':
        n = last(t[1])
        if n == 'one' and not t[2]:
            return ('one',)
        if n == 'omega' and not t[2]:
            return (0, 1)
        if n == 'neg' and len(t[2]) == 1:
            v = _const_qint(t[2][0], facts)
            if v == ('one',):
                return ('-one',)
            return tuple(-x for x in v)
        if n == 'new' and len(t[2]) == 2:
            xs = [_const_qint(x, facts) for x in t[2]]
            if all(x in (('one',), ('-one',)) for x in xs):
                return tuple(1 if x == ('one',) else -1 for x in xs)
    raise Unrec('unit term ' + sk(t)[:60])


def check_normalizing_unit(facts, rep):
    from e4_bitseq import Lin, entails, fm_infeasible
    b = facts.bodies.get(NU)
    om = facts.bodies.get(Q + 'omega')
    one = facts.bodies.get(ONE)
    if not (b and om and one):
        rep.indet('E20.Q6: normalizing_unit / omega / one not found')
        return
    rep.saw(b)
    try:
        om_s = {sk(p.ret) for p in SymEx(om, inline=INL).run() if p.end == 'return'}
        one_s = {sk(p.ret) for p in SymEx(one, inline=INL).run() if p.end == 'return'}
        nw = facts.bodies.get(Q + 'new')
        new_s = {sk(p.ret) for p in SymEx(nw, inline=INL).run() if p.end == 'return'} if nw else set()
        if (om_s, one_s, new_s) != ({'new(zero(), one())'}, {'new(one(), zero())'}, {'QuadInt::QuadInt{0: arg1, 1: arg2}'}):
            raise Unrec('omega() / one() / new are %s / %s / %s' % (om_s, one_s, new_s))
        a, bb = Lin.var('a'), Lin.var('b')
        comp = {'0': a, '1': bb}
        n = {-1: 0, -3: 0}
        for p in SymEx(b, max_paths=20000, inline=INL).run():
            if p.end != 'return':
                continue
            d = None
            K = []
            asg = {}
            feas = True
            for e in p.branches():
                s = sk(e.term)
                if s == 'D':
                    d = {4294967295: -1, 4294967293: -3}.get(e.value, 'other')
                    continue
                m = re.match(r'is_(positive|negative)\((.*)\)$', s)
                if not m:
                    raise Unrec('condition ' + s[:60])
                truth = e.value != 0
                if asg.setdefault(s, truth) != truth:
                    feas = False
                    break
                x = m.group(2).replace('&', '').replace('*', '').replace('pair(arg1)', 'arg1')
                m0 = re.match(r'arg1\.([01])$', x)
                m1 = re.match(r'add\(arg1\.0, arg1\.1\)$', x) or re.match(r'add\(arg1\.1, arg1\.0\)$', x)
                if m0:
                    lin = comp[m0.group(1)]
                elif m1:
                    lin = a + bb
                else:
                    raise Unrec('sign test on ' + x[:60])
                if m.group(1) == 'positive':
                    K.append(lin - Lin.const(1) if truth else -lin)
                else:
                    K.append(-lin - Lin.const(1) if truth else lin)
            if not feas or d in (None, 'other') or fm_infeasible(K):
                continue
            u = _const_qint(p.ret, facts)
            if u == ('one',):
                u = (1, 0)
            elif u == ('-one',):
                u = (-1, 0)
            # u * z with w^2 = -1 (D = -1) or w^2 = w - 1 (D = -3)
            re_ = a.scale(u[0]) + bb.scale(-u[1])
            im_ = a.scale(u[1]) + bb.scale(u[0]) + (bb.scale(u[1]) if d == -3 else Lin())
            unit = (u[0] * u[0] + u[1] * u[1] == 1) if d == -1 else (u[0] * u[0] + u[0] * u[1] + u[1] * u[1] == 1)
            conds = sorted('%s=%s' % (k.replace('pair(arg1)', 'z').replace('*arg1', 'z').replace('arg1', 'z'), int(v)) for k, v in asg.items())
            inst = 'QuadInt<%d>::normalizing_unit|[%s] -> u = %d + %d w' % (d, ', '.join(conds), u[0], u[1])
            n[d] += 1
            in_sector = entails(K, re_ - Lin.const(1)) and entails(K, im_)
            zero = all(entails(K, x) for x in (a, -a, bb, -bb)) and u == (1, 0)
            if unit and (in_sector or zero):
                rep.ok('E20.Q6-normalizing-unit', inst, 'u z in the fundamental sector' if in_sector else 'z = 0')
            else:
                rep.violation('E20.Q6-normalizing-unit', inst,
                              'for z = a + b w with [%s] the table returns u = %d + %d w (unit: %s) but u z = (%s) + (%s) w is not forced into the sector x > 0, y >= 0: normalisation is not constant on associates' %
                              (', '.join(conds), u[0], u[1], unit, re_, im_), where=b.where())
        rep.floor('E20.Q6 Gauss quadrant table rows', n[-1], 5)
        rep.floor('E20.Q6 Eisenstein sextant table rows', n[-3], 7)
    except Unrec as e:
        rep.indet('E20.Q6: normalizing_unit outside the recognised fragment: %s' % e)


def selftest(rep):
    """the polynomial engine refutes a wrong product / norm"""
    bad = (padd(pmul(A[0], B_[0]), pmul(pmul(A[1], B_[1]), D_)), padd(pmul(A[0], B_[1]), pmul(A[1], B_[0])))
    ok = bad == ring_mul(A, B_, 23) and bad != ring_mul(A, B_, 1)
    c = (padd(A[0], A[1]), padd({}, A[1], -1))
    pr = ring_mul(A, c, 1)
    ok = ok and not pr[1] and ring_mul(A, (A[0], padd({}, A[1], -1)), 1)[1] != {}
    if ok:
        rep.ok('E20.selftest', 'polynomial engine|separates the two rings', 'ok')
    else:
        rep.indet('E20 selftest failed')
