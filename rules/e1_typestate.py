"""E1 - representation-invariant typestate: "dirty => normalise before the value escapes".

For a type T whose derived PartialEq/Hash relies on a canonical representation (no zero
coefficient, sorted components, ...) the invariant holds for every reachable value iff every
code path that can dirty the representation re-establishes it before the value escapes.
Forward must-analysis on MIR, per body, state per tracked place in {clean, dirty}:

  dirtying : assignment through an invariant field; a `&mut` into an invariant field handed to a
             callee that is not in the *preserving* list of its container; a call of a
             documented-dirty function of T on the place; birth by a raw constructor / struct
             literal unless the site is in the reviewed table (with a mechanical justification)
  cleaning : call of T's normaliser on the place; whole-value assignment from a clean value
  obligations
    (a) at every normal return every tracked place that outlives the body (a `&mut T` the body
        was given, a `&mut T` into somebody else's field, the returned value) is clean - unless
        the body itself is in the documented-dirty table;
    (b) a dirty owned value is never moved anywhere (returned, pushed, wrapped) before cleaning;
    (c) raw construction sites are exactly the table entries;
    (d) the invariant fields are private to T's module, so no other module can write them.
Values received from elsewhere are clean by induction over (a)-(d).
"""
import re
from core import op_place, op_const, Call, operands_of_rvalue

C, D = 'clean', 'dirty'

HASHMAP_PRESERVING = ['reserve', 'remove', 'remove_entry', 'retain', 'clear', 'len', 'get', 'iter', 'keys', 'values',
                      'contains_key', 'is_empty', 'shrink_to_fit', 'capacity', 'drain', 'into_iter', 'first_key_value',
                      'last_key_value', 'pop_first', 'pop_last']
VEC_PRESERVING = ['remove', 'pop', 'clear', 'retain', 'truncate', 'len', 'is_empty', 'iter', 'contains', 'reserve',
                  'capacity', 'shrink_to_fit', 'drain', 'first', 'last', 'get', 'sort', 'sort_unstable', 'as_slice']
# calls that only forward a `&mut` into the container (result aliases the same field)
ALIAS_FORWARD = ['DerefMut::deref_mut', 'AsMut::as_mut', 'BorrowMut::borrow_mut', 'Deref::deref', 'AsRef::as_ref']


class TypeSpec:
    def __init__(self, adt, fields, normaliser, preserving, dirty_api=(), raw_ctors=(), born_clean=None,
                 literal_ok=None):
        self.adt = adt
        self.fields = set(fields)
        self.normaliser = normaliser            # def-path regex
        self.preserving = preserving            # method names on the container
        self.dirty_api = list(dirty_api)        # [(def-path regex, reason)]
        self.raw_ctors = list(raw_ctors)        # def-path regexes of raw constructors
        self.born_clean = born_clean or {}      # body regex -> (reason, checker(body, site) -> bool)
        self.literal_ok = literal_ok or {}      # body regex -> reason (struct literal sites)

    def is_norm(self, name):
        return bool(name and re.search(self.normaliser, name))

    def dirty_reason(self, name):
        for rx, why in self.dirty_api:
            if name and re.search(rx, name):
                return why
        return None

    def is_raw(self, name):
        return any(name and re.search(rx, name) for rx in self.raw_ctors)


def _meth(call):
    """last path segment of the generic callee"""
    n = call.generic or ''
    return n.split('::')[-1]


class BodyFlow:
    def __init__(self, facts, body, spec):
        self.facts = facts
        self.b = body
        self.spec = spec
        self.whole = {}    # local -> base key (local holds &mut T to base, or is the owned base)
        self.fld = {}      # local -> base key (local holds &mut into an invariant field of base)
        self.owned = set() # base keys that are owned locals
        self.outliving = set()
        self._build_aliases()

    def is_T(self, l):
        loc = self.b.locals[l]
        return loc.get('adt') == self.spec.adt

    def _build_aliases(self):
        b, spec = self.b, self.spec
        for l, loc in enumerate(b.locals):
            if not self.is_T(l):
                continue
            ty = loc['ty']
            if ty.startswith('&mut '):
                if 1 <= l <= b.arg_count:
                    self.whole[l] = '*_%d' % l
                    self.outliving.add('*_%d' % l)
            elif not ty.startswith('&'):
                self.whole[l] = '_%d' % l
                self.owned.add('_%d' % l)
        changed = True
        while changed:
            changed = False
            for bb, j, s in b.assigns():
                lhs = s['lhs']
                if lhs['p']:
                    continue
                t = lhs['l']
                rv = s['rv']
                src = None
                kind = None
                if rv['k'] == 'ref' and rv['mut']:
                    kind, src = self._classify_place(rv['place'])
                elif rv['k'] == 'use':
                    p = op_place(rv['op'])
                    if p is not None and not p['p']:
                        if p['l'] in self.whole and self.b.locals[t]['ty'].startswith('&mut '):
                            kind, src = 'whole', self.whole[p['l']]
                        elif p['l'] in self.fld:
                            kind, src = 'fld', self.fld[p['l']]
                if kind == 'whole' and self.whole.get(t) != src and t not in self.whole:
                    self.whole[t] = src
                    changed = True
                elif kind == 'fld' and t not in self.fld:
                    self.fld[t] = src
                    changed = True
            for c in b.calls():
                if c.dest is None or c.dest['p']:
                    continue
                if any((c.generic or '').endswith(x) for x in ALIAS_FORWARD) and c.args:
                    p = op_place(c.args[0])
                    if p is not None and not p['p'] and p['l'] in self.fld and c.dest['l'] not in self.fld:
                        self.fld[c.dest['l']] = self.fld[p['l']]
                        changed = True

    def _classify_place(self, place):
        """('whole', key) if place denotes a tracked T; ('fld', key) if it lies inside an invariant field"""
        l = place['l']
        projs = place['p']
        # through an existing field alias
        if l in self.fld and projs and projs[0] == 'deref':
            return 'fld', self.fld[l]
        base = None
        rest = projs
        if l in self.whole:
            key = self.whole[l]
            if key.startswith('*'):
                if projs and projs[0] == 'deref':
                    base, rest = key, projs[1:]
                else:
                    return None, None
            else:
                if key == '_%d' % l:
                    base, rest = key, projs
                elif projs and projs[0] == 'deref':
                    base, rest = key, projs[1:]
        if base is None:
            # a T stored in a field of something else: `(*_1).data` of type T
            return self._foreign_place(place)
        if not rest:
            return 'whole', base
        f0 = rest[0]
        if isinstance(f0, dict) and f0.get('adt') == self.spec.adt and f0.get('n') in self.spec.fields:
            return 'fld', base
        return None, None

    def _foreign_place(self, place):
        """place whose projection passes through a field *of type T* owned by another struct"""
        b = self.b
        # walk projection; we can only know the type of the final place from the destination local;
        # approximate: a field access immediately followed by an invariant field of T
        projs = place['p']
        for i, e in enumerate(projs):
            if isinstance(e, dict) and e.get('adt') == self.spec.adt and e.get('n') in self.spec.fields:
                key = 'place:' + _pstr(place['l'], projs[:i])
                self.outliving.add(key)
                return 'fld', key
        return None, None

    # -- dataflow
    def run(self):
        b = self.b
        n = len(b.blocks)
        succ = b.normal_succ()
        IN = [None] * n
        IN[0] = {k: C for k in set(self.whole.values())}
        work = [0]
        self.events = []
        self.escapes = {}
        seen_viol = {}
        ret_states = []
        while work:
            i = work.pop()
            st = dict(IN[i])
            out, rets = self._transfer(i, st, seen_viol)
            if rets is not None:
                ret_states.append((i, rets))
            for s_ in succ[i]:
                if IN[s_] is None:
                    IN[s_] = dict(out)
                    work.append(s_)
                else:
                    merged = dict(IN[s_])
                    ch = False
                    for k, v in out.items():
                        if merged.get(k, C) != D and v == D:
                            merged[k] = D
                            ch = True
                        elif k not in merged:
                            merged[k] = v
                            ch = ch or v == D
                    if ch:
                        IN[s_] = merged
                        work.append(s_)
        # second pass for stable reporting (states are final)
        self.viol = {}
        final_rets = []
        for i in range(n):
            if IN[i] is None:
                continue
            out, rets = self._transfer(i, dict(IN[i]), self.viol)
            if rets is not None:
                final_rets.append((i, rets))
        return final_rets

    def _lookup_whole_arg(self, op):
        p = op_place(op)
        if p is None:
            return None
        if not p['p'] and p['l'] in self.whole and self.b.locals[p['l']]['ty'].startswith('&mut '):
            return self.whole[p['l']]
        return None

    def _transfer(self, i, st, viol):
        b, spec = self.b, self.spec
        blk = b.blocks[i]
        for s in blk['stmts']:
            if s['k'] != 'assign':
                continue
            lhs, rv = s['lhs'], s['rv']
            line = s.get('cline') or s['line']
            kind, key = self._classify_place(lhs) if (lhs['p'] or lhs['l'] in self.whole) else (None, None)
            if kind == 'fld':
                st[key] = D
                self._note(key, 'dirty', line, 'write through invariant field')
            elif kind == 'whole' and (lhs['p'] or key in self.owned):
                # whole-value (re)assignment
                newst = C
                why = 'whole-value assignment'
                if rv['k'] == 'agg' and rv.get('adt') == spec.adt:
                    ok = self._literal_ok()
                    newst = C if ok else D
                    why = 'struct literal (%s)' % (ok or 'not a reviewed construction site')
                    self._note(key, 'literal', line, why)
                elif rv['k'] == 'use':
                    p = op_place(rv['op'])
                    if p is not None and not p['p'] and ('_%d' % p['l']) in self.owned:
                        newst = st.get('_%d' % p['l'], C)
                st[key] = newst
                if newst == C:
                    self._note(key, 'clean', line, why)
            # moves of dirty owned values into anything that is not a tracked T place
            for op in operands_of_rvalue(rv):
                if 'move' in op:
                    p = op['move']
                    k2 = '_%d' % p['l']
                    if not p['p'] and k2 in self.owned and st.get(k2) == D and kind != 'whole':
                        if not (not lhs['p'] and ('_%d' % lhs['l']) in self.owned):
                            viol.setdefault(('escape', k2), (line, 'dirty value moved into `%s`' % b.src_line(line)))
            # `_a = move _b` between owned T locals
            if not lhs['p'] and ('_%d' % lhs['l']) in self.owned and rv['k'] == 'use':
                p = op_place(rv['op'])
                if p is not None and not p['p'] and ('_%d' % p['l']) in self.owned:
                    st['_%d' % lhs['l']] = st.get('_%d' % p['l'], C)
        t = blk['term']
        rets = None
        if t['k'] == 'call':
            c = Call(b, i, t)
            line = c.line
            name = c.name or ''
            gen = c.generic or ''
            for ai, a in enumerate(c.args):
                p = op_place(a)
                if p is None or p['p']:
                    continue
                l = p['l']
                if l in self.whole and b.locals[l]['ty'].startswith('&mut '):
                    key = self.whole[l]
                    if spec.is_norm(name):
                        st[key] = C
                        self._note(key, 'clean', line, 'normaliser %s' % name.split('::')[-1])
                    elif spec.dirty_reason(name):
                        st[key] = D
                        self._note(key, 'dirty', line, 'documented-dirty call %s' % name.split('::')[-1])
                elif l in self.fld:
                    key = self.fld[l]
                    if any(gen.endswith(x) for x in ALIAS_FORWARD):
                        continue
                    if _meth(c) in spec.preserving and self._is_container_method(c):
                        continue
                    if self._copies_clean_field(c, ai):
                        self._note(key, 'clean', line, 'whole-container copy of the same field of a clean argument')
                        st[key] = C
                        continue
                    st[key] = D
                    self._note(key, 'dirty', line, '&mut into invariant field passed to %s' % gen)
                elif 'move' in a and ('_%d' % l) in self.owned:
                    k2 = '_%d' % l
                    if st.get(k2) == D and not spec.is_norm(name):
                        viol.setdefault(('escape', k2), (line, 'dirty value passed by value to %s' % gen))
            if c.dest is not None and not c.dest['p'] and ('_%d' % c.dest['l']) in self.owned:
                k2 = '_%d' % c.dest['l']
                if spec.is_raw(name):
                    ok = self._born_clean(c)
                    st[k2] = C if ok else D
                    self._note(k2, 'raw', line, 'raw constructor %s (%s)' % (name.split('::')[-1], ok or 'dirty until normalised'))
                else:
                    st[k2] = C
            elif c.dest is not None and spec.is_raw(name):
                # raw constructor result stored straight into something else (e.g. the return place of another type)
                ok = self._born_clean(c)
                if not ok:
                    viol.setdefault(('rawescape', name), (line, 'raw constructor result used without normalising'))
        elif t['k'] == 'return':
            rets = dict(st)
        return st, rets

    def _copies_clean_field(self, c, ai):
        """Clone::clone_from(&mut self.field, &other.field) with `other` a by-reference parameter of the same ADT:
        values received from outside are clean (induction), so the copy of its invariant field is clean"""
        gen = c.generic or ''
        if not gen.endswith('Clone::clone_from') or ai != 0 or len(c.args) != 2:
            return False
        try:
            from e5_locks import resolve_place
            src = op_place(c.args[1])
            if src is None:
                return False
            r = resolve_place(self.b, src, 0, False)
        except Exception:
            return False
        m = re.match(r'^&\(\*_(\d+)\)\.(\w+)$', r.strip())
        if not m:
            return False
        l, fld = int(m.group(1)), m.group(2)
        short = self.spec.adt.split('::')[-1]
        return 1 <= l <= self.b.arg_count and fld in self.spec.fields and short in self.b.locals[l]['ty'] and self.b.locals[l]['ty'].startswith('&') \
            and not self.b.locals[l]['ty'].startswith('&mut')

    def _is_container_method(self, c):
        g = c.generic or ''
        return ('collections::' in g or 'hashbrown' in g or 'alloc::vec::Vec' in g or 'std::vec::Vec' in g or
                'slice' in g or 'ahash' in g or 'HashMap' in g or 'BTreeMap' in g)

    def _note(self, key, kind, line, what):
        self.events.append((key, kind, line, what))

    def _literal_ok(self):
        for rx, why in self.spec.literal_ok.items():
            if re.search(rx, self.b.defp):
                return why
        return None

    def _born_clean(self, call):
        for rx, (why, chk) in self.spec.born_clean.items():
            if re.search(rx, self.b.defp):
                if chk is None or chk(self.b, call):
                    return why
        return None


def _pstr(l, projs):
    s = '_%d' % l
    for e in projs:
        if e == 'deref':
            s = '(*%s)' % s
        elif isinstance(e, dict) and 'n' in e:
            s += '.' + e['n']
        else:
            s += '.?'
    return s


def module_of_field(facts, adt, fields):
    a = facts.adts.get(adt)
    if a is None:
        return None, None
    vis = {}
    for v in a['variants']:
        for f in v['fields']:
            if f['name'] in fields:
                vis[f['name']] = f['vis']
    return a, vis


def run_type(facts, rep, spec, label, floor_bodies, extra_scope=None):
    """checks obligations (a)-(d) for one type; returns inventory"""
    a, vis = module_of_field(facts, spec.adt, spec.fields)
    if a is None:
        rep.indet('E1 %s: ADT %s not found' % (label, spec.adt))
        return
    mod = a['module']
    for f in sorted(spec.fields):
        v = vis.get(f)
        inst = '%s.%s private' % (label, f)
        if v is None:
            rep.indet('E1 %s: field %s not found' % (label, f))
        elif v == 'pub' or not (v == 'restricted:' + mod):
            rep.violation('E1.d-field-privacy', inst, 'invariant field %s.%s is visible beyond its module (%s): code outside %s '
                          'could dirty the representation unseen' % (label, f, v, mod), where='%s:%d' % (a['file'], a['line']))
        else:
            rep.ok('E1.d-field-privacy', inst, v)
    subjects = [b for b in facts.bodies.values() if b.defp.startswith(mod + '::') or b.defp.startswith(_impl_prefix(mod)) or
                (b.impl and b.impl.get('self_adt') == spec.adt) or _root_in(facts, b, mod, spec.adt)]
    checked = 0
    mutating = []
    for b in sorted(subjects, key=lambda x: x.defp):
        bf = BodyFlow(facts, b, spec)
        if not bf.whole and not bf.fld:
            # still look for foreign places / raw constructor calls
            has = any(spec.is_raw(c.name or '') or spec.dirty_reason(c.name or '') for c in b.calls()) or \
                any(s['rv']['k'] == 'agg' and s['rv'].get('adt') == spec.adt for _, _, s in b.assigns())
            if not has:
                continue
        rets = bf.run()
        rep.saw(b)
        checked += 1
        dirties = [e for e in bf.events if e[1] in ('dirty', 'raw', 'literal')]
        if dirties:
            mutating.append(b.defp)
        is_dirty_api = spec.dirty_reason(b.defp)
        # (b) escapes
        for (kind, k2), (line, what) in sorted(bf.viol.items()):
            rep.violation('E1.b-dirty-escape', '%s|%s %s' % (b.defp, kind, label),
                          '%s: a possibly un-normalised %s escapes: %s' % (b.defp, label, what),
                          where='%s:%d' % (b.file, line),
                          detail=['events: %s' % (bf.events[-8:],)])
        # (a) clean at return
        keys = set()
        for bbid, st in rets:
            for k in st:
                keys.add(k)
        for k in sorted(keys):
            outlives = (k in bf.outliving) or (k in bf.owned and _is_returned(b, k))
            if not outlives:
                continue
            bad = [(bbid, st) for bbid, st in rets if st.get(k, C) == D]
            inst = '%s|%s clean at return (%s)' % (b.defp, label, _keyname(b, k))
            if not bad:
                if dirties or spec.is_norm(b.defp):
                    how = 'normaliser itself' if spec.is_norm(b.defp) else \
                        'every path from %s reaches %s' % (', '.join(sorted({d[3] for d in dirties if d[0] == k})[:2]) or 'a dirtying event', 'a cleaning event')
                    rep.ok('E1.a-clean-at-return', inst, how)
                continue
            if is_dirty_api:
                rep.ok('E1.a-clean-at-return', inst, 'documented-dirty function: %s (callers are checked instead)' % is_dirty_api)
                continue
            if spec.is_norm(b.defp):
                continue
            last = [e for e in bf.events if e[0] == k and e[1] in ('dirty', 'raw', 'literal')]
            line = last[-1][2] if last else b.line
            rep.violation('E1.a-clean-at-return', inst,
                          '%s can return with %s (%s) possibly un-normalised: %s, and some path to the return at block %s '
                          'has no call of the normaliser afterwards' % (b.defp, label, _keyname(b, k),
                                                                       last[-1][3] if last else 'dirtied', [x[0] for x in bad]),
                          where='%s:%d' % (b.file, line),
                          detail=['dirtying/cleaning events (place, kind, line, what):'] + [str(e) for e in bf.events[:14]])
    # (c) raw constructors / literals only inside the module
    for b in facts.bodies.values():
        if b in subjects:
            continue
        for bb, j, s in b.assigns():
            if s['rv']['k'] == 'agg' and s['rv'].get('adt') == spec.adt:
                rep.violation('E1.c-raw-sites', '%s|literal outside module' % b.defp,
                              '%s builds a %s literal outside %s' % (b.defp, label, mod), where='%s:%d' % (b.file, s['line']))
        for c in b.calls():
            why = spec.dirty_reason(c.name or '')
            if why:
                # documented-dirty API called from outside T's module: run the same flow there
                bf = BodyFlow(facts, b, spec)
                rets = bf.run()
                rep.saw(b)
                bad = any(st.get(k) == D for _, st in rets for k in st if k in bf.outliving or _is_returned(b, k)) or bf.viol
                inst = '%s|calls dirty API %s' % (b.defp, (c.name or '').split('::')[-1])
                if bad or not (bf.whole or bf.fld):
                    rep.violation('E1.b-dirty-escape', inst,
                                  '%s calls the documented-dirty %s and lets the value escape without calling the normaliser' % (b.defp, c.name),
                                  where=c.where())
                else:
                    rep.ok('E1.b-dirty-escape', inst, 'cleaned before escape')
                break
    rep.floor('E1 %s: bodies with a tracked %s place' % (label, label), checked, floor_bodies)
    rep.inventory['E1 %s mutating bodies' % label] = mutating
    return mutating


def _impl_prefix(mod):
    # def paths of trait impls print as `crate::<path::Type as Trait>::item`
    return mod.split('::')[0] + '::<' + '::'.join(mod.split('::')[1:]) + '::'


def _root_in(facts, b, mod, adt):
    r = b.d.get('root')
    if not r:
        return False
    rb = facts.bodies.get(r)
    if r.startswith(mod + '::') or r.startswith(_impl_prefix(mod)):
        return True
    return bool(rb is not None and rb.impl and rb.impl.get('self_adt') == adt)


def _is_returned(b, key):
    """owned local `key` flows into _0 (directly or wrapped)"""
    if not key.startswith('_'):
        return False
    l = int(key[1:])
    if l == 0:
        return True
    for bb, j, s in b.assigns():
        for op in operands_of_rvalue(s['rv']):
            p = op_place(op)
            if p is not None and p['l'] == l and s['lhs']['l'] == 0:
                return True
    return False


def _keyname(b, k):
    if k.startswith('*_'):
        return '*' + (b.local_name(int(k[2:])) or k[1:])
    if k.startswith('_') and k[1:].isdigit():
        return b.local_name(int(k[1:])) or k
    return k
