"""E2 - float taint in exact arithmetic.

A value that is a function of an f64/f32 cannot be the exact result of an integer / rational /
polynomial operation for operands of unbounded size. Rule: outside the frozen list of declared
float heuristics, no workspace function whose own return type is not a float may
  (a) return a float-derived value,
  (b) branch on a float-derived value,
  (c) store a float-derived value through a `&mut` it was given.
Taint = any local whose type mentions f32/f64, closed under def-use, call results with a tainted
argument, and results of workspace functions that (a)-return taint (fixpoint over the call graph,
class-hierarchy fallback for unresolved trait calls).
"""
import re
from core import op_place, operands_of_rvalue, places_read_by_rvalue, op_const

FLOAT_RX = re.compile(r'\bf(32|64)\b')

# declared float users: (regex on def path, reason). Their results are cut points.
DECLARED = [
    (r'^yui_matrix::sparse::pivot::PivotCondition::is_cand$',
     'Weight(w) is by definition a bound on the f64 computational weight of a unit'),
    (r'^yui_matrix::sparse::pivot::MatrixStr::new(::\{closure#\d+\})*$',
     'fills the declared f64 row/col weight tables used only to order pivot candidates'),
    (r'^yui_matrix::sparse::pivot::MatrixStr::cmp_(rows|cols)$',
     'orders candidate rows/cols by weight: chooses which valid pivot, not a value'),
]


def is_float_ty(t):
    return bool(FLOAT_RX.search(t))


def is_fmt(b):
    im = b.impl
    return bool(im and (im.get('trait') or '').startswith('std::fmt::'))


def declared(defp):
    for rx, why in DECLARED:
        if re.search(rx, defp):
            return why
    return None


class BodyTaint:
    def __init__(self, body):
        self.body = body
        self.float_locals = {i for i, l in enumerate(body.locals) if is_float_ty(l['ty'])}
        # float constants / casts also seed
        self.tainted = set(self.float_locals)
        self.refs = {}  # temp local -> referent local for `_t = &mut _x`
        for bb, j, s in body.assigns():
            rv = s['rv']
            if rv['k'] == 'ref' and rv['mut'] and not s['lhs']['p']:
                self.refs[s['lhs']['l']] = rv['place']['l']
        self.via_calls = set()   # TR callees that injected taint


def propagate(facts, bt, TR):
    body = bt.body
    t = bt.tainted
    changed_any = False
    while True:
        changed = False
        for bb, j, s in body.assigns():
            rv = s['rv']
            src = False
            for p in places_read_by_rvalue(rv):
                if p['l'] in t:
                    src = True
                    break
            if not src and rv['k'] == 'cast' and ('Float' in rv['kind']):
                src = True
            if not src:
                for op in operands_of_rvalue(rv):
                    c = op_const(op)
                    if c and c.get('float'):
                        src = True
            if src and s['lhs']['l'] not in t:
                t.add(s['lhs']['l'])
                changed = True
        for c in body.calls():
            arg_t = False
            for a in c.args:
                p = op_place(a)
                if p is not None and p['l'] in t:
                    arg_t = True
                    break
            callee_t = False
            for tgt in facts.callee_targets(c.fn):
                if tgt in TR:
                    callee_t = True
                    bt.via_calls.add(tgt)
            if (arg_t or callee_t) and c.dest is not None:
                dl = c.dest['l']
                dty = c.term.get('dest_ty', '')
                if dty not in ('()', '!') and dl not in t:
                    t.add(dl)
                    changed = True
            if arg_t:
                for a in c.args:
                    l = None
                    p = op_place(a)
                    if p is not None and not p['p']:
                        l = p['l']
                    if l is not None and l in bt.refs and bt.refs[l] not in t:
                        t.add(bt.refs[l])
                        changed = True
        if not changed:
            break
        changed_any = True
    return changed_any


def run(facts):
    """returns dict with roots, dependants, allowlisted users, and per-body findings"""
    bts = {}
    for k, b in facts.bodies.items():
        bts[k] = BodyTaint(b)
    TR = set()
    # fixpoint over summaries
    for _ in range(50):
        grew = False
        for k, bt in bts.items():
            propagate(facts, bt, TR)
            b = bt.body
            if 0 in bt.tainted and not is_float_ty(b.ret_ty) and not declared(k) and k not in TR and not is_fmt(b):
                TR.add(k)
                grew = True
        if not grew:
            break
    findings = {}   # def -> list of (kind, where, text)
    for k, bt in bts.items():
        b = bt.body
        if declared(k):
            continue
        if not bt.tainted:
            continue
        fl = []
        if is_fmt(b):
            continue   # printing a float is not arithmetic
        if is_float_ty(b.ret_ty):
            continue   # float by signature: a declared approximation (to_f64, c_weight, density..)
        if 0 in bt.tainted:
            fl.append(('returns-float-derived', b.where(), 'return value depends on a float'))
        for i, blk in enumerate(b.blocks):
            tm = blk['term']
            if tm['k'] == 'switch':
                p = op_place(tm['discr'])
                if p is not None and p['l'] in bt.tainted:
                    fl.append(('branches-on-float', '%s:%d' % (b.file, tm.get('cline', tm['line'])),
                               'branch condition depends on a float'))
        for bb, j, s in b.assigns():
            lhs = s['lhs']
            if lhs['p'] and lhs['p'][0] == 'deref' and 1 <= lhs['l'] <= b.arg_count:
                rd = places_read_by_rvalue(s['rv'])
                if any(p['l'] in bt.tainted for p in rd):
                    decl_ty = b.locals[lhs['l']]['ty']
                    fl.append(('stores-float-derived', '%s:%d' % (b.file, s.get('cline', s['line'])),
                               'stores a float-derived value through %s' % decl_ty))
        if fl:
            findings[k] = fl
    roots = {}
    for k, fl in findings.items():
        bt = bts[k]
        direct = bool(bt.float_locals)
        if direct:
            roots[k] = {'findings': fl, 'dependants': set(), 'body': bt.body}
    # dependants: bodies with findings only via TR callees -> attach to the roots they reach
    for k, fl in findings.items():
        if k in roots:
            continue
        # walk via_calls down to roots
        seen = set()
        st = list(bts[k].via_calls)
        hit = set()
        while st:
            x = st.pop()
            if x in seen:
                continue
            seen.add(x)
            if x in roots:
                hit.add(x)
            st.extend(bts[x].via_calls)
        for r in hit:
            roots[r]['dependants'].add(k)
        if not hit:
            roots[k] = {'findings': fl, 'dependants': set(), 'body': bts[k].body}
    users = []   # inventory: every body with float-typed locals, and how it is classified
    for k, bt in bts.items():
        if bt.float_locals:
            b = bt.body
            if declared(k):
                cls = 'declared: ' + declared(k)
            elif is_float_ty(b.ret_ty):
                cls = 'float by signature'
            elif k in findings:
                cls = 'VIOLATION'
            else:
                cls = 'float not observable in result (e.g. logging only)'
            users.append((k, cls))
    return {'roots': roots, 'users': users, 'TR': TR, 'bodies': len(bts)}


def trait_of(body, facts=None):
    """trait implemented by the impl this body (or its closure root) belongs to"""
    im = body.impl
    if im and im.get('trait'):
        return im['trait']
    return body.d.get('trait_default')


def apply(facts, rep, scope, label, result=None, floor_scope=1):
    """instantiate E2 for the bodies selected by scope(body) -> bool"""
    res = result or run(facts)
    in_scope = [b for b in facts.bodies.values() if scope(b)]
    rep.floor('E2 %s: exact-arithmetic bodies in scope' % label, len(in_scope), floor_scope)
    bad = set()
    for k, r in sorted(res['roots'].items()):
        hit = [k] if scope(r['body']) else []
        hit += sorted(d for d in r['dependants'] if d in facts.bodies and scope(facts.bodies[d]))
        if not hit:
            continue
        bad.update(hit)
        fl = r['findings'][0]
        rep.violation('E2.float-in-exact', k,
                      '%s: %s (float-typed intermediate in an exact operation); %d in-scope dependants' % (k, fl[2], len(hit)),
                      where=fl[1],
                      detail=['all findings at the root: %s' % (r['findings'],)] + ['in-scope dependant: ' + h for h in hit[:25]])
    for b in in_scope:
        rep.saw(b)
        if b.defp not in bad:
            rep.ok('E2.float-in-exact', b.defp, 'no float-derived return/branch/store', sample=False)
    rep.inventory['E2 float users (workspace-wide)'] = [{'fn': k, 'class': c} for k, c in res['users']]
    rep.inventory['E2 bodies scanned'] = res['bodies']
    return res
