"""E8 - symbolic formula extraction and sibling agreement.

Integer formulas that encode one convention at several sites are read from the MIR path summaries
as affine forms (coefficients over *atoms* = call results, fields, parameters; casts transparent,
checked arithmetic unwrapped) and compared syntactically with each other and with the published
formula. No solver, no execution.

  F1  ss = 2*d + w - r + 1 at every site (kh::ss, khi::ssi x2, ykh kh/khi show_ss), with
      w = writhe, r = #Seifert circles of the same link
  F2  KhComplex::deg_shift_for = (-n_neg, n_pos - 2 n_neg + [reduced]) against the exponent
      n_pos - 2 n_neg and the sign parity n_neg of jones_polynomial
  F3  KhGen::h_deg = h0 + |s|, q_deg = q0 + sum deg + #circles + |s| with deg(1) = 0, deg(X) = -2,
      against the state-sum term (-q)^|s| (q + q^-1)^#circles of jones_polynomial
  F4  CobComp::euler_num = 2 - 2g - b, deg = chi - e/2 - 2*dots; the genus recomputation
      g2 = 2 - (x1 + x2 + b) + a, genus = g2/2 is the same form in CobComp::connect and Cob::stack_comps
  F6  Gaussian elimination forms c * a^-1 * b in that operand order and d - cab / -cab, identically
      for the complex (TngComplex::eliminate) and for the transported cycles (BuildElem::eliminate)
  F9  graded-lex order = compare total degree, then lex, in every monomial type
"""
import re
from fractions import Fraction
from symex import SymEx, show, strip, TooManyPaths


def sk(t):
    return re.sub(r'#(?:i\d+:)?\d+\.\d+', '', show(t))


class NotAffine(Exception):
    pass


def affine(t, atom_name=None):
    """term -> dict {atom: coef, 1: const}"""
    k = t[0]
    if k == 'const' and isinstance(t[1], int):
        return {1: Fraction(t[1])} if t[1] else {}
    if k == 'cast':
        return affine(t[2], atom_name)
    if k in ('ref', 'deref') and t[1][0] in ('bin', 'field', 'const', 'cast'):
        return affine(t[1], atom_name)
    if k == 'field' and t[1][0] == 'bin' and t[2] == '0':
        op, a, b = t[1][1], t[1][2], t[1][3]
        return _combine(op.replace('WithOverflow', ''), a, b, atom_name)
    if k == 'bin' and t[1] in ('Add', 'Sub', 'Mul', 'Div'):
        return _combine(t[1], t[2], t[3], atom_name)
    if k == 'un' and t[1] == 'Neg':
        return {a: -c for a, c in affine(t[2], atom_name).items()}
    nm = atom_name(t) if atom_name else None
    if nm is None and k == 'call' and '{closure' in t[1].split('::')[-1] and len(t[2]) == 2 and strip(t[2][0])[0] == 'closure' and strip(t[2][1])[0] == 'tuple':
        # a local closure applied to arguments (`let f = |d| 2 * d + w - r + 1; f(d0)`): the formula is its body
        from symex import apply_closure
        try:
            rets = [q.ret for q in (apply_closure(t[2][0], list(strip(t[2][1])[1])) or []) if q.end == 'return' and q.ret is not None]
        except Exception:
            rets = []
        if len(rets) == 1:
            return affine(rets[0], atom_name)
    return {nm if nm is not None else ('atom', sk(t)): Fraction(1)}


def _combine(op, a, b, atom_name):
    fa, fb = affine(a, atom_name), affine(b, atom_name)
    if op == 'Add':
        return _add(fa, fb, 1)
    if op == 'Sub':
        return _add(fa, fb, -1)
    if op == 'Mul':
        if set(fa) <= {1}:
            c = fa.get(1, 0)
            return {k: v * c for k, v in fb.items() if v * c != 0}
        if set(fb) <= {1}:
            c = fb.get(1, 0)
            return {k: v * c for k, v in fa.items() if v * c != 0}
        raise NotAffine('product of two non-constants')
    if op == 'Div':
        if set(fb) <= {1} and fb.get(1, 0) != 0:
            # integer division by a constant: keep as an opaque atom of the numerator form
            return {('div', tuple(sorted((str(k), v) for k, v in fa.items())), fb[1]): Fraction(1)}
        raise NotAffine('division by a non-constant')
    raise NotAffine(op)


def _add(fa, fb, s):
    r = dict(fa)
    for k, v in fb.items():
        r[k] = r.get(k, 0) + s * v
        if r[k] == 0:
            del r[k]
    return r


def fshow(f):
    parts = []
    for k, v in sorted(f.items(), key=lambda kv: str(kv[0])):
        nm = '' if k == 1 else (k if isinstance(k, str) else str(k[1] if isinstance(k, tuple) else k))
        parts.append('%s%s' % (v if (v != 1 or k == 1) else '', ('*' if (v != 1 and k != 1) else '') + nm))
    return ' + '.join(parts) or '0'


def selftest(rep):
    """affine extraction on a hand-made term: 2*d + w - r - 1 must NOT normalise to 2*d + w - r + 1"""
    def T(op, a, b):
        return ('field', ('bin', op + 'WithOverflow', a, b), '0')
    d, w, r = ('call', 'div', (), '1.1'), ('call', 'writhe', (), '2.1'), ('cast', 'IntToInt', ('call', 'len', (('call', 'seifert_circles', (), '3.1'),), '4.1'), 'i32', 'usize')
    good = T('Add', T('Sub', T('Add', T('Mul', ('const', 2), d), w), r), ('const', 1))
    bad = T('Sub', T('Sub', T('Add', T('Mul', ('const', 2), d), w), r), ('const', 1))
    fg, fb = affine(good, ss_atom), affine(bad, ss_atom)
    ok = fg.get('w') == 1 and fg.get('r') == -1 and fg.get(1) == 1 and fb.get(1) == -1 and fg != fb
    rep.controls.append({'engine': 'E8.affine', 'bad_flagged': ok, 'detail': 'hand-made ss term with wrong constant distinguished'})
    if not ok:
        rep.indet('E8 self-test: affine normalisation failed')


def named_local_terms(body, names, havoc=True):
    """distinct terms that the named locals hold on some path"""
    out = {}
    for p in SymEx(body, havoc_loops=havoc, max_paths=20000).run():
        for l, loc in enumerate(body.locals):
            nm = loc.get('name')
            if nm in names:
                t = p.state.read(('local', l), ())
                if t[0] not in ('undef', 'loopvar', 'post'):
                    out.setdefault(nm, set()).add(t)
    return out


# ------------------------------------------------------------------ F1

def ss_atom(t):
    s = sk(t)
    if re.search(r'\bwrithe\(', s) and 'seifert' not in s:
        return 'w'
    if 'seifert_circles(' in s and ('len(' in s):
        return 'r'
    return None


SS_SITES = [
    (r'^yui_kh::kh::ss::ss_invariant$', ['ss']),
    (r'^yui_kh::khi::ssi::ssi_invariants$', ['ss0', 'ss1']),
    (r'^ykh::app::cmd::kh::App::<R>::show_ss$', ['s']),
    (r'^ykh::app::cmd::khi::App::<R>::show_ssi$', ['s']),
]


def check_ss(facts, rep, sites=None):
    selftest(rep)
    want = {'w': 1, 'r': -1, 1: 1}
    n = 0
    for rx, names in (sites or SS_SITES):
        bs = facts.find(rx)
        if len(bs) != 1:
            rep.indet('E8.F1: site /%s/ not found exactly once' % rx)
            continue
        b = bs[0]
        rep.saw(b)
        terms = named_local_terms(b, set(names))
        for nm in names:
            inst = '%s|%s = 2d + w - r + 1' % (b.defp, nm)
            ts = terms.get(nm)
            if not ts:
                rep.indet('E8.F1: local `%s` not found in %s' % (nm, b.defp))
                continue
            bad = None
            for t in ts:
                try:
                    f = affine(t, ss_atom)
                except NotAffine as e:
                    bad = 'not affine (%s)' % e
                    break
                others = {k: v for k, v in f.items() if k not in ('w', 'r', 1)}
                core = {k: v for k, v in f.items() if k in ('w', 'r', 1)}
                if not core and len(others) == 1 and list(others.values()) == [1]:
                    # the whole value is one opaque term (a call the reader cannot open): the formula is not visible here
                    bad = 'opaque'
                    break
                if core != want or len(others) != 1 or list(others.values()) != [2]:
                    bad = '%s = %s' % (nm, fshow({('d' if k in others else k): v for k, v in f.items()}))
                    break
            n += 1
            if bad == 'opaque':
                rep.indet('E8.F1: `%s` in %s is computed by a call the reader cannot open' % (nm, b.defp))
            elif bad:
                rep.violation('E8.F1-ss-formula', inst, '%s computes %s; every site must compute 2*d + w - r + 1 (d: divisibility, w: writhe, r: Seifert circles)' % (b.defp, bad),
                              where=b.where())
            else:
                rep.ok('E8.F1-ss-formula', inst, '2*d + w - r + 1')
    return n


# ------------------------------------------------------------------ F2 / F3

def sc_atom(t):
    s = sk(strip(t)) if t[0] in ('ref', 'deref', 'cast') else sk(t)
    m = re.search(r'signed_crossing_nums\([^)]*\)\.([01])', s)
    if m and 'Overflow' not in s:
        return 'n_pos' if m.group(1) == '0' else 'n_neg'
    return None


def check_shift(facts, rep):
    ds = facts.find(r'^yui_kh::kh::complex::KhComplex::<R>::deg_shift_for$')
    jn = facts.find(r'^yui_link::util::jones::jones_polynomial$')
    if len(ds) != 1 or len(jn) != 1:
        rep.indet('E8.F2: deg_shift_for / jones_polynomial not found')
        return
    ds, jn = ds[0], jn[0]
    rep.saw(ds)
    rep.saw(jn)
    hq = {}
    try:
        for p in SymEx(ds).run():
            if p.end != 'return' or p.ret[0] != 'tuple':
                continue
            red = None
            for e in p.branches():
                if e.term == ('arg', 2):
                    red = (e.value == 'else')
            hq[red] = (affine(p.ret[1][0], sc_atom), affine(p.ret[1][1], sc_atom))
    except NotAffine as e:
        rep.indet('E8.F2: deg_shift_for not affine: %s' % e)
        return
    inst = 'deg_shift_for|(-n_neg, n_pos - 2 n_neg + [reduced])'
    want_h = {'n_neg': -1}
    want_q = {'n_pos': 1, 'n_neg': -2}
    ok = set(hq) == {True, False} and all(h == want_h for h, q in hq.values()) and hq[False][1] == want_q and hq[True][1] == {'n_pos': 1, 'n_neg': -2, 1: 1}
    if ok:
        rep.ok('E8.F2-degree-shift', inst, 'h = -n_neg, q = n_pos - 2 n_neg (+1 reduced)')
    else:
        rep.violation('E8.F2-degree-shift', inst, 'KhComplex::deg_shift_for computes %s' % {k: (fshow(h), fshow(q)) for k, (h, q) in hq.items()},
                      where=ds.where())
    # jones: exponent of q.pow(..) and parity of (-1).pow_mod2(..)
    exp = par = None
    for p in SymEx(jn, havoc_loops=True).run():
        for e in p.calls():
            nm = e.name
            if nm.endswith('::pow_mod2') and len(e.args) == 2:
                try:
                    base = affine(e.args[0], sc_atom)
                    par = (base, affine(e.args[1], sc_atom))
                except NotAffine:
                    pass
            if nm.endswith('::pow') and len(e.args) == 2 and 'variable' in sk(e.args[0]):
                try:
                    f = affine(e.args[1], sc_atom)
                    if 'n_pos' in f or 'n_neg' in f:
                        exp = f
                except NotAffine:
                    pass
    inst = 'jones_polynomial|(-1)^{n_neg} q^{n_pos - 2 n_neg} agrees with deg_shift_for'
    if exp == hq.get(False, (None, None))[1] and par is not None and par[0] == {1: -1} and par[1] == {'n_neg': 1} and ok:
        rep.ok('E8.F2-degree-shift', inst, 'exponent %s, sign (-1)^n_neg' % fshow(exp))
    else:
        rep.violation('E8.F2-degree-shift', inst,
                      'jones_polynomial shifts by q^(%s) with sign base/parity %s, Khovanov generators are shifted by (%s): the graded Euler characteristic can no longer equal the Jones polynomial' %
                      (fshow(exp) if exp is not None else '?', (fshow(par[0]), fshow(par[1])) if par else '?', {k: (fshow(h), fshow(q)) for k, (h, q) in hq.items()}),
                      where=jn.where())


def gen_atom(t):
    s = sk(t)
    if s.endswith('deg_shift.0'):
        return 'h0'
    if s.endswith('deg_shift.1'):
        return 'q0'
    if 'weight(' in s and 'state' in s:
        return 'weight'
    if s.startswith('sum(') or 'sum(' in s and 'map(' in s:
        return 'sumdeg'
    if 'len(' in s and 'label' in s:
        return 'ncirc'
    return None


def check_gen_degrees(facts, rep):
    hd = facts.find(r'^yui_kh::kh::gen::KhGen::h_deg$')
    qd = facts.find(r'^yui_kh::kh::gen::KhGen::q_deg$')
    dg = facts.find(r'^yui_kh::kh::alg::KhAlgGen::deg$')
    jn = facts.find(r'^yui_link::util::jones::jones_polynomial(::\{closure#\d+\})?$')
    if not (len(hd) == len(qd) == len(dg) == 1 and jn):
        rep.indet('E8.F3: KhGen::{h_deg,q_deg} / KhAlgGen::deg / jones_polynomial not found')
        return
    for b in hd + qd + dg + jn:
        rep.saw(b)
    try:
        fh = [affine(p.ret, gen_atom) for p in SymEx(hd[0]).run() if p.end == 'return']
        fq = [affine(p.ret, gen_atom) for p in SymEx(qd[0]).run() if p.end == 'return']
    except NotAffine as e:
        rep.indet('E8.F3: degree function not affine: %s' % e)
        return
    # q_deg sums x.deg() over the label
    sums_deg = any(c.name.endswith('KhAlgGen::deg') for k, b in facts.bodies.items() if k.startswith(qd[0].defp + '::{closure') for c in b.calls())
    degs = {}
    for p in SymEx(dg[0]).run():
        if p.end != 'return' or p.ret[0] != 'const':
            continue
        for e in p.branches():
            if sk(e.term).startswith('discr(') and isinstance(e.value, int):
                degs[['I', 'X'][e.value]] = p.ret[1]
            elif sk(e.term).startswith('discr(') and e.value == 'else' and e.args:
                for i, nm in enumerate(['I', 'X']):
                    if i not in e.args:
                        degs[nm] = p.ret[1]
    # jones state-sum term: (-q)^w * (q + q^-1)^r
    pw = {}
    q0_exps = None
    root_j = [b for b in jn if b.kind != 'Closure']
    captured = {}
    if root_j:
        names = set()
        for b in jn:
            for p in SymEx(b, havoc_loops=True).run():
                for e in p.calls():
                    if e.name.endswith('::pow') and e.args:
                        m = re.search(r'\^(?:_ref__)?(\w+)\)*$', sk(e.args[0]))
                        if m:
                            names.add(m.group(1))
        if names:
            captured = {k: {sk(t) for t in v} for k, v in named_local_terms(root_j[0], names).items()}
    unresolved = False
    for b in jn:
        for p in SymEx(b, havoc_loops=True).run():
            for e in p.calls():
                if e.name.endswith('::pow') and len(e.args) == 2:
                    base, ex = sk(e.args[0]), sk(e.args[1])
                    m = re.search(r'\^(?:_ref__)?(\w+)\)*$', base)
                    if m and 'neg(' not in base and 'variable' not in base:
                        defs = captured.get(m.group(1))
                        if defs and len(defs) == 1:
                            base = next(iter(defs))       # a captured local: judge its definition in the enclosing function
                        elif ('weight(' in ex) or ('components(' in ex):
                            unresolved = True
                    if 'weight(' in ex:
                        pw['weight'] = 'neg' if 'neg(' in base else 'pos'
                    elif 'components(' in ex and 'len(' in ex:
                        pw['circles'] = base
                    elif e.args[1] == ('const', -1):
                        q0_exps = {1, -1} if 'variable' in base else None
    inst = 'KhGen::h_deg|h0 + |s|'
    if fh == [{'h0': 1, 'weight': 1}]:
        rep.ok('E8.F3-generator-degrees', inst, 'h0 + weight(state)')
    else:
        rep.violation('E8.F3-generator-degrees', inst, 'KhGen::h_deg computes %s, expected h0 + weight(state)' % [fshow(x) for x in fh], where=hd[0].where())
    inst = 'KhGen::q_deg|q0 + sum deg + #circles + |s| vs (-q)^|s| (q+q^-1)^#circles'
    per_circle = {degs.get('I', None) is not None and degs['I'] + 1, degs.get('X', None) is not None and degs['X'] + 1}
    ok = (fq == [{'q0': 1, 'sumdeg': 1, 'ncirc': 1, 'weight': 1}] and sums_deg and per_circle == {1, -1} and
          pw.get('weight') == 'neg' and 'circles' in pw and q0_exps == {1, -1})
    if ok:
        rep.ok('E8.F3-generator-degrees', inst, 'deg(1)+1 = 1, deg(X)+1 = -1 match q + q^-1; weight enters with coefficient 1 and sign (-1)^|s|')
    elif unresolved or 'weight' not in pw or 'circles' not in pw or q0_exps is None:
        rep.indet('E8.F3: state-sum term of jones_polynomial outside the recognised fragment (bases %s, q0 %s)' % (pw, q0_exps))
    else:
        rep.violation('E8.F3-generator-degrees', inst,
                      'generator q-degree is %s with label degrees %s (per-circle contributions %s); the Jones state sum uses (%s q)^|s| and (q^%s)^#circles' %
                      ([fshow(x) for x in fq], degs, sorted(x for x in per_circle if x is not False), '-' if pw.get('weight') == 'neg' else '+', sorted(q0_exps) if q0_exps else '?'),
                      where=qd[0].where())


# ------------------------------------------------------------------ F4

def cob_atom(t):
    s = sk(strip(t)) if t[0] in ('cast', 'ref', 'deref') else sk(t)
    if 'nbdr_comps(' in s:
        return 'b'
    if s.endswith('.genus'):
        return 'g'
    if 'ndots(' in s:
        return 'dots'
    if 'endpts(' in s and 'len(' in s:
        return 'e'
    if 'euler_num(' in s and 'sum' not in s:
        return None
    return None


def check_cob_formulas(facts, rep):
    en = facts.find(r'^yui_kh::kh::internal::v2::cob::CobComp::euler_num$')
    dg = facts.find(r'^yui_kh::kh::internal::v2::cob::CobComp::deg$')
    cn = facts.find(r'^yui_kh::kh::internal::v2::cob::CobComp::connect$')
    st = facts.find(r'^yui_kh::kh::internal::v2::cob::Cob::stack_comps$')
    if not (len(en) == len(dg) == len(cn) == len(st) == 1):
        rep.indet('E8.F4: CobComp::{euler_num,deg,connect} / Cob::stack_comps not found')
        return
    for b in en + dg + cn + st:
        rep.saw(b)
    try:
        fe = {tuple(sorted((str(k), v) for k, v in affine(p.ret, cob_atom).items())) for p in SymEx(en[0]).run() if p.end == 'return'}
        inst = 'CobComp::euler_num|2 - 2g - b'
        want = tuple(sorted((str(k), v) for k, v in {1: Fraction(2), 'g': Fraction(-2), 'b': Fraction(-1)}.items()))
        if fe == {want}:
            rep.ok('E8.F4-cobordism-formulas', inst, '2 - 2*genus - nbdr_comps')
        else:
            rep.violation('E8.F4-cobordism-formulas', inst, 'CobComp::euler_num computes %s, expected 2 - 2g - b' % sorted(fe), where=en[0].where())
        # deg = chi - e/2 - 2 dots
        inst = 'CobComp::deg|chi - e/2 - 2*dots'
        okd = False
        shapes = []
        for p in SymEx(dg[0]).run():
            if p.end != 'return':
                continue

            def dat(t):
                s = sk(strip(t)) if t[0] in ('cast', 'ref', 'deref') else sk(t)
                if s.startswith('euler_num('):
                    return 'chi'
                return cob_atom(t)
            f = affine(p.ret, dat)
            shapes.append(fshow(f))
            halves = [k for k in f if isinstance(k, tuple) and k[0] == 'div' and k[2] == 2 and k[1] == (('e', Fraction(1)),)]
            if f.get('chi') == 1 and f.get('dots') == -2 and len(halves) == 1 and f[halves[0]] == -1 and len(f) == 3:
                okd = True
        if okd:
            rep.ok('E8.F4-cobordism-formulas', inst, 'euler_num - endpts/2 - 2*ndots')
        else:
            rep.violation('E8.F4-cobordism-formulas', inst, 'CobComp::deg computes %s, expected chi - e/2 - 2*dots' % shapes, where=dg[0].where())
    except NotAffine as e:
        rep.indet('E8.F4: euler_num / deg not affine: %s' % e)
    # genus recomputation, both sites
    forms = {}
    for b, what in ((cn[0], 'self.genus'), (st[0], 'c.genus')):
        gform = None
        for p in SymEx(b, havoc_loops=True, max_paths=20000).run():
            for e in p.events:
                if e.kind == 'write' and e.lv[1] and e.lv[1][-1] == 'genus':
                    gform = e.term
            # owned local `c` in stack_comps: field write on a local is not an event; read memory
            for (root, path), v in p.state.mem.items():
                if path and path[-1] == 'genus' and root[0] == 'local' and v[0] == 'cast':
                    gform = v
        if gform is None:
            rep.indet('E8.F4: genus assignment not found in %s' % b.defp)
            continue

        def gat(t):
            s = sk(strip(t)) if t[0] in ('cast', 'ref', 'deref') else sk(t)
            if 'nbdr_comps(' in s:
                return 'b'
            if 'euler_num' in s:
                # two different euler-number atoms per site: keep them distinct but anonymous
                return None
            return None
        try:
            inner = gform
            while inner[0] == 'cast':
                inner = inner[2]
            # inner = Div(g, 2)
            if not (inner[0] == 'bin' and inner[1] == 'Div' and inner[3] == ('const', 2)):
                forms[b.defp] = 'genus is not g/2: %s' % sk(inner)[:80]
                continue
            f = affine(inner[2], gat)
            coefs = sorted(v for k, v in f.items() if k not in (1, 'b'))
            forms[b.defp] = (f.get(1, 0), f.get('b', 0), tuple(coefs))
        except NotAffine as e:
            forms[b.defp] = 'not affine: %s' % e
    # every path of CobComp::connect that merges the boundary also recomputes the genus (a "fast path" that glues the
    # tangles and keeps the stored genus misses the handle created when a sheet is glued to both ends of a tube)
    stale = []
    try:
        for p in SymEx(cn[0], havoc_loops=True, max_paths=20000).run():
            if p.end != 'return':
                continue
            merged = [e for e in p.calls() if e.name.split('::')[-1] == 'connect' and e.args and e.args[0][0] == 'mref' and re.search(r'arg1\.(src|tgt)$', sk(('mref', e.args[0][1])).replace('*', '').replace('&mut ', '').replace('&', '')) is not None]
            wrote = any(e.kind == 'write' and e.lv[1] and e.lv[1][-1] == 'genus' for e in p.events)
            if merged and not wrote:
                conds = [sk(e.term)[:60] for e in p.branches() if not (e.name or '').startswith('assert:')]
                stale.append(conds[:3])
    except Exception as ex:
        rep.indet('E8.F4: CobComp::connect: %s' % str(ex)[:100])
        return
    if stale:
        rep.violation('E8.F4-cobordism-formulas', 'CobComp::connect|the genus is recomputed whenever the boundary is merged',
                      'CobComp::connect has a path (under %s) that glues the source / target tangles but keeps the stored genus: gluing can create a handle (a sheet glued to both ends of a tube), the neck-cutting factor is then never applied and an edge of the complex has a wrong value' % stale[0],
                      where=cn[0].where())
    else:
        rep.ok('E8.F4-cobordism-formulas', 'CobComp::connect|the genus is recomputed whenever the boundary is merged', 'every merging path writes genus')
    _stack_genus_paths(facts, rep, st[0])
    inst = 'genus recomputation|g = (2 - (x1 + x2 + b) + a)/2 in connect and stack_comps'
    want = (2, -1, (-1, -1, 1))
    if len(forms) == 2 and all(v == want for v in forms.values()):
        rep.ok('E8.F4-cobordism-formulas', inst, 'const 2, b: -1, Euler numbers: -1, -1, shared arcs: +1 at both sites')
    elif len(forms) != 2 or any(isinstance(v, str) or len(v[2]) != 3 for v in forms.values()):
        rep.indet('E8.F4: genus recomputation outside the recognised fragment: %s' % forms)
    else:
        rep.violation('E8.F4-cobordism-formulas', inst,
                      'the genus of a glued cobordism is recomputed as (const, coef of #boundary, other coefs) = %s; both sites must be (2, -1, (-1, -1, +1)), i.e. 2g = 2 - (chi1 + chi2 + b) + a' % forms,
                      where=cn[0].where())


def _stack_genus_paths(facts, rep, b):
    """every returning path of Cob::stack_comps that builds a component gives it the Euler genus - or, when it lets the
    genera of the parts just add up, is guarded so that at most ONE component (arc or circle) lies on the gluing
    interface: two pieces glued along two components already form a handle (saddle on a tube: two arcs; torus: two
    circles), whatever the kind of the components. The guard is folded over (#arcs, #circles) in 0..3 x 0..3."""
    inst = 'Cob::stack_comps|genus from the Euler characteristic on every path that glues along >= 2 interface components'

    def closure_ret(name):
        cb = facts.bodies.get(name)
        if cb is None:
            return None
        rr = [q.ret for q in SymEx(cb).run() if q.end == 'return' and q.ret is not None]
        return rr[0] if len(rr) == 1 else None

    def count_kind(t):
        """sum(map(iter(bot|top), |c| c.tgt|src .comps().filter(is_circle|is_arc).count())) -> 'circ' | 'arc'"""
        t = strip(t)
        if not (t[0] == 'call' and t[1].split('::')[-1] == 'sum' and len(t[2]) == 1):
            return None
        m = strip(t[2][0])
        if not (m[0] == 'call' and m[1].split('::')[-1] == 'map' and len(m[2]) == 2 and strip(m[2][1])[0] == 'closure'):
            return None
        src = sk(m[2][0])
        if not re.match(r'^iter\(deref\(&?arg[23]\)\)$|^iter\(&?\*?arg[23]\)$', src.replace('&', '')) and not re.match(r'^iter\(deref\(arg[23]\)\)$', src.replace('&', '')):
            return None
        r = closure_ret(strip(m[2][1])[1])
        if r is None:
            return None
        r = strip(r)
        if not (r[0] == 'call' and r[1].split('::')[-1] == 'count' and len(r[2]) == 1):
            return None
        f = strip(r[2][0])
        if not (f[0] == 'call' and f[1].split('::')[-1] == 'filter' and len(f[2]) == 2 and strip(f[2][1])[0] == 'closure' and re.search(r'comps\(&?\*?arg2\.(tgt|src)\)', sk(f[2][0]))):
            return None
        side = re.search(r'arg2\.(tgt|src)', sk(f[2][0])).group(1)
        which = 'arg2' if 'arg2' in src else 'arg3'
        if (which, side) not in (('arg2', 'tgt'), ('arg3', 'src')):
            return None       # not the gluing interface
        pr = closure_ret(strip(f[2][1])[1])
        ps_ = sk(strip(pr)) if pr is not None else ''
        if re.match(r'^is_circle\(\*?arg2\)$', ps_):
            return 'circ'
        if re.match(r'^is_arc\(\*?arg2\)$', ps_):
            return 'arc'
        return None

    def additive(v):
        v = strip(v)
        if not (v[0] == 'call' and v[1].split('::')[-1] == 'sum' and len(v[2]) == 1):
            return False
        m = strip(v[2][0])
        if not (m[0] == 'call' and m[1].split('::')[-1] == 'map' and len(m[2]) == 2 and strip(m[2][1])[0] == 'closure'):
            return False
        if not re.match(r'^chain\(iter\((deref\()?arg[23]\)?\), iter\((deref\()?arg[23]\)?\)\)$', sk(m[2][0]).replace('&', '')):
            return False
        r = closure_ret(strip(m[2][1])[1])
        return r is not None and re.match(r'^\*?arg2\.genus$', sk(strip(r))) is not None
    n_euler = 0
    try:
        paths = SymEx(b, havoc_loops=True, max_paths=20000).run()
    except TooManyPaths as e:
        rep.indet('E8.F4: %s' % e)
        return
    for p in paths:
        if p.end != 'return':
            continue
        gv = [v for (root, path), v in p.state.mem.items() if path and path[-1] == 'genus' and root[0] == 'local']
        if not gv:
            continue
        v = gv[-1]
        inner = v
        while inner[0] == 'cast':
            inner = inner[2]
        if inner[0] == 'bin' and inner[1] == 'Div' and inner[3] == ('const', 2):
            n_euler += 1
            continue
        if not additive(v):
            rep.indet('E8.F4: a path of Cob::stack_comps sets the genus to %s' % sk(v)[:100])
            return
        guards = []
        unknown = None
        for c in p.branches():
            t = c.term
            s_ = sk(t)
            if (c.name or '').startswith('assert:') or s_.startswith('is_empty(') or re.search(r'WithOverflow\(.*\)\.1$', s_):
                continue
            if t[0] == 'bin' and t[1] in ('Eq', 'Ne', 'Lt', 'Le', 'Gt', 'Ge') and t[3][0] == 'const' and count_kind(t[2]):
                guards.append((t[1], count_kind(t[2]), t[3][1], c.value != 0))
            else:
                unknown = s_[:80]
        if unknown:
            rep.indet('E8.F4: a path of Cob::stack_comps lets the genera add up under a guard outside the recognised fragment: %s' % unknown)
            return
        ops = {'Eq': lambda x, y: x == y, 'Ne': lambda x, y: x != y, 'Lt': lambda x, y: x < y, 'Le': lambda x, y: x <= y, 'Gt': lambda x, y: x > y, 'Ge': lambda x, y: x >= y}
        hit = [(a_, c_) for a_ in range(4) for c_ in range(4) if a_ + c_ >= 2 and all(ops[o]({'arc': a_, 'circ': c_}[k], n) == tv for o, k, n, tv in guards)]
        if hit:
            rep.violation('E8.F4-cobordism-formulas', inst,
                          'Cob::stack_comps has a path (guard: %s) on which the genera of the pieces just add up although %d arcs and %d circles may lie on the gluing interface: pieces glued along two or more components form a handle (a saddle stacked on a tube is glued along two arcs), the neck-cutting term is lost and the entry d - c a^-1 b of the reduced complex is wrong' % (
                              ', '.join('%s(#%s, %d) is %s' % g for g in guards) or 'none', hit[0][0], hit[0][1]),
                          where=b.where())
            return
    if n_euler:
        rep.ok('E8.F4-cobordism-formulas', inst, '%d path(s), Euler form' % n_euler)
    else:
        rep.indet('E8.F4: no path of Cob::stack_comps computes a genus')

# ------------------------------------------------------------------ F6

def check_elimination(facts, rep):
    sites = [(r'^yui_kh::kh::internal::v2::tng_complex::TngComplex::<R>::eliminate$', 'complex', (2, 3)),
             (r'^yui_kh::kh::internal::v2::builder::BuildElem::<R>::eliminate$', 'cycles', (3, 4))]
    shapes = {}
    for rx, label, (si, ti) in sites:
        roots = facts.find(rx)
        if len(roots) != 1:
            rep.indet('E8.F6: eliminate (%s) not found' % label)
            continue
        root = roots[0]
        sname, tname = root.local_name(si), root.local_name(ti)
        bs = [root] + [b for k, b in facts.bodies.items() if k.startswith(root.defp + '::{closure')]

        def is_key(x, argi, nm):
            x = strip(x)
            if x == ('arg', argi):
                return True
            s = sk(x)
            return bool(nm and re.search(r'\^(_ref__)?%s$' % re.escape(nm), s))
        found = set()
        # the local named `ainv` of the enclosing function must be the plain inverse of the pivot edge
        for nm, terms in named_local_terms(root, {'ainv'}).items():
            for tm in terms:
                if not pure_inverse(tm):
                    found.add(('ainv-definition', 'NOT-the-inverse(%s)' % sk(tm)[:50], '', ''))
        for b in bs:
            rep.saw(b)
            top = (b is root)
            for p in SymEx(b, havoc_loops=True, max_paths=20000).run():
                for e in p.calls():
                    last = e.name.split('::')[-1]
                    if last in ('sub', 'neg') and ('ops::Sub' in e.name or 'ops::Neg' in e.name):
                        sh = elim_shape(('call', e.name, e.args, e.site),
                                        lambda x: is_key(x, si if top else -1, sname), lambda x: is_key(x, ti if top else -1, tname))
                        if sh:
                            found.add(sh)
        shapes[label] = found
    # a^-1 really inverts both factors of a = coefficient * cobordism
    invb = facts.find(r'^yui_kh::<yui::lc::Lc<kh::internal::v2::cob::Cob, R> as kh::internal::v2::cob::LcCobTrait>::inv$')
    inst = 'LcCob::inv|(r * f)^-1 = r^-1 * f^-1'
    verdict = None
    shape = None
    if len(invb) == 1:
        ib = invb[0]
        rep.saw(ib)
        bodies_ = [ib] + [b for k, b in facts.bodies.items() if k.startswith(ib.defp + '::{closure')]
        cob_inv = ring_inv = False
        for b in bodies_:
            for p in SymEx(b, max_paths=2000).run():
                for e in p.calls():
                    last = e.name.split('::')[-1]
                    if last == 'inv' and e.args:
                        a0 = re.sub(r'#(?:i\d+:)?\d+\.\d+', '', show(e.args[0], -1000))
                        if e.name.endswith('cob::Cob::inv') and re.search(r'\.0\)*$', a0):
                            cob_inv = True
                        elif 'Ring::inv' in e.name and re.search(r'\.1\)*$', a0):
                            ring_inv = True
        somes = []
        for p in SymEx(ib, max_paths=2000).run():
            if p.end == 'return' and p.ret and p.ret[0] == 'adt' and p.ret[2] == 'Some':
                v = strip(p.ret[4][0])
                pair = None
                if v[0] == 'call' and v[1].split('::')[-1] == 'from' and len(v[2]) == 1 and strip(v[2][0])[0] == 'tuple' and len(strip(v[2][0])[1]) == 2:
                    pair = tuple(re.sub(r'#(?:i\d+:)?\d+\.\d+', '', show(x, -1000)) for x in strip(v[2][0])[1])
                somes.append(pair)
        shape = (sorted(set(x for x in somes if x))[:1], cob_inv, ring_inv)
        built = bool(somes) and all(x is not None for x in somes)
        if cob_inv and ring_inv and built:
            ok_parts = all(re.search(r'(^inv\(.*\.0\)|\.Some\.0\.0)(\.Some\.0)?$', l) and re.search(r'(^inv\(.*\.1\)|\.Some\.0\.1)(\.Some\.0)?$', r_) for l, r_ in somes)
            verdict = 'ok' if ok_parts else 'unknown'
        elif built and not (cob_inv and ring_inv):
            verdict = 'bad'
        else:
            verdict = 'unknown'
    if verdict == 'ok':
        rep.ok('E8.F6-elimination-formula', inst, 'term (c, a) -> (c.inv(), a.inv())')
    elif verdict == 'bad':
        rep.violation('E8.F6-elimination-formula', inst,
                      'LcCob::inv builds %s without inverting %s; the inverse used as a^-1 in d - c a^-1 b must invert the cobordism AND the coefficient (Ring::inv)' %
                      (shape[0], 'the cobordism' if not shape[1] else 'the coefficient'),
                      where='yui-khovanov/src/kh/internal/v2/cob.rs')
    else:
        rep.indet('E8.F6: LcCob::inv outside the recognised fragment: %s' % (shape,))
    inst = 'eliminate|d - c*a^-1*b (complex) and -c*a^-1*b / d - c*a^-1*b (cycles)'
    want = {('sub', 'c', 'ainv', 'b'), ('neg', 'c', 'ainv', 'b')}
    if shapes.get('complex') == want and shapes.get('cycles') == want:
        rep.ok('E8.F6-elimination-formula', inst, 'both sites: (c * a^-1) * b with c out of the eliminated source, b into the eliminated target; combined as d - cab and -cab')
    else:
        rep.violation('E8.F6-elimination-formula', inst,
                      'Gaussian elimination builds %s; both the complex and the transported cycles must use d - c*a^-1*b and -c*a^-1*b with c = edge out of the eliminated source, '
                      'b = morphism into the eliminated target, in that order (cobordism composition is not commutative)' % {k: sorted(v) for k, v in shapes.items()},
                      where='yui-khovanov/src/kh/internal/v2/tng_complex.rs')


def _is_mul(t):
    return t[0] == 'call' and t[1].split('::')[-1] == 'mul' and 'ops::Mul' in t[1] and len(t[2]) == 2


def elim_shape(t, is_src, is_tgt):
    """classify d - (c*ainv)*b / -(c*ainv)*b; roles decided by the keys of the edge(..) calls"""
    t = strip(t)
    last = t[1].split('::')[-1] if t[0] == 'call' else ''
    if last == 'sub' and len(t[2]) == 2:
        kind, inner = 'sub', t[2][1]
    elif last == 'neg' and len(t[2]) == 1:
        kind, inner = 'neg', t[2][0]
    else:
        return None
    inner = strip(inner)
    while inner[0] == 'call' and inner[1].split('::')[-1] == 'part_eval' and inner[2]:
        inner = strip(inner[2][0])
    if not _is_mul(inner):
        return None
    left, right = strip(inner[2][0]), strip(inner[2][1])
    if not _is_mul(left):
        return None
    x, y, z = strip(left[2][0]), strip(left[2][1]), right

    def role(v):
        s = sk(v)
        if re.search(r'\^(_ref__)?ainv$', s):
            return 'ainv'          # captured local `ainv`; its definition is checked in the enclosing function
        if 'inv(' in s:
            return 'ainv' if pure_inverse(v) else 'NOT-the-inverse(%s)' % s[:40]
        # edge(complex, S, T)
        w = v
        while w[0] in ('ref', 'deref'):
            w = w[1]
        if w[0] == 'call' and w[1].split('::')[-1] == 'edge' and len(w[2]) == 3:
            if is_src(w[2][1]):
                return 'c'
            if is_tgt(w[2][2]):
                return 'b'
            return 'edge?'
        # the cycle's own morphism into the eliminated target: retr_cob.remove(j)
        for sub in _subcalls(v):
            if sub[1].split('::')[-1] == 'remove' and len(sub[2]) == 2 and is_tgt(sub[2][1]):
                return 'b'
        return '?'
    return (kind, role(x), role(y), role(z))


def pure_inverse(v):
    """v is inv(x) seen only through refs / unwrap / Some-payload / clone (no negation, no other arithmetic)"""
    while True:
        if v[0] in ('ref', 'deref'):
            v = v[1]
        elif v[0] == 'field' and v[2].endswith('Some.0'):
            v = v[1]
        elif v[0] == 'call' and v[1].split('::')[-1] in ('unwrap', 'clone', 'expect', 'unwrap_unchecked') and v[2]:
            v = v[2][0]
        elif v[0] == 'call' and v[1].split('::')[-1] == 'unwrap_or_else' and len(v[2]) == 2 and _diverges(v[2][1]):
            v = v[2][0]          # x.unwrap_or_else(|| panic!(..)) is x.unwrap()
        else:
            break
    return v[0] == 'call' and v[1].split('::')[-1] == 'inv' and len(v[2]) == 1


def _diverges(clo):
    """the closure never returns (its body ends in a panic on every path)"""
    import symex as _sx
    clo = strip(clo)
    if clo[0] != 'closure':
        return False
    cb = _sx.BODIES.get(clo[1])
    if cb is None:
        return False
    try:
        return not any(p.end == 'return' for p in SymEx(cb, max_paths=200).run())
    except TooManyPaths:
        return False


def _subcalls(t):
    st = [t]
    while st:
        v = st.pop()
        if isinstance(v, tuple) and v:
            if v[0] == 'call':
                yield v
                st.extend(v[2])
            elif v[0] in ('ref', 'deref'):
                st.append(v[1])
            elif v[0] == 'field':
                st.append(v[1])


# ------------------------------------------------------------------ F9

def check_grlex(facts, rep):
    n = 0
    for b in sorted(facts.bodies.values(), key=lambda x: x.defp):
        if b.name != 'cmp_grlex' or b.kind == 'Closure' or not b.impl:
            continue
        rep.saw(b)
        n += 1
        st = b.impl['self_ty']
        inst = '%s|grlex = (total degree, lex)' % b.defp
        shapes = set()
        for p in SymEx(b).run():
            if p.end != 'return':
                continue
            shapes.add(grlex_shape(facts, b, p.ret))
        if shapes == {'total-then-lex'} or shapes == {'delegates to the wrapped multi-degree'} or \
                (shapes <= {'lex-only', 'single exponent'} and shapes and '::var::Var<' in st):
            rep.ok('E8.F9-grlex', inst, sorted(shapes)[0])
            continue
        # by value: fold the function over the 9 outcomes of (cmp of the totals, cmp_lex)
        from dtree import DTree, Stuck, ordering_atom, LESS, EQ, GT
        dt = DTree(facts)

        def side(x):
            x = re.sub(r'\^_ref__', '^', x)
            if '^self' in x and '^other' not in x:
                return 'self'
            if '^other' in x and '^self' not in x:
                return 'other'
            if '^' not in x and 'arg1' in x and 'arg2' not in x:
                return 'self'
            if '^' not in x and 'arg2' in x and 'arg1' not in x:
                return 'other'
            return None

        def classify(t):
            nm = t[1].split('::')[-1]
            a = [sk(x) for x in t[2]]
            if len(a) != 2:
                return None
            sd = (side(a[0]), side(a[1]))
            if sd not in (('self', 'other'), ('other', 'self')):
                return None
            if nm == 'cmp_lex':
                return ('lex', sd[0] == 'other')
            if nm == 'cmp' and all('total' in x for x in a):
                return ('total', sd[0] == 'other')
            return None
        bad = None
        used = set()
        try:
            for ot in (LESS, EQ, GT):
                for ox in (LESS, EQ, GT):
                    got, _ = dt.decide(b.defp, {1: ('self',), 2: ('other',)}, ordering_atom(dt, facts, {'total': ot, 'lex': ox}, classify, used))
                    if isinstance(got, dict) and '<variant>' in got:
                        got = {'Less': LESS, 'Equal': EQ, 'Greater': GT}.get(got['<variant>'], got)
                    want = ot if ot != EQ else ox
                    if got != want and bad is None:
                        nm = {LESS: 'Less', EQ: 'Equal', GT: 'Greater'}
                        bad = 'for (total, lex) comparing as (%s, %s) it answers %s' % (nm[ot], nm[ox], nm.get(got, got))
        except (Stuck, KeyError, TypeError) as e:
            rep.indet('E8.F9: %s outside the recognised fragment: %s (%s)' % (b.defp, sorted(shapes), str(e)[:80]))
            continue
        if bad or used != {'total', 'lex'}:
            rep.violation('E8.F9-grlex', inst, '%s is not "compare total degree, then lex": %s' % (b.defp, bad or 'it consults %s only' % sorted(used)), where=b.where())
        else:
            rep.ok('E8.F9-grlex', inst, 'total degree, then lex, on all 9 outcome pairs')
    rep.floor('E8.F9 cmp_grlex implementations', n, 4)


def grlex_shape(facts, b, r):
    """ret = then_with(cmp(total(self), total(other)), closure { cmp_lex(self, other) })   or   cmp_lex(self, other)"""
    r0 = r
    if r[0] == 'call' and r[1].endswith('Ordering::then_with') and len(r[2]) == 2:
        first, clo = r[2]
        s = sk(first)
        tot = ('total' in s or 'total_deg' in s or 'AddWithOverflow' in s or 'add(' in s) and s.count('arg1') >= 1 and s.count('arg2') >= 1 and 'cmp' in first[1]
        lex = False
        if clo[0] == 'closure':
            cb = facts.bodies.get(clo[1])
            if cb is not None:
                for q in SymEx(cb).run():
                    if q.end == 'return' and q.ret[0] == 'call' and q.ret[1].endswith('cmp_lex'):
                        a = [sk(x) for x in q.ret[2]]
                        lex = ('self' in a[0] and 'other' in a[1])
        if tot and lex:
            return 'total-then-lex'
        return 'then_with(%s, lex=%s)' % (s[:60], lex)
    if r[0] == 'call' and r[1].endswith('cmp_lex') and [strip(x) for x in r[2]] == [('arg', 1), ('arg', 2)]:
        return 'lex-only'
    f1, f2 = ('field', ('deref', ('arg', 1)), '0'), ('field', ('deref', ('arg', 1 + 1)), '0')
    if r[0] == 'call' and len(r[2]) == 2 and [strip(x) for x in r[2]] == [f1, f2]:
        if r[1].endswith('cmp_grlex'):
            return 'delegates to the wrapped multi-degree'
        if r[1].endswith('cmp::Ord::cmp') or r[1].endswith('>::cmp'):
            return 'single exponent'
    return 'other: ' + sk(r0)[:80]


def check_divisibility(facts, rep):
    """F10: the c-divisibility d of the canonical class (C06, "ss = 2d + w - r + 1"). div(a, c) is None for a = 0 and
    otherwise the number of exact divisions by c (counter from 0, +1 per division, test `(a % c).is_zero()`); div_vec is the
    *minimum* over the non-zero coordinates; compute_div applies it to the free coordinates 0..r (r = 1 reduced, 2 unreduced)
    of the class in H^0, requires all classes to agree and returns that value."""
    D = 'yui_kh::misc::div'
    DV = 'yui_kh::misc::div_vec'
    CD = 'yui_kh::kh::ss::compute_div'
    need = [facts.bodies.get(x) for x in (D, DV, CD)]
    if any(x is None for x in need):
        rep.indet('E8.F10: div / div_vec / compute_div not found')
        return
    for b in need:
        rep.saw(b)
    probs = []
    # D1
    from symex import apply_closure

    def vpaths(body, havoc):
        """return / back-edge paths of div as (end, return text, conditions), `cond.then(|| ..)` expanded into its two cases"""
        out = []

        def nn(c, v):
            while c.startswith('Not(') and c.endswith(')'):
                c, v = c[4:-1], not v
            return (c, v)
        for p in SymEx(body, havoc_loops=havoc, max_paths=2000).run():
            conds = [nn(sk(e.term), e.value != 0) for e in p.branches() if 'Overflow' not in sk(e.term)]
            r = strip(p.ret) if p.ret is not None else None
            if p.end == 'return' and r is not None and r[0] == 'call' and r[1].split('::')[-1] == 'then' and len(r[2]) == 2 and strip(r[2][1])[0] == 'closure':
                c0 = sk(r[2][0])
                neg = False
                while c0.startswith('Not(') and c0.endswith(')'):
                    c0, neg = c0[4:-1], not neg
                out.append(('return', 'Option::None{}', conds + [(c0, neg), ], []))
                for q in apply_closure(r[2][1], [], havoc_loops=havoc) or []:
                    qc = [(sk(e.term), e.value != 0) for e in q.branches() if 'Overflow' not in sk(e.term)]
                    out.append((q.end, 'Option::Some{0: %s}' % sk(q.ret) if q.ret is not None else None, conds + [(c0, not neg)] + qc, q.calls()))
            else:
                out.append((p.end, sk(p.ret) if p.ret is not None else None, conds, p.calls()))
        return out
    rets = set()
    for end, ret, conds, _ in vpaths(need[0], False):
        if end == 'return':
            rets.add((ret, tuple(conds)))
    want0 = ('Option::None{}', (('is_zero(arg1)', True),))
    want1 = ('Option::Some{0: 0}', (('is_zero(arg1)', False), ('is_zero(&rem(&clone(arg1), arg2))', False)))
    unknown1 = []
    if want0 not in rets:
        if any(r.startswith('Option::Some') and c == (('is_zero(arg1)', True),) for r, c in rets):
            probs.append('div(0, c) is not None')
        else:
            unknown1.append('no path answers None for a = 0')
    if want1 not in rets:
        firsts = sorted(r for r, c in rets if r.startswith('Option::Some') and c == want1[1])
        if firsts and all(re.match(r'Option::Some\{0: -?\d+\}$', x) for x in firsts):
            probs.append('div(a, c) with c not dividing a is not Some(0): %s' % firsts[:1])
        else:
            unknown1.append('the first answer Some(0) was not found: %s' % sorted(r for r, _ in rets)[:3])
    step = set()
    for end, ret, conds, calls in vpaths(need[0], True):
        if end == 'backedge':
            cn = [(re.sub(r'loop[\w:]+_\d+', 'L', t), v) for t, v in conds]
            divs = [tuple(re.sub(r'&mut _\d+|&mut _f\d+_\d+', 'A', sk(a)) for a in e.args) for e in calls if e.name.split('::')[-1] == 'div_assign']
            step.add((('is_zero(&rem(&L, arg2))', True) in cn, tuple(divs)))
    incs = set()
    for p in SymEx(need[0], havoc_loops=True, max_paths=2000).run():
        for pth in [p] + [q for e in p.calls('then') if len(e.args) == 2 for q in (apply_closure(e.args[1], [], havoc_loops=True) or [])]:
            if pth.end == 'backedge':
                for k_, v_ in pth.state.mem.items():
                    m = re.match(r'AddWithOverflow\(loop[\w:]+_\d+, (\d+)\)\.0$', sk(v_))
                    if m:
                        incs.add(int(m.group(1)))
                for e in pth.branches():
                    m = re.match(r'AddWithOverflow\(loop[\w:]+_\d+, (\d+)\)\.1$', sk(e.term))
                    if m:
                        incs.add(int(m.group(1)))
    if step != {(True, (('A', 'arg2'),))} or incs != {1}:
        if incs and incs != {1}:
            probs.append('the counter of div is stepped by %s per division' % sorted(incs))
        elif step and all(len(d) <= 1 for _, d in step) and any(not d for _, d in step) and incs == {1}:
            probs.append('the loop of div counts a division without dividing (%s)' % sorted(step, key=str))
        else:
            unknown1.append('the loop of div was not read as `while (a %% c).is_zero() { a /= c; k += 1 }`: %s / +%s' % (sorted(step, key=str), sorted(incs)))
    inst = 'misc::div|number of exact divisions by c, None for 0'
    if probs:
        rep.violation('E8.F10-divisibility', inst, '; '.join(probs), where=need[0].where())
    elif unknown1:
        rep.indet('E8.F10: misc::div outside the recognised fragment: %s' % '; '.join(unknown1)[:300])
    else:
        rep.ok('E8.F10-divisibility', inst, 'None | Some(0) | +1 per exact division')
    # D2
    r = [sk(p.ret) for p in SymEx(need[1]).run() if p.end == 'return']
    clo = None
    for k, b in facts.bodies.items():
        if k == DV + '::{closure#0}':
            clo = [re.sub(r'\^_ref__', '^', sk(p.ret)) for p in SymEx(b).run() if p.end == 'return']
    inst = 'misc::div_vec|minimum over the non-zero coordinates'
    if r == ['min(filter_map(iter(arg1), closure<{closure#0}>))'] and clo == ['div(arg2.1, *arg1.^c)']:
        rep.ok('E8.F10-divisibility', inst, 'min(filter_map(div))')
    elif len(r) == 1 and re.match(r'(max|last|next|sum)\(filter_map\(iter\(arg1\), closure<\{closure#0\}>\)\)$', r[0]):
        rep.violation('E8.F10-divisibility', inst, 'div_vec takes %s instead of the minimum: a class is divisible by c^k only if *every* coordinate is' % r[0].split('(')[0], where=need[1].where())
    elif _divvec_loop(facts, need[1]) is True:
        rep.ok('E8.F10-divisibility', inst, 'running minimum over the coordinates with div(a, c) = Some(k), folded by value')
    elif _divvec_loop(facts, need[1]) is False:
        rep.violation('E8.F10-divisibility', inst, 'the loop of div_vec does not keep the minimum of the divisibilities: a class is divisible by c^k only if *every* coordinate is', where=need[1].where())
    else:
        rep.indet('E8.F10: div_vec outside the recognised fragment: %s / %s' % (r, clo))
    # D3: every div_vec site of compute_div, in a closure (r, c captured) or in its own body (r decided by `reduced` on the path)
    got = set()
    pat = re.compile(r'(expect|unwrap)\(div_vec\(&subvec\(&(.+), Range::Range\{start: 0, end: (.+?)\}\), (.+?)\)(?:, "[^"]*")?\)$')

    def norm(t):
        return re.sub(r'\^_ref__', '^', re.sub(r'#(?:i\d+:)?\d+\.\d+', '', show(t, -1000)))
    for k, b in facts.bodies.items():
        if k.startswith(CD + '::{closure'):
            for p in SymEx(b).run():
                if p.end == 'return' and 'div_vec(' in sk(p.ret):
                    m = pat.match(norm(p.ret))
                    got.add(('closure', m.group(3), m.group(4)) if m else ('?', norm(p.ret)[:160]))
    try:
        for p in SymEx(need[2], havoc_loops=True, max_paths=20000).run():
            red = next((e.value != 0 for e in p.branches() if sk(e.term) == 'arg3'), None)
            for e in p.calls('push'):
                v = norm(e.args[1])
                if 'div_vec(' in v:
                    m = pat.match(v)
                    # `let Some(d) = div_vec(..) else { panic!(..) }`: the same value, the None edge diverges
                    m2 = None if m else re.match(r'div_vec\(&subvec\(&(.+), Range::Range\{start: 0, end: (.+?)\}\), (.+?)\)\.Some\.0$', v)
                    if m2 and not any(q.end == 'return' and any(sk(c_.term).startswith('discr(div_vec(') and c_.value in (0, 'else') and tuple(c_.args or ()) in ((1,), (0, 1), (0,)) and (c_.value == 0 or tuple(c_.args or ()) == (1,)) for c_ in q.branches()) for q in [p]):
                        got.add(('body', (red, m2.group(2)), m2.group(3)))
                    else:
                        got.add(('body', (red, m.group(3)), m.group(4)) if m else ('?', v[:160]))
            for e in p.calls('div_vec'):
                if not any('div_vec(' in norm(x.args[-1] if x.name.split('::')[-1] == 'push' else x.args[0]) for x in p.calls('push', 'expect', 'unwrap')):
                    got.add(('?', 'div_vec result not stored through expect / unwrap'))
    except Exception as ex:
        got.add(('?', str(ex)[:100]))
    site_ok = got == {('closure', '**arg1.^r', '*arg1.^c')} or got == {('body', (True, '1'), 'arg2'), ('body', (False, '2'), 'arg2')}
    rv = set()
    rr = set()
    for p in SymEx(need[2], max_paths=20000).run():
        if p.end == 'return':
            rr.add(sk(p.ret)[-4:])
            red = next((e.value != 0 for e in p.branches() if sk(e.term) == 'arg3'), None)
            ranks = [sk(e.term) for e in p.branches() if sk(e.term).startswith('Eq(rank(')]
            rk = None
            for t in ranks:
                m = re.search(r', (\d+)\)$', t)
                if m:
                    rk = int(m.group(1))
            eqs = [e for e in p.branches() if sk(e.term).startswith('all_equal(')]
            rv.add((red, rk, bool(eqs) and all(e.value != 0 for e in eqs)))
    inst = 'ss::compute_div|div_vec of the free coordinates 0..r of each class, all equal'
    okc = site_ok and rv == {(True, 1, True), (False, 2, True)} and rr == {', 0)'}
    if okc:
        rep.ok('E8.F10-divisibility', inst, 'subvec(0..r), all_equal, ds[0]')
    else:
        rep.indet('E8.F10: compute_div outside the recognised fragment: %s / %s / %s' % (sorted(got, key=str), sorted(rv, key=str), rr))


def _divvec_loop(facts, body):
    """div_vec written as a loop with a running Option<i32>: folded over (state, divisibility of the next coordinate);
    True / False / None (not read)"""
    from dtree import DTree, Stuck
    try:
        hp = SymEx(body, havoc_loops=True, max_paths=4000).run()
    except Exception:
        return None
    rets = [p for p in hp if p.end == 'return']
    back = [p for p in hp if p.end == 'backedge']
    if not back or not rets or not all(strip(p.ret)[0] == 'loopvar' for p in rets):
        return None
    L = strip(rets[0].ret)[2]
    ent = set()
    src = set()
    for p in hp:
        for (fid, bb_, l), v in p.state.loop_entry.items():
            if fid == 0 and l == L and strip(v)[0] != 'loopvar':
                ent.add(sk(v))
            if fid == 0 and strip(v)[0] == 'call' and strip(v)[1].endswith('into_iter'):
                src.add(sk(v).replace('&', '').replace('*', ''))
    if ent != {'Option::None{}'} or src != {'into_iter(iter(arg1))'}:
        return None
    dt = DTree(facts)
    paths = [([(e.term, e.value, e.args) for e in p.branches() if not (e.name or '').startswith('assert:') and not sk(e.term).startswith('discr(next(')], None, p) for p in back]

    def opt(x):
        return {'<variant>': 0} if x is None else {'<variant>': 1, 'Some.0': x}
    try:
        for m in (None, 1, 3):
            for k in (None, 0, 2, 3, 5):
                def atom(t, ev, m=m, k=k):
                    if t[0] == 'loopvar' and t[2] == L:
                        return (opt(m),)
                    if t[0] == 'call' and t[1].endswith('misc::div') and len(t[2]) == 2:
                        return (opt(k),)
                    if t[0] == 'call' and t[1].split('::')[-1] in ('le', 'lt', 'ge', 'gt', 'min', 'max') and len(t[2]) == 2:
                        a_, b_ = ev(t[2][0]), ev(t[2][1])
                        n_ = t[1].split('::')[-1]
                        return ({'le': int(a_ <= b_), 'lt': int(a_ < b_), 'ge': int(a_ >= b_), 'gt': int(a_ > b_), 'min': min(a_, b_), 'max': max(a_, b_)}[n_],)
                    return None
                _, p = dt.decide_paths(paths, {}, atom, what='the loop of div_vec', want_ret=False)
                fin = dt.ev(p.mem.get((('local', L), ()), ('loopvar', 0, L)), {}, atom)
                got = None if (isinstance(fin, dict) and fin.get('<variant>') in (0, 'None')) else (fin.get('Some.0', fin.get('0')) if isinstance(fin, dict) else fin)
                want = m if k is None else (k if m is None else min(m, k))
                if got != want:
                    return False
    except (Stuck, KeyError, TypeError):
        return None
    return True



def check_koszul_sign(facts, rep):
    """F11: the differential of the tensor product D(left, right) built by TngComplex::connect_edges is
    d(v (x) w) = dv (x) w + (-1)^{deg v} v (x) dw: the two edge families have source k0 + l0 and targets k1 + l0 resp. k0 + l1,
    each edge is glued to the identity of the *other* factor's tangle, and the sign is applied to exactly one family with
    an exponent that is the homological degree (weight - shift) of the factor that is *not* differentiated (otherwise
    the two families commute instead of anticommuting and d.d != 0 from the second crossing on)."""
    root = 'yui_kh::kh::internal::v2::tng_complex::TngComplex::<R>::connect_edges'
    outer = facts.bodies.get(root + '::{closure#0}')
    if outer is None:
        rep.indet('E8.F11: connect_edges closure not found')
        return
    rep.saw(outer)

    def dk(t):
        return re.sub(r'\^_ref__', '^', re.sub(r'#(?:i\d+:)?\d+\.\d+', '', show(t, -1000))).replace('&', '').replace('*', '')
    # the two edge families, read where they are built: map(keys_out_from(<factor>, <key>), closure) with the closure applied
    # to a symbolic target key (captures substituted, so everything is in the vocabulary of the per-vertex closure:
    # arg2 = (k0, l0), arg1.^left / arg1.^right the factors)
    from symex import apply_closure
    inst = 'TngComplex::connect_edges|d(v x w) = dv x w + (-1)^{deg v} v x dw'
    fam = {}
    variants = {}
    src_at_add = set()
    try:
        for p in SymEx(outer, havoc_loops=True, max_paths=5000).run():
            for e in p.calls():
                n = e.name.split('::')[-1]
                if n == 'map' and len(e.args) == 2 and strip(e.args[1])[0] == 'closure':
                    m0 = re.match(r'keys_out_from\(arg1\.\^(left|right), arg2\.([01])\)$', dk(e.args[0]))
                    if not m0:
                        continue
                    for q in apply_closure(e.args[1], [('item',)]) or []:
                        if q.end == 'return' and q.ret and strip(q.ret)[0] == 'tuple' and len(strip(q.ret)[1]) in (2, 3):
                            comps_ = [dk(x).replace("('item',)", 'ITEM') for x in strip(q.ret)[1]]
                            variants.setdefault((m0.group(1), m0.group(2)), [])
                            if comps_ not in variants[(m0.group(1), m0.group(2))]:
                                variants[(m0.group(1), m0.group(2))].append(comps_)
                            # the family is described by a path that glues and (possibly) signs; other paths are compared with it below
                            if (m0.group(1), m0.group(2)) not in fam or ('connected(' in comps_[-1] and 'connected(' not in fam[(m0.group(1), m0.group(2))][-1]) or ('from_sign(' in comps_[-1] and 'from_sign(' not in fam[(m0.group(1), m0.group(2))][-1]):
                                fam[(m0.group(1), m0.group(2))] = comps_
                if n == 'add_edge' and len(e.args) == 4:
                    src_at_add.add(dk(e.args[1]))
    except Exception as ex:
        rep.indet('E8.F11: connect_edges: %s' % str(ex)[:120])
        return
    if not fam:
        # the two families as `for` loops over keys_out_from(..) with add_edge in the body (possibly through a small helper)
        try:
            for p in SymEx(outer, havoc_loops=True, max_paths=5000).run():
                if p.end != 'backedge':
                    continue
                its = {}
                for (fid_, bb_, l_), v_ in p.state.loop_entry.items():
                    m0 = re.match(r'into_iter\(keys_out_from\(arg1\.\^(left|right), arg2\.([01])\)\)$', dk(v_))
                    if fid_ == 0 and m0:
                        its[l_] = (m0.group(1), m0.group(2))
                for e in p.calls():
                    if e.name.split('::')[-1] == 'add_edge' and len(e.args) == 4:
                        comps_ = [dk(a) for a in e.args[1:]]
                        used = {l_ for l_ in its if any(re.search(r'next\(mut _%d\)\.Some\.0' % l_, c) for c in comps_)}
                        if len(used) != 1:
                            continue
                        l_ = next(iter(used))
                        comps_ = [re.sub(r'next\(mut _%d\)\.Some\.0' % l_, 'ITEM', c) for c in comps_]
                        variants.setdefault(its[l_], [])
                        if comps_ not in variants[its[l_]]:
                            variants[its[l_]].append(comps_)
                        if its[l_] not in fam or ('connected(' in comps_[-1] and 'connected(' not in fam[its[l_]][-1]) or ('from_sign(' in comps_[-1] and 'from_sign(' not in fam[its[l_]][-1]):
                            fam[its[l_]] = comps_
        except Exception as ex:
            rep.indet('E8.F11: connect_edges: %s' % str(ex)[:120])
            return
        # TngKey::weight() is the weight of its state (only then `weight(k0)` may stand for `weight(k0.state)`)
        wk = [b_ for k_, b_ in facts.bodies.items() if k_.endswith('TngKey::weight')]
        wk_ok = len(wk) == 1 and {dk(q.ret) for q in SymEx(wk[0]).run() if q.end == 'return'} == {'weight(arg1.state)'}
        if wk_ok:
            for key_ in list(fam):
                fam[key_] = [re.sub(r'weight\(arg2\.([01])\)', r'weight(arg2.\1.state)', c) for c in fam[key_]]
            for key_ in list(variants):
                variants[key_] = [[re.sub(r'weight\(arg2\.([01])\)', r'weight(arg2.\1.state)', c) for c in cs] for cs in variants[key_]]
    if len(fam) != 2:
        rep.indet('E8.F11: edge families of connect_edges outside the recognised fragment: %s' % fam)
        return
    left = right = None
    i0 = None
    for (side, keyidx), comps in fam.items():
        if len(comps) == 3:
            src, tgt, val = comps
        else:
            tgt, val = comps
            src = next(iter(src_at_add)) if len(src_at_add) == 1 else '?'
        m = re.match(r'part_eval\((mul\()?connected\(edge\(arg1\.\^(left|right), arg2\.([01]), ITEM\), id\(tng\(vertex\(arg1\.\^(left|right), arg2\.([01])\)\)\)\)'
                     r'(, from_sign\(from_parity\(\(SubWithOverflow\(\(weight\(arg2\.([01])\.state\) as isize\), arg1\.\^(left|right)\.deg_shift\.0\)\.0 as i64\)\)\)\))?, arg1\.\^h, arg1\.\^t\)$', val)
        if not m or m.group(2) != side or m.group(3) != keyidx:
            rep.indet('E8.F11: edge value %s' % val[:200])
            return
        rec = {'src': src, 'tgt': tgt, 'side': side, 'from': 'k0' if keyidx == '0' else 'l0',
               'id_of': {('right', '1'): 'w0', ('left', '0'): 'v0'}.get((m.group(4), m.group(5)), '%s[%s]' % (m.group(4), m.group(5))), 'signed': bool(m.group(1))}
        if m.group(6):
            i0 = (m.group(7), m.group(8))
        if side == 'left':
            left = rec
        else:
            right = rec
    SRC = 'add(arg2.0, arg2.1)'
    K0_L0 = 'arg1.^k0_l0'
    for rec in (left, right):
        if rec and rec['src'] == SRC:
            rec['src'] = K0_L0
    if left and left['tgt'] == 'add(ITEM, arg2.1)':
        left['tgt'] = 'add(arg2, arg1.^l0)'
    if right and right['tgt'] == 'add(arg2.0, ITEM)':
        right['tgt'] = 'add(arg1.^k0, arg2)'
    if i0 is None and (left and right) and (left['signed'] or right['signed']):
        rep.indet('E8.F11: sign exponent of connect_edges not found')
        return
    if i0 is None:
        i0 = ('0', 'left')
    probs = []
    if not left or not right:
        probs.append('the two families do not differentiate one factor each')
    else:
        if (left['src'], left['tgt'], left['from'], left['id_of']) != ('arg1.^k0_l0', 'add(arg2, arg1.^l0)', 'k0', 'w0'):
            probs.append('left family is %s' % left)
        if (right['src'], right['tgt'], right['from'], right['id_of']) != ('arg1.^k0_l0', 'add(arg1.^k0, arg2)', 'l0', 'v0'):
            probs.append('right family is %s' % right)
        signed = [r['side'] for r in (left, right) if r['signed']]
        if len(signed) != 1:
            probs.append('the sign is applied to %d of the two families (must be exactly one)' % len(signed))
        else:
            # exponent = degree of the factor that is NOT differentiated
            deg_of = {'0': 'left', '1': 'right'}[i0[0]]
            if i0[1] != deg_of:
                probs.append('the exponent mixes the weight of the %s key with the shift of the %s complex' % (deg_of, i0[1]))
            if deg_of == signed[0]:
                probs.append('the family differentiating the %s factor carries (-1)^{deg of the %s factor}: the two families commute, d.d != 0' % (signed[0], deg_of))
    # every other path that produces an edge of a family: the same value, or - gluing to the identity of an empty tangle
    # being a no-op - the bare edge; the sign of a signed family must be there on every path
    for key_, vs_ in variants.items():
        for comps_ in vs_:
            if comps_ == fam.get(key_):
                continue
            val_ = comps_[-1]
            bare = re.match(r'part_eval\((?:clone\()?edge\(arg1\.\^(left|right), arg2\.([01]), ITEM\)\)?, arg1\.\^h, arg1\.\^t\)$', val_)
            rec_ = left if key_[0] == 'left' else right
            if comps_[:-1] != fam[key_][:-1]:
                rep.indet('E8.F11: two paths of connect_edges give an edge of the %s family different ends' % key_[0])
                return
            if bare and rec_ and rec_['signed']:
                probs.append('on one path the %s family carries its sign, on another (the bare edge, without the gluing) it does not: for a split diagram the squares of the second component commute, d.d != 0 over Z' % key_[0])
            elif bare:
                continue
            elif 'from_sign(' in fam[key_][-1] and 'from_sign(' not in val_:
                probs.append('the sign of the %s family is missing on one of its paths' % key_[0])
            else:
                rep.indet('E8.F11: a second form of the %s edge value: %s' % (key_[0], val_[:160]))
                return
    if probs:
        rep.violation('E8.F11-koszul-sign', inst, 'TngComplex::connect_edges: ' + '; '.join(probs), where=outer.where())
    else:
        rep.ok('E8.F11-koszul-sign', inst, 'sign (-1)^{weight(k0) - shift(left)} on the family differentiating the right factor')


def check_pivot_eligibility(facts, rep):
    """F13: Gaussian elimination inverts an edge a with LcCob::inv, which reads only the *first* term of the linear
    combination. It is the inverse of a only if a has exactly one term, an invertible cobordism with a unit coefficient -
    and that is what the gate LcCob::is_invertible (used by choose_pivot / eliminate_in) must test: every path on which
    is_invertible can answer true has taken `nterms() == 1` and the answer is `c.is_invertible() && a.is_unit()` of that
    term. A gate that only asks whether inv() returns something lets a multi-term edge whose first stored term happens to be
    a unit cylinder through (possible as soon as h or t is a unit) - silently wrong homology, hash-order dependent."""
    T = "kh::internal::v2::cob::LcCobTrait>::"
    gate = [b for k, b in facts.bodies.items() if k.endswith(T + 'is_invertible') and 'Lc<' in k]
    inv = [b for k, b in facts.bodies.items() if k.endswith(T + 'inv') and 'Lc<' in k]
    if len(gate) != 1 or len(inv) != 1:
        rep.indet('E8.F13: LcCob::{is_invertible, inv} not found (%d, %d)' % (len(gate), len(inv)))
        return
    gate, inv = gate[0], inv[0]
    rep.saw(gate)
    rep.saw(inv)

    def dk(t):
        return re.sub(r'\^_ref__', '^', re.sub(r'#(?:i\d+:)?\d+\.\d+', '', show(t, -1000))).replace('&', '').replace('*', '')
    # does inv look at the first term only?
    first_only = False
    for p in SymEx(inv, max_paths=2000).run():
        if p.end == 'return' and dk(p.ret).startswith('Option::Some'):
            nexts = [e for e in p.calls() if e.name.endswith('::next')]
            loops = [e for e in p.calls() if e.name.split('::')[-1] in ('nterms', 'len', 'count')]
            if len(nexts) == 1 and not loops:
                first_only = True
    inst = 'LcCob::is_invertible|true only for a single term with invertible cobordism and unit coefficient'
    if not first_only:
        rep.indet('E8.F13: LcCob::inv no longer reads exactly the first term; the eligibility rule has to be re-derived')
        return
    true_paths = []
    for p in SymEx(gate, max_paths=2000).run():
        if p.end != 'return':
            continue
        r = dk(p.ret)
        if r in ('0', 'false'):
            continue
        conds = [(dk(e.term), e.value != 0) for e in p.branches()]
        true_paths.append((r, conds, p))
    probs = []
    for r, conds, p in true_paths:
        single = ('Eq(nterms(arg1), 1)', True) in conds
        if not single:
            probs.append('can answer %s without having tested nterms() == 1' % r[:80])
            continue
        rr = strip(p.ret)
        okv = False
        if rr[0] == 'call' and rr[1].split('::')[-1] == 'unwrap_or' and dk(rr[2][1]) in ('0', 'false'):
            m = strip(rr[2][0])
            if m[0] == 'call' and m[1].split('::')[-1] == 'map':
                clo = strip(m[2][1])
                cb = facts.bodies.get(clo[1]) if clo[0] == 'closure' else None
                if cb is not None:
                    shapes = {(dk(q.ret), tuple((dk(e.term), e.value != 0) for e in q.branches())) for q in SymEx(cb).run() if q.end == 'return'}
                    okv = shapes == {('0', (('is_invertible(arg2.0)', False),)), ('is_unit(arg2.1)', (('is_invertible(arg2.0)', True),))} or \
                        shapes == {('0', (('is_unit(arg2.1)', False),)), ('is_invertible(arg2.0)', (('is_unit(arg2.1)', True),))}
        if not okv:
            probs.append('with a single term the answer is %s, expected c.is_invertible() && a.is_unit() of that term' % r[:100])
    if not true_paths:
        rep.indet('E8.F13: is_invertible never answers true')
    elif probs:
        rep.violation('E8.F13-pivot-eligibility', inst, 'LcCob::is_invertible ' + '; '.join(sorted(set(probs))) + ' - but LcCob::inv inverts only the first term of the combination', where=gate.where())
    else:
        rep.ok('E8.F13-pivot-eligibility', inst, 'nterms() == 1 && c.is_invertible() && a.is_unit(); inv() reads that one term')
