"""E7b - involution bookkeeping of the symmetric (involutive) builder (C19).

tau acts on the vertices of the tangle complex through `key_map`; the mapping cone of 1 + tau is a
chain complex only if tau is an involution on keys.
  K1  who-may-write: entries of SymTngBuilder.key_map are inserted / removed only inside
      add_key_pair / remove_key_pair (everything else replaces the whole map)
  K2  add_key_pair inserts (k, tk) and, when k != tk, (tk, k); remove_key_pair removes k and, when
      k != tk, tk: the map stays closed under tau
  K3  the literal key table of an off-axis crossing pair is the coordinate swap on {0,1}^2 (an
      involution), the on-axis table is the identity
  K4  when two symmetric complexes are connected the new map sends (k1 + k2) to (l1 + l2)
"""
import re
from symex import SymEx, show, strip
from core import op_place
from e5_locks import resolve_place

B = 'yui_kh::khi::internal::v2::builder::SymTngBuilder::<R>::'


def sk(t):
    return re.sub(r'#\d+\.\d+', '', show(t))


def lit(t):
    """literal array / tuple / const term -> python value"""
    t = strip(t)
    if t[0] == 'const':
        return t[1]
    if t[0] == 'agg' and t[1] == 'array':
        return [lit(x) for x in t[2]]
    if t[0] == 'tuple':
        return tuple(lit(x) for x in t[1])
    raise ValueError(sk(t))


def run(facts, rep):
    # K1
    n = 0
    for k, b in sorted(facts.bodies.items()):
        root = b.d.get('root') or k
        if not root.startswith(B):
            continue
        for c in b.calls():
            m = (c.generic or '').split('::')[-1]
            if m not in ('insert', 'remove', 'clear', 'retain', 'extend', 'get_mut', 'entry', 'drain') or not c.args:
                continue
            p = op_place(c.args[0])
            if p is None or not b.local_ty(p['l']).startswith('&mut '):
                continue
            r = resolve_place(b, p, 0, True)
            if re.search(r'\(\*_1\)\.key_map\)*$', r.lstrip('&')) or re.search(r'deref_mut\(&\(\*_1\)\.key_map\)', r):
                n += 1
                inst = '%s|%s on key_map' % (k, m)
                if root in (B + 'add_key_pair', B + 'remove_key_pair'):
                    rep.ok('E7b.K1-key-map-writers', inst, 'inside the pair helper')
                else:
                    rep.violation('E7b.K1-key-map-writers', inst, '%s %ss a single entry of key_map outside add_key_pair / remove_key_pair: tau may stop being an involution' % (k, m),
                                  where=c.where())
    rep.floor('E7b key_map entry mutation sites', n, 4)
    # K2
    for nm, meth in (('add_key_pair', 'insert'), ('remove_key_pair', 'remove')):
        b = facts.bodies.get(B + nm)
        if b is None:
            rep.indet('E7b: %s not found' % nm)
            continue
        rep.saw(b)
        shapes = set()
        for p in SymEx(b).run():
            if p.end != 'return':
                continue
            ne = None
            for e in p.branches():
                s = sk(e.term)
                if s.startswith('ne(') or s.startswith('eq('):
                    truth = (e.value == 'else')
                    ne = truth if s.startswith('ne(') else (not truth)
            calls = [tuple(sk(strip(a)) for a in e.args[1:]) for e in p.calls() if e.name.split('::')[-1] == meth and 'key_map' in sk(e.args[0])]
            shapes.add((ne, tuple(calls)))
        inst = '%s|symmetric in (k, tau k)' % (B + nm)
        if nm == 'add_key_pair':
            want = {(True, (('arg2', 'arg3'), ('arg3', 'arg2'))), (False, (('arg2', 'arg3'),))}
        else:
            want = None
            ok = len(shapes) == 2 and {s[0] for s in shapes} == {True, False}
            for ne, calls in shapes:
                if ne and not (len(calls) == 2 and calls[0] == ('arg2',) and 'remove(' in calls[1][0] and 'arg2' in calls[1][0]):
                    ok = False
                if ne is False and not (len(calls) == 1 and calls[0] == ('arg2',)):
                    ok = False
        if (want is not None and shapes == want) or (want is None and ok):
            rep.ok('E7b.K2-pair-helpers', inst, str(sorted(shapes, key=str)))
        else:
            rep.violation('E7b.K2-pair-helpers', inst, '%s performs %s: it must update both (k -> tk) and (tk -> k) unless k == tk' % (nm, sorted(shapes, key=str)), where=b.where())
    # K3
    for nm, kind in (('append_off_axis', 'swap'), ('append_on_axis', 'identity')):
        b = facts.bodies.get(B + nm)
        if b is None:
            rep.indet('E7b: %s not found' % nm)
            continue
        rep.saw(b)
        tables = []
        for p in SymEx(b, max_paths=20000).run():
            for e in p.calls():
                if e.name.split('::')[-1] == 'map' and e.args:
                    try:
                        v = lit(e.args[0])
                    except ValueError:
                        continue
                    if isinstance(v, list) and v and v not in tables:
                        tables.append(v)
        inst = '%s|literal key table is the %s' % (B + nm, 'coordinate swap (an involution)' if kind == 'swap' else 'identity')
        good = False
        if kind == 'swap':
            for tb in tables:
                try:
                    pairs = {tuple(a): tuple(b_) for a, b_ in tb}
                    if set(pairs) == {(0, 0), (0, 1), (1, 0), (1, 1)} and all(pairs[k] == (k[1], k[0]) for k in pairs) and all(pairs[pairs[k]] == k for k in pairs):
                        good = True
                except Exception:
                    pass
            if good:
                rep.ok('E7b.K3-key-tables', inst, str(tables))
            else:
                rep.violation('E7b.K3-key-tables', inst, 'the key table of an off-axis crossing pair is %s; tau must exchange the two resolution bits' % tables, where=b.where())
        else:
            # [Bit0, Bit1].map(|b| (k, k)) : the closure returns the same key twice
            same = False
            for k, cb in facts.bodies.items():
                if k.startswith(b.defp + '::{closure'):
                    for q in SymEx(cb).run():
                        r = q.ret
                        if q.end == 'return' and r is not None and r[0] == 'tuple' and len(r[1]) == 2 and r[1][0] == r[1][1]:
                            same = True
            if same:
                rep.ok('E7b.K3-key-tables', inst, '(k, k)')
            else:
                rep.violation('E7b.K3-key-tables', inst, 'the key table of an on-axis crossing no longer maps each key to itself', where=b.where())
    # K4
    b = facts.bodies.get(B + 'connect')
    if b is None:
        rep.indet('E7b: connect not found')
    else:
        rep.saw(b)
        good = False
        for k, cb in facts.bodies.items():
            if k.startswith(b.defp + '::{closure'):
                for q in SymEx(cb).run():
                    r = q.ret
                    if q.end == 'return' and r is not None and r[0] == 'tuple' and len(r[1]) == 2:
                        a, c_ = sk(r[1][0]), sk(r[1][1])
                        if a.startswith('add(') and c_.startswith('add(') and re.search(r'arg2\.0\.0\b.*arg2\.1\.0\b', a) and re.search(r'arg2\.0\.1\b.*arg2\.1\.1\b', c_):
                            good = True
        inst = '%s|(k1 + k2) -> (l1 + l2)' % (B + 'connect')
        if good:
            rep.ok('E7b.K4-connect-keys', inst, 'pairs combined componentwise in the same order')
        else:
            rep.violation('E7b.K4-connect-keys', inst, 'SymTngBuilder::connect no longer maps k1 + k2 to l1 + l2', where=b.where())


def check_doubling(facts, rep):
    """K5: build_from_half glues the half tangle T to its mirror image tau(T). Every datum of a transported cycle
    doubles together: key k -> k + k, cobordism c -> c u tau(c), coefficient r -> r * r, and the tau key map sends
    k1 + k2 to k2 + k1. A datum that is not doubled (e.g. the coefficient, harmless over F2 but not over F2[H])
    leaves an inhomogeneous / wrong canonical class."""
    root = B + 'build_from_half'
    bodies = {k: b for k, b in facts.bodies.items() if k.startswith(root + '::{closure')}
    if root not in facts.bodies or not bodies:
        rep.indet('E7b.K5: build_from_half not found')
        return
    key_doubled = coef_squared = cob_doubled = swap = False
    for k, b in bodies.items():
        rep.saw(b)
        for p in SymEx(b, max_paths=5000).run():
            r = p.ret
            if p.end != 'return' or r is None or r[0] != 'tuple' or len(r[1]) != 2:
                continue
            a, c = r[1]
            sa, sc = sk(a), sk(c)
            if sa == 'add(arg2, arg2)':
                key_doubled = True
            if re.match(r'mul\(&?arg3, &?arg3\)$', sc):
                coef_squared = True
                calls = [e.name.split('::')[-1] for e in p.calls()]
                if 'connect' in calls and 'convert_edges' in calls:
                    cob_doubled = True
            if sa == 'add(arg2.0, arg2.1)' and sc == 'add(arg2.1, arg2.0)':
                swap = True
    inst = 'SymTngBuilder::build_from_half|key, cobordism and coefficient of a cycle double together; tau swaps the halves'
    if key_doubled and coef_squared and cob_doubled and swap:
        rep.ok('E7b.K5-doubling', inst, 'k -> k + k, c -> c.connect(tau c), r -> r * r, (k1 + k2) -> (k2 + k1)')
    else:
        rep.violation('E7b.K5-doubling', inst,
                      'build_from_half doubles key: %s, cobordism: %s, coefficient (r*r): %s, tau swap of halves: %s - all four are needed when the half tangle is glued to its mirror image' %
                      (key_doubled, cob_doubled, coef_squared, swap), where=facts.bodies[root].where())


def check_half_grouping(facts, rep):
    """K6: the off-axis crossings are grouped into connected pieces by a union over *all* adjacent pairs: the union call
    sits in a two-level loop nest (x over all off-axis crossings, y over all earlier ones) that is left only by exhaustion,
    guarded by the adjacency test alone. Joining each crossing to the *first* adjacent earlier one only leaves pieces
    unmerged, the partition depends on the listing order, and a "half" may contain a crossing together with its mirror image."""
    import cfgutil
    b = facts.bodies.get(B + 'off_axis_crossings')
    if b is None:
        rep.indet('E7b.K6: off_axis_crossings not found')
        return
    rep.saw(b)
    unions = [c for c in b.calls() if (c.callee or c.generic or '').split('::')[-1] == 'union']
    inst = 'SymTngBuilder::off_axis_crossings|union over all adjacent pairs (x, earlier y)'
    if len(unions) != 1:
        rep.indet('E7b.K6: %d union calls in off_axis_crossings' % len(unions))
        return
    ub = unions[0].bb
    dom = b.dominators()
    loops = [l for l in cfgutil.for_loops(b) if l[1] in dom.get(ub, ()) and ub in cfgutil.reach_without(b, l[2], {l[1]})]
    probs = []
    if len(loops) < 2:
        probs.append('the union is inside %d loop(s) instead of the nest over all pairs: each crossing is joined to at most one earlier crossing' % len(loops))
    for (I, N, some, none) in loops:
        if cfgutil.early_exits(b, N, some):
            probs.append('a loop around the union can be left before its range is exhausted')
    # guard: the union is reached from the inner loop head only through the adjacency test
    calls_between = set()
    if loops:
        inner = max(loops, key=lambda l: len(dom[l[1]]))
        region = cfgutil.reach_without(b, inner[2], {inner[1], ub})
        for c in b.calls():
            if c.bb in region and ub in cfgutil.reach_without(b, c.bb, {inner[1]}):
                calls_between.add((c.callee or c.generic or '').split('::')[-1])
    if probs:
        rep.violation('E7b.K6-all-pairs-union', inst, 'SymTngBuilder::off_axis_crossings: ' + '; '.join(probs) +
                      ' - connected pieces stay unmerged, the chosen half depends on the listing order and can contain a crossing and its mirror image', where=b.where())
    else:
        rep.ok('E7b.K6-all-pairs-union', inst, 'two nested exhaustive loops; calls before the union: %s' % sorted(calls_between))
