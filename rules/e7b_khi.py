"""E7b - involution bookkeeping of the symmetric (involutive) builder (C19).

tau acts on the vertices of the tangle complex through `key_map`; the mapping cone of 1 + tau is a
chain complex only if tau is an involution on keys.
  K1  who-may-write: entries of SymTngBuilder.key_map are inserted / removed only inside
      add_key_pair / remove_key_pair (everything else replaces the whole map)
  K2  add_key_pair inserts (k, tk) and, when k != tk, (tk, k); remove_key_pair removes k and, when
      k != tk, tk: the map stays closed under tau
  K3  the literal key table of an off-axis crossing pair is the coordinate swap on {0,1}^2 (an
      involution), the on-axis table is the identity
  K4  when two symmetric complexes are connected the new map sends (k1 + k2) to (l1 + l2)
"""
import re
from symex import SymEx, show, strip
from core import op_place
from e5_locks import resolve_place

B = 'yui_kh::khi::internal::v2::builder::SymTngBuilder::<R>::'


def sk(t):
    return re.sub(r'#(?:i\d+:)?\d+\.\d+', '', show(t))


def lit(t):
    """literal array / tuple / const term -> python value"""
    t = strip(t)
    if t[0] == 'const':
        return t[1]
    if t[0] == 'agg' and t[1] == 'array':
        return [lit(x) for x in t[2]]
    if t[0] == 'tuple':
        return tuple(lit(x) for x in t[1])
    raise ValueError(sk(t))


def run(facts, rep):
    # K1
    n = 0
    for k, b in sorted(facts.bodies.items()):
        root = b.d.get('root') or k
        if not root.startswith(B):
            continue
        for c in b.calls():
            m = (c.generic or '').split('::')[-1]
            if m not in ('insert', 'remove', 'clear', 'retain', 'extend', 'get_mut', 'entry', 'drain') or not c.args:
                continue
            p = op_place(c.args[0])
            if p is None or not b.local_ty(p['l']).startswith('&mut '):
                continue
            r = resolve_place(b, p, 0, True)
            if re.search(r'\(\*_1\)\.key_map\)*$', r.lstrip('&')) or re.search(r'deref_mut\(&\(\*_1\)\.key_map\)', r):
                n += 1
                inst = '%s|%s on key_map' % (k, m)
                rc_ = facts.rev_callgraph()
                helpers_ = {B + 'add_key_pair', B + 'remove_key_pair'}
                rb_ = facts.bodies.get(root)
                step_ = rb_ is not None and rb_.d.get('vis', 'pub') != 'pub' and rc_.get(root) and all((facts.bodies[c_].d.get('root') or c_) in helpers_ for c_ in rc_.get(root, ()) if c_ in facts.bodies)
                if root in helpers_ or step_:
                    rep.ok('E7b.K1-key-map-writers', inst, 'inside the pair helper')
                else:
                    rep.violation('E7b.K1-key-map-writers', inst, '%s %ss a single entry of key_map outside add_key_pair / remove_key_pair: tau may stop being an involution' % (k, m),
                                  where=c.where())
    rep.floor('E7b key_map entry mutation sites', n, 4)
    # K2
    for nm, meth in (('add_key_pair', 'insert'), ('remove_key_pair', 'remove')):
        b = facts.bodies.get(B + nm)
        if b is None:
            rep.indet('E7b: %s not found' % nm)
            continue
        rep.saw(b)
        shapes = set()
        for p in SymEx(b).run():
            if p.end != 'return':
                continue
            ne = None
            for e in p.branches():
                s = sk(e.term)
                if s.startswith('ne(') or s.startswith('eq('):
                    truth = (e.value == 'else')
                    ne = truth if s.startswith('ne(') else (not truth)
            calls = [tuple(sk(strip(a)) for a in e.args[1:]) for e in p.calls() if e.name.split('::')[-1] == meth and 'key_map' in sk(e.args[0])]
            shapes.add((ne, tuple(calls)))
        inst = '%s|symmetric in (k, tau k)' % (B + nm)
        if nm == 'add_key_pair':
            want = {(True, (('arg2', 'arg3'), ('arg3', 'arg2'))), (False, (('arg2', 'arg3'),))}
        else:
            want = None
            ok = len(shapes) == 2 and {s[0] for s in shapes} == {True, False}
            for ne, calls in shapes:
                if ne and not (len(calls) == 2 and calls[0] == ('arg2',) and 'remove(' in calls[1][0] and 'arg2' in calls[1][0]):
                    ok = False
                if ne is False and not (len(calls) == 1 and calls[0] == ('arg2',)):
                    ok = False
        recognised = bool(shapes) and all(ne_ in (True, False, None) and calls_ and all(all(re.match(r'^(arg[23]|remove\(.*arg[23].*\)|&|\*|clone\(arg[23]\))+$', x.replace(' ', '')) or x in ('arg2', 'arg3') for x in c_) for c_ in calls_) for ne_, calls_ in shapes)
        if (want is not None and shapes == want) or (want is None and ok):
            rep.ok('E7b.K2-pair-helpers', inst, str(sorted(shapes, key=str)))
        elif not recognised:
            rep.indet('E7b.K2: %s outside the recognised fragment: %s' % (nm, sorted(shapes, key=str)[:2]))
        else:
            rep.violation('E7b.K2-pair-helpers', inst, '%s performs %s: it must update both (k -> tk) and (tk -> k) unless k == tk' % (nm, sorted(shapes, key=str)), where=b.where())
    # K3
    for nm, kind in (('append_off_axis', 'swap'), ('append_on_axis', 'identity')):
        b = facts.bodies.get(B + nm)
        if b is None:
            rep.indet('E7b: %s not found' % nm)
            continue
        rep.saw(b)
        tables = []
        from symex import subterms as _subterms
        for p in SymEx(b, havoc_loops=True, max_paths=20000).run():
            for e in p.calls():
                # the literal table wherever it is consumed (`.map(..)`, a `for` over it, a helper that builds the pairs)
                for a_ in e.args:
                    for y in _subterms(a_):
                        if isinstance(y, tuple) and y and y[0] == 'agg' and y[1] == 'array' and len(y[2]) == 4:
                            try:
                                v = lit(y)
                            except (ValueError, KeyError, IndexError, TypeError):
                                continue
                            if isinstance(v, list) and v and all(isinstance(r_, (list, tuple)) and len(r_) == 2 for r_ in v) and v not in tables:
                                tables.append(v)
        inst = '%s|literal key table is the %s' % (B + nm, 'coordinate swap (an involution)' if kind == 'swap' else 'identity')
        good = False
        if kind == 'swap':
            for tb in tables:
                try:
                    pairs = {tuple(a): tuple(b_) for a, b_ in tb}
                    if set(pairs) == {(0, 0), (0, 1), (1, 0), (1, 1)} and all(pairs[k] == (k[1], k[0]) for k in pairs) and all(pairs[pairs[k]] == k for k in pairs):
                        good = True
                except Exception:
                    pass
            if good:
                rep.ok('E7b.K3-key-tables', inst, str(tables))
            elif not tables:
                rep.indet('E7b.K3: no literal key table found in %s' % nm)
            else:
                rep.violation('E7b.K3-key-tables', inst, 'the key table of an off-axis crossing pair is %s; tau must exchange the two resolution bits' % tables, where=b.where())
        else:
            # [Bit0, Bit1].map(|b| (k, k)) : the closure returns the same key twice
            same = False
            for k, cb in facts.bodies.items():
                if k.startswith(b.defp + '::{closure'):
                    for q in SymEx(cb).run():
                        r = q.ret
                        if q.end == 'return' and r is not None and r[0] == 'tuple' and len(r[1]) == 2 and r[1][0] == r[1][1]:
                            same = True
            differs = False
            for k, cb in facts.bodies.items():
                if k.startswith(b.defp + '::{closure'):
                    for q in SymEx(cb).run():
                        r = q.ret
                        if q.end == 'return' and r is not None and r[0] == 'tuple' and len(r[1]) == 2 and r[1][0] != r[1][1] and 'TngKey' in sk(r):
                            differs = True
            if same:
                rep.ok('E7b.K3-key-tables', inst, '(k, k)')
            elif differs:
                rep.violation('E7b.K3-key-tables', inst, 'the key table of an on-axis crossing no longer maps each key to itself', where=b.where())
            else:
                rep.indet('E7b.K3: key table of %s outside the recognised fragment' % nm)
    # K4
    b = facts.bodies.get(B + 'connect')
    if b is None:
        rep.indet('E7b: connect not found')
    else:
        rep.saw(b)
        good = False
        for k, cb in facts.bodies.items():
            if k.startswith(b.defp + '::{closure'):
                for q in SymEx(cb).run():
                    r = q.ret
                    if q.end == 'return' and r is not None and r[0] == 'tuple' and len(r[1]) == 2:
                        a, c_ = sk(r[1][0]), sk(r[1][1])
                        if a.startswith('add(') and c_.startswith('add(') and re.search(r'arg2\.0\.0\b.*arg2\.1\.0\b', a) and re.search(r'arg2\.0\.1\b.*arg2\.1\.1\b', c_):
                            good = True
        inst = '%s|(k1 + k2) -> (l1 + l2)' % (B + 'connect')
        crossed = False
        for k, cb in facts.bodies.items():
            if k.startswith(b.defp + '::{closure'):
                for q in SymEx(cb).run():
                    r = q.ret
                    if q.end == 'return' and r is not None and r[0] == 'tuple' and len(r[1]) == 2:
                        a, c_ = sk(r[1][0]), sk(r[1][1])
                        if a.startswith('add(') and c_.startswith('add(') and re.search(r'arg2\.[01]\.[01]\b.*arg2\.[01]\.[01]\b', a) and re.search(r'arg2\.[01]\.[01]\b.*arg2\.[01]\.[01]\b', c_) and not good:
                            crossed = True
        if good:
            rep.ok('E7b.K4-connect-keys', inst, 'pairs combined componentwise in the same order')
        elif crossed:
            rep.violation('E7b.K4-connect-keys', inst, 'SymTngBuilder::connect no longer maps k1 + k2 to l1 + l2', where=b.where())
        else:
            rep.indet('E7b.K4: key map of SymTngBuilder::connect outside the recognised fragment')


def check_doubling(facts, rep):
    """K5: build_from_half glues the half tangle T to its mirror image tau(T). Every datum of a transported cycle
    doubles together: key k -> k + k, cobordism c -> c u tau(c), coefficient r -> r * r, and the tau key map sends
    k1 + k2 to k2 + k1. A datum that is not doubled (e.g. the coefficient, harmless over F2 but not over F2[H])
    leaves an inhomogeneous / wrong canonical class."""
    root = B + 'build_from_half'
    if root not in facts.bodies:
        rep.indet('E7b.K5: build_from_half not found')
        return
    # the doubling may be spread over private helpers of the builder: build_from_half, the non-pub functions of the
    # builder it reaches (transitively), and every closure nested in any of them
    cands = [facts.bodies[root]]
    for _ in range(8):
        for cb in list(cands):
            for c in cb.calls():
                t = facts.bodies.get(c.callee or '')
                if t is not None and t not in cands and t.defp.startswith(B) and t.d.get('vis', 'pub') != 'pub' and t.kind != 'Closure':
                    cands.append(t)
            for k2, b2 in facts.bodies.items():
                if k2.startswith(cb.defp + '::{closure') and b2 not in cands:
                    cands.append(b2)
    bodies = {b.defp: b for b in cands if b.defp != root}
    if not bodies:
        rep.indet('E7b.K5: build_from_half has neither closures nor helpers')
        return
    key_doubled = coef_squared = cob_doubled = swap = False
    bad = []
    for k, b in bodies.items():
        rep.saw(b)
        for p in SymEx(b, max_paths=5000, inline=False).run():
            r = p.ret
            if p.end != 'return' or r is None or r[0] != 'tuple' or len(r[1]) != 2:
                continue
            a, c = r[1]
            sa, sc = sk(a), sk(c)
            calls = [e.name.split('::')[-1] for e in p.calls()]
            if re.match(r'add\((arg\d), \1\)$', sa):
                key_doubled = True
            elif re.match(r'arg\d$', sa) and 'into_map' in calls:
                bad.append('the key of a transported cycle is kept (%s) while its cobordisms are doubled' % sa)
            if 'connect' in calls and 'convert_edges' in calls:
                cob_doubled = True
                if re.match(r'mul\(&?(arg\d), &?\1\)$', sc):
                    coef_squared = True
                elif re.match(r'&?\*?arg\d$', sc):
                    bad.append('the cobordism of a transported cycle is glued to its mirror image but its coefficient is kept (%s) instead of squared' % sc)
            m1 = re.match(r'add\((arg\d)\.([01]), \1\.([01])\)$', sa)
            m2 = re.match(r'add\((arg\d)\.([01]), \1\.([01])\)$', sc)
            if m1 and m2 and m1.group(1) == m2.group(1):
                if (m1.group(2), m1.group(3)) == (m2.group(3), m2.group(2)) and m1.group(2) != m1.group(3):
                    swap = True
                else:
                    bad.append('the tau key map sends %s to %s: the halves are not swapped' % (sa, sc))
    inst = 'SymTngBuilder::build_from_half|key, cobordism and coefficient of a cycle double together; tau swaps the halves'
    if bad:
        rep.violation('E7b.K5-doubling', inst, 'build_from_half: %s - key, cobordism, coefficient (r*r) and the tau swap of halves are all needed when the half tangle is glued to its mirror image' % '; '.join(sorted(set(bad))),
                      where=facts.bodies[root].where())
    elif key_doubled and coef_squared and cob_doubled and swap:
        rep.ok('E7b.K5-doubling', inst, 'k -> k + k, c -> c.connect(tau c), r -> r * r, (k1 + k2) -> (k2 + k1)')
    else:
        rep.indet('E7b.K5: build_from_half outside the recognised fragment (key doubled: %s, cobordism: %s, coefficient squared: %s, tau swap: %s)' % (key_doubled, cob_doubled, coef_squared, swap))


def check_half_grouping(facts, rep):
    """K6: the off-axis crossings are grouped into connected pieces by a union over *all* adjacent pairs: the union call
    sits in a two-level loop nest (x over all off-axis crossings, y over all earlier ones) that is left only by exhaustion,
    guarded by the adjacency test alone. Joining each crossing to the *first* adjacent earlier one only leaves pieces
    unmerged, the partition depends on the listing order, and a "half" may contain a crossing together with its mirror image."""
    import cfgutil
    b = facts.bodies.get(B + 'off_axis_crossings')
    if b is None:
        rep.indet('E7b.K6: off_axis_crossings not found')
        return
    rep.saw(b)
    # the grouping may live in a private helper of the builder: follow non-pub callees of the same impl (depth <= 2)
    cands = [b]
    for _ in range(2):
        for cb in list(cands):
            for c in cb.calls():
                t = facts.bodies.get(c.callee or '')
                if t is not None and t not in cands and t.defp.startswith(B) and t.d.get('vis', 'pub') != 'pub' and t.kind != 'Closure':
                    cands.append(t)
    with_union = [cb for cb in cands if any((c.callee or c.generic or '').split('::')[-1] == 'union' for c in cb.calls())]
    inst = 'SymTngBuilder::off_axis_crossings|union over all adjacent pairs (x, earlier y)'
    if len(with_union) != 1:
        rep.indet('E7b.K6: %d functions under off_axis_crossings call union' % len(with_union))
        return
    b = with_union[0]
    rep.saw(b)
    unions = [c for c in b.calls() if (c.callee or c.generic or '').split('::')[-1] == 'union']
    if len(unions) != 1:
        rep.indet('E7b.K6: %d union calls in %s' % (len(unions), b.defp.split('::')[-1]))
        return
    ub = unions[0].bb
    dom = b.dominators()
    loops = [l for l in cfgutil.for_loops(b) if l[1] in dom.get(ub, ()) and ub in cfgutil.reach_without(b, l[2], {l[1]})]
    probs = []
    if len(loops) < 2:
        probs.append('the union is inside %d loop(s) instead of the nest over all pairs: each crossing is joined to at most one earlier crossing' % len(loops))
    for (I, N, some, none) in loops:
        if cfgutil.early_exits(b, N, some):
            probs.append('a loop around the union can be left before its range is exhausted')
    # guard: the union is reached from the inner loop head only through the adjacency test
    calls_between = set()
    if loops:
        inner = max(loops, key=lambda l: len(dom[l[1]]))
        region = cfgutil.reach_without(b, inner[2], {inner[1], ub})
        for c in b.calls():
            if c.bb in region and ub in cfgutil.reach_without(b, c.bb, {inner[1]}):
                calls_between.add((c.callee or c.generic or '').split('::')[-1])
    if probs:
        rep.violation('E7b.K6-all-pairs-union', inst, 'SymTngBuilder::off_axis_crossings: ' + '; '.join(probs) +
                      ' - connected pieces stay unmerged, the chosen half depends on the listing order and can contain a crossing and its mirror image', where=b.where())
    else:
        rep.ok('E7b.K6-all-pairs-union', inst, 'two nested exhaustive loops; calls before the union: %s' % sorted(calls_between))


def check_cone(facts, rep):
    """K7: KhIComplex::from_kh_complex is the mapping cone of 1 + tau: in degree i the generators are B(x), x in C_i, and
    Q(x), x in C_{i-1}; the range is extended by one at the top; d(B x) = B(dx) + Q(x) + Q(tau x) and d(Q x) = Q(dx);
    each canonical cycle z contributes B z and Q z."""
    root = 'yui_kh::khi::complex::KhIComplex::<R>::from_kh_complex'
    b = facts.bodies.get(root)
    if b is None:
        rep.indet('E7b.K7: from_kh_complex not found')
        return
    rep.saw(b)

    def sk2(t):
        return re.sub(r'\^_ref__', '^', re.sub(r'#(?:i\d+:)?\d+\.\d+', '', show(t, -1000))).replace('&', '').replace('*', '')

    def wrap_of(clo, owner):
        """closure term -> 'B' / 'Q' when it is |x| KhIGen::B(*x) / Q(*x)"""
        clo = strip(clo)
        if clo[0] != 'closure':
            return None
        cb = facts.bodies.get(clo[1])
        if cb is None:
            return None
        rr = {sk2(p.ret) for p in SymEx(cb).run() if p.end == 'return'}
        if rr == {'KhIGen::B{0: arg2}'}:
            return 'B'
        if rr == {'KhIGen::Q{0: arg2}'}:
            return 'Q'
        return None
    top = [p.ret for p in SymEx(b, havoc_loops=True).run() if p.end == 'return']
    probs = []
    d_clo = gen_clo = None
    if len(top) == 1:
        s = sk2(top[0])
        # h_range read through start() / end() or through into_inner(); + 1 as the trait call or the checked primitive
        s = re.sub(r'into_inner\((h_range\(arg1\))\)\.0', r'start(\1)', s)
        s = re.sub(r'into_inner\((h_range\(arg1\))\)\.1', r'end(\1)', s)
        s = re.sub(r'AddWithOverflow\(([^()]*(?:\([^()]*(?:\([^()]*\))?[^()]*\))?[^()]*), (\d+)\)\.0', r'add(\1, \2)', s)
        s = re.sub(r'SubWithOverflow\(([^()]*(?:\([^()]*(?:\([^()]*\))?[^()]*\))?[^()]*), (\d+)\)\.0', r'sub(\1, \2)', s)
        m = re.search(r'generate\(new\(((?:start|end|add|sub)\(.*?\)), ((?:start|end|add|sub)\(.*?\))\), closure<', s)
        if 'generate(new(start(h_range(arg1)), add(end(h_range(arg1)), 1)),' in s:
            pass
        elif m and re.match(r'^(start|end|add|sub|h_range|arg1|\d+|[(), ])*$', m.group(1) + m.group(2)):
            probs.append('the homological range is %s ..= %s, expected h_range.start ..= h_range.end + 1' % (m.group(1), m.group(2)))
        else:
            rep.indet('E7b.K7: the homological range of from_kh_complex is outside the recognised fragment: %s' % s[:160])
            return
    else:
        rep.indet('E7b.K7: from_kh_complex has %d return shapes' % len(top))
        return
    for k, cb in facts.bodies.items():
        if not k.startswith(root + '::{closure') or k.count('{closure') != 1:
            continue
        for p in SymEx(cb).run():
            if p.end != 'return':
                continue
            r = strip(p.ret)
            if r[0] == 'call' and r[1].split('::')[-1] == 'from_raw_gens':
                gen_clo = (cb, r)
            if any(sk2(e.term) == 'discr(arg3)' for e in p.branches()):
                d_clo = cb
    if gen_clo is None or d_clo is None:
        rep.indet('E7b.K7: generator / differential closures of from_kh_complex not found')
        return
    # generators
    r = gen_clo[1]
    ch = strip(r[2][0])
    ok_g = False
    if ch[0] == 'call' and ch[1].split('::')[-1] == 'chain' and len(ch[2]) == 2:
        parts = []
        for a in ch[2]:
            a = strip(a)
            if a[0] == 'call' and a[1].split('::')[-1] == 'map' and len(a[2]) == 2:
                parts.append((sk2(a[2][0]), wrap_of(a[2][1], gen_clo[0])))
        ok_g = parts == [('iter(raw_gens(index(arg1.^c, arg2)))', 'B'), ('iter(raw_gens(index(arg1.^c, SubWithOverflow(arg2, 1).0)))', 'Q')]
        if not ok_g:
            probs.append('degree i is generated by %s, expected B(C_i) then Q(C_{i-1})' % parts)
    else:
        probs.append('generators are not chain(B gens, Q gens)')
    # differential
    arms = {}
    for p in SymEx(d_clo).run():
        if p.end != 'return':
            continue
        v = next((e.value for e in p.branches() if sk2(e.term) == 'discr(arg3)'), None)
        arms[v] = p.ret

    def summands(t):
        t = strip(t)
        if t[0] == 'call' and t[1].split('::')[-1] == 'add' and len(t[2]) == 2:
            return summands(t[2][0]) + summands(t[2][1])
        return [t]

    def classify(t, var):
        s = sk2(t)
        if t[0] == 'call' and t[1].split('::')[-1] == 'map_gens' and len(t[2]) == 2:
            w = wrap_of(t[2][1], d_clo)
            if sk2(t[2][0]) == 'd(arg1.^c, arg2, from(arg3.%s.0))' % var:
                return '%s(dx)' % w
        if s == 'from(KhIGen::Q{0: arg3.%s.0})' % var:
            return 'Q(x)'
        if s == 'from(KhIGen::Q{0: call(arg1.^map, (arg3.%s.0))})' % var:
            return 'Q(tau x)'
        if s == 'from(KhIGen::B{0: arg3.%s.0})' % var:
            return 'B(x)'
        return '?' + s[:60]
    if set(arms) != {0, 1}:
        rep.indet('E7b.K7: differential closure has arms %s' % sorted(arms, key=str))
        return
    got_b = sorted(classify(x, 'B') for x in summands(arms[0]))
    got_q = sorted(classify(x, 'Q') for x in summands(arms[1]))
    if got_b != ['B(dx)', 'Q(tau x)', 'Q(x)']:
        probs.append('d(B x) = %s, expected B(dx) + Q(x) + Q(tau x)' % ' + '.join(got_b))
    if got_q != ['Q(dx)']:
        probs.append('d(Q x) = %s, expected Q(dx)' % ' + '.join(got_q))
    inst = 'KhIComplex::from_kh_complex|mapping cone of 1 + tau'
    if probs:
        rep.violation('E7b.K7-cone', inst, 'KhIComplex::from_kh_complex: ' + '; '.join(probs), where=b.where())
    else:
        rep.ok('E7b.K7-cone', inst, 'B(C_i) + Q(C_{i-1}); d(Bx) = B dx + Qx + Q tau x; d(Qx) = Q dx')


def check_inv_link(facts, rep):
    """K8: the involution data of an InvLink. (a) InvLink::new records x -> y and, when x != y, y -> x (the crossing map is
    closed under tau); (b) the strongly-invertible-knot edge map e -> (n + 1 - e) % n + 1 is an involution of 1..n fixing the
    base point 1 (folded for even n up to 24); (c) mirror() mirrors both sides of every crossing pair and keeps e_map / base_pt."""
    from dtree import DTree, Stuck
    K = 'yui_link::inv_link::InvLink::'
    nb = facts.bodies.get(K + 'new')
    mb = facts.bodies.get(K + 'mirror')
    # the edge involution: whichever closure sinv_knot_from_code hands to InvLink::new
    cb = None
    sb_ = facts.bodies.get(K + 'sinv_knot_from_code')
    if sb_ is not None:
        try:
            for p in SymEx(sb_, havoc_loops=True, max_paths=5000).run():
                for e in p.calls():
                    if e.name == K + 'new' and len(e.args) >= 2 and strip(e.args[1])[0] == 'closure':
                        cb = facts.bodies.get(strip(e.args[1])[1]) or cb
        except Exception:
            cb = None
    if not (nb and mb and cb):
        rep.indet('E7b.K8: InvLink::{new, mirror, sinv_knot_from_code closure} not found')
        return
    for b in (nb, mb, cb):
        rep.saw(b)
    # (a)
    shapes = set()
    for p in SymEx(nb, havoc_loops=True, max_paths=20000).run():
        ins = [tuple(re.sub(r'&mut _\d+', 'IT', sk(a)) for a in e.args[1:]) for e in p.calls() if e.name.split('::')[-1] == 'insert' and len(e.args) == 3]
        ne = [(re.sub(r'&mut _\d+', 'IT', sk(e.term)), e.value != 0) for e in p.branches() if sk(e.term).startswith('ne(')]
        if ins:
            shapes.add((tuple(ins), tuple(ne)))
    X = 'clone(next(IT).Some.0)'
    ok_a = len(shapes) == 2
    for ins, ne in shapes:
        if len(ne) != 1 or not ins or ins[0][0] != X:
            ok_a = False
            continue
        y = ins[0][1]
        if ne[0][1]:
            ok_a = ok_a and list(ins) == [(X, y), (y, X)]
        else:
            ok_a = ok_a and list(ins) == [(X, y)]
    inst = 'InvLink::new|x -> y and, unless x = y, y -> x'
    rec_a = bool(shapes) and all(ins and all(len(pr) == 2 for pr in ins) and all(re.match(r'^(clone\()?(next\(IT\)\.Some\.0|call\(.*\)|index\(.*\)|get\(.*\)|unwrap\(.*\))\)?$', x) or 'next(IT)' in x for pr in ins for x in pr) for ins, ne in shapes)
    if ok_a:
        rep.ok('E7b.K8-inv-link', inst, 'both directions recorded')
    elif not shapes:
        rep.indet('E7b.K8: no x_map insertion found in InvLink::new')
    elif not any(len(ins) == 1 and ins[0][0] == X and (not ne or ne[0][1]) for ins, ne in shapes):
        rep.indet('E7b.K8: x_map insertions of InvLink::new outside the recognised fragment: %s' % sorted(shapes, key=str)[:2])
    else:
        rep.violation('E7b.K8-inv-link', inst, 'InvLink::new records %s: the crossing involution must contain y -> x whenever it contains x -> y' % sorted(shapes, key=str)[:2], where=nb.where())
    # (b)
    dt = DTree(facts)
    bad = None
    try:
        for n in range(2, 26, 2):
            def atom(t, ev, n=n):
                s = sk(t).replace('*', '').replace('&', '')
                if re.match(r'arg1\.\^(_ref__)?n$', s):
                    return (n,)
                return None
            f = {}
            for e in range(1, n + 1):
                v, _ = dt.decide(cb.defp, {2: e}, atom)
                f[e] = v
            if f[1] != 1 and bad is None:
                bad = 'n = %d: the base point 1 is mapped to %d' % (n, f[1])
            for e in range(1, n + 1):
                if not (1 <= f[e] <= n) or f.get(f[e]) != e:
                    bad = bad or 'n = %d: tau(%d) = %d but tau(%s) = %s' % (n, e, f[e], f[e], f.get(f[e]))
    except Stuck as e:
        rep.indet('E7b.K8: edge involution formula outside the recognised fragment: %s' % e)
        return
    inst = 'InvLink::sinv_knot_from_code|e -> (n + 1 - e) % n + 1 is an involution fixing 1'
    if bad:
        rep.violation('E7b.K8-inv-link', inst, 'the edge map of a strongly invertible knot is not an involution fixing the base point: ' + bad, where=cb.where())
    else:
        rep.ok('E7b.K8-inv-link', inst, 'checked for even n <= 24')
    # (c)
    def dk(t):
        return re.sub(r'#(?:i\d+:)?\d+\.\d+', '', show(t, -1000))
    rr = [dk(p.ret) for p in SymEx(mb).run() if p.end == 'return']
    pair = None
    for k, b2 in facts.bodies.items():
        if k == K + 'mirror::{closure#0}':
            pair = [dk(p.ret) for p in SymEx(b2).run() if p.end == 'return']
    inst = 'InvLink::mirror|mirrors both sides of every crossing pair'
    if pair is None:
        # the same map filled by a loop: for (x, y) in self.x_map.iter() { m.insert(x.mirror(), y.mirror()) }
        hp = SymEx(mb, havoc_loops=True, max_paths=5000).run()
        rets = [p for p in hp if p.end == 'return']
        ins = set()
        srcs = set()
        for p in hp:
            for (fid, bb_, l), v in p.state.loop_entry.items():
                if fid == 0 and strip(v)[0] == 'call' and strip(v)[1].endswith('into_iter'):
                    srcs.add(dk(v).replace('&', '').replace('*', ''))
            for e in p.calls():
                if e.name.split('::')[-1] == 'insert' and len(e.args) == 3:
                    ins.add(tuple(re.sub(r'&mut _\d+', 'IT', dk(a)).replace('&', '').replace('*', '') for a in e.args[1:]))
        if len(rets) == 1 and strip(rets[0].ret)[0] == 'adt':
            d_ = dict(zip(strip(rets[0].ret)[3], strip(rets[0].ret)[4]))
            rest_ok = dk(d_.get('link', ())) == 'mirror(&*arg1.link)' and dk(d_.get('base_pt', ())) == '*arg1.base_pt' and dk(d_.get('e_map', ())) == 'clone(&*arg1.e_map)' and strip(d_.get('x_map', ('?',)))[0] == 'loopvar'
            if rest_ok and srcs == {'into_iter(iter(arg1.x_map))'} and ins == {('mirror(next(IT).Some.0.0)', 'mirror(next(IT).Some.0.1)')}:
                rep.ok('E7b.K8-inv-link', inst, 'for (x, y) in x_map { insert(x.mirror(), y.mirror()) }')
                return
            if rest_ok and srcs == {'into_iter(iter(arg1.x_map))'} and len(ins) == 1 and all(re.match(r'((mirror|clone)\()?next\(IT\)\.Some\.0\.[01]\)?$', x) for x in next(iter(ins))):
                rep.violation('E7b.K8-inv-link', inst, 'InvLink::mirror maps a crossing pair to %s: both sides must be mirrored, otherwise inv_x of a mirrored crossing is not a crossing of the mirrored link' % (next(iter(ins)),), where=mb.where())
                return
    if rr == ['InvLink::InvLink{link: mirror(&*arg1.link), base_pt: *arg1.base_pt, e_map: clone(&*arg1.e_map), x_map: collect(map(iter(&*arg1.x_map), closure<{closure#0}>))}'] and pair == ['(mirror(arg2.0), mirror(arg2.1))']:
        rep.ok('E7b.K8-inv-link', inst, '(x.mirror(), y.mirror())')
    elif pair and len(pair) == 1 and re.match(r'\(((mirror|clone)\()?&?\*?arg2\.0\)?, ((mirror|clone)\()?&?\*?arg2\.1\)?\)$', pair[0]):
        rep.violation('E7b.K8-inv-link', inst, 'InvLink::mirror maps a crossing pair to %s: both sides must be mirrored, otherwise inv_x of a mirrored crossing is not a crossing of the mirrored link' % pair[0], where=mb.where())
    else:
        rep.indet('E7b.K8: InvLink::mirror outside the recognised fragment: %s / %s' % (rr, pair))


def check_sym_base_point(facts, rep):
    """K9: the reduced involutive complex is based at the *axis* point of the InvLink (a tau-fixed edge, asserted on-axis by
    InvLink::new): SymTngBuilder::new hands `l.base_pt()` to the inner builder when reduced and None otherwise. Any other
    edge (e.g. the first edge of the first crossing, as the ordinary builder does) gives a base point that tau moves, and
    the reduced build fails or depends on the listing order of the crossings."""
    b = facts.bodies.get(B + 'new')
    if b is None:
        rep.indet('E7b.K9: SymTngBuilder::new not found')
        return
    rep.saw(b)

    def dk(t):
        return re.sub(r'#(?:i\d+:)?\d+\.\d+', '', show(t, -1000)).replace('&', '').replace('*', '')
    got = {}
    for p in SymEx(b, havoc_loops=True, max_paths=5000).run():
        if p.end != 'return':
            continue
        red = next((e.value != 0 for e in p.branches() if dk(e.term) == 'arg4'), None)
        for e in p.calls():
            if e.name.endswith('TngComplexBuilder::<R>::new') and len(e.args) == 4:
                got.setdefault(red, set()).add(dk(e.args[3]))
    inst = 'SymTngBuilder::new|reduced => based at the axis point of the involutive link'
    if got == {True: {'base_pt(arg1)'}, False: {'Option::None{}'}}:
        rep.ok('E7b.K9-axis-base-point', inst, 'if reduced { l.base_pt() } else { None }')
    elif set(got) == {True, False} and got[False] == {'Option::None{}'} and all(re.match(r'[a-z_]+\((link\()?arg1\)?\)$', x) for x in got[True]):
        rep.violation('E7b.K9-axis-base-point', inst, 'the reduced symmetric builder is based at %s instead of the axis point l.base_pt(): tau does not fix that edge in general' % sorted(got[True]), where=b.where())
    else:
        rep.indet('E7b.K9: SymTngBuilder::new passes %s' % got)


def check_half_selection(facts, rep):
    """K10: from the clusters of off-axis crossings one of every mirror pair {G, tau G} is kept - decided by tau itself:
    a cluster is added to the half iff the mirror image (inv_x) of one of its crossings is not in the half yet. A positional
    choice ("the first half of the list of clusters") is right only when the clusters happen to be listed G1, G2, .., tau G1,
    tau G2, ..; listed G1, tau G1, G2, tau G2 the half contains a cluster together with its mirror image and the glued
    complex is not the diagram's (the build then dies in finalize, or depends on the listing order)."""
    from symex import apply_closure
    b0 = facts.bodies.get(B + 'off_axis_crossings')
    if b0 is None:
        rep.indet('E7b.K10: off_axis_crossings not found')
        return
    cands = [b0]
    for _ in range(2):
        for cb in list(cands):
            for c in cb.calls():
                t = facts.bodies.get(c.callee or '')
                if t is not None and t not in cands and t.defp.startswith(B) and t.d.get('vis', 'pub') != 'pub' and t.kind != 'Closure':
                    cands.append(t)

    def dk(t):
        return re.sub(r'&mut _\d+', 'IT', re.sub(r'\^_ref__', '^', re.sub(r'#(?:i\d+:)?\d+\.\d+', '', show(t, -1000)))).replace('&', '').replace('*', '')
    inst = 'SymTngBuilder::off_axis_crossings|a cluster enters the half iff the mirror of one of its crossings is not there yet'
    verdicts = []
    for b in cands:
        if not any((c.callee or c.generic or '').split('::')[-1] == 'group' for c in b.calls()):
            continue
        rep.saw(b)
        try:
            paths = SymEx(b, havoc_loops=True, max_paths=5000, inline=False).run()
        except Exception as e:
            rep.indet('E7b.K10: %s: %s' % (b.defp, e))
            return
        for p in paths:
            # positional selection over the list of clusters
            if p.end == 'return' and p.ret is not None:
                s = dk(p.ret)
                m = re.search(r'(take|skip|step_by|chunks|take_while|skip_while)\((into_iter\()?group\(', s)
                if m:
                    verdicts.append(('bad', 'the clusters are chosen by position (%s over the list of clusters: %s)' % (m.group(1), s[:120])))
            for e in p.calls():
                if e.name.split('::')[-1] == 'fold' and len(e.args) == 3 and 'group(' in dk(e.args[0]):
                    ok = guarded = False
                    for q in apply_closure(e.args[2], [('acc',), ('grp',)], havoc_loops=True) or []:
                        ext = [c for c in q.calls() if c.name.split('::')[-1] in ('extend', 'append', 'push')]
                        tests = [(dk(c.term), c.value) for c in q.branches() if dk(c.term).startswith("contains(deref(('acc',)), inv_x(arg1, ") or dk(c.term).startswith("contains(('acc',), inv_x(arg1, ")]
                        if ext:
                            if tests and tests[-1][1] == 0:
                                ok = True
                            else:
                                guarded = True
                    verdicts.append(('ok', 'fold over the clusters, extended under !res.contains(inv_x(x))') if ok and not guarded else ('unknown', 'fold step without the mirror test'))
        # loop form: for group in u.group() { .. if !res.contains(&tx) { res.extend(group) } }
        back = [p for p in paths if p.end == 'backedge']
        for p in back:
            ext = [c for c in p.calls() if c.name.split('::')[-1] in ('extend', 'append') and c.args and c.args[0][0] == 'mref']
            if ext and any('group(' in dk(v) for v in p.state.loop_entry.values()):
                tests = [(dk(c.term), c.value) for c in p.branches() if re.match(r'contains\((deref\()?loop\w+\)?, inv_x\(arg1, ', dk(c.term))]
                verdicts.append(('ok', 'loop over the clusters, extended under !res.contains(inv_x(x))') if tests and tests[-1][1] == 0 else ('unknown', 'loop extends the half without the mirror test'))
    bad = [v for k, v in verdicts if k == 'bad']
    if bad:
        rep.violation('E7b.K10-half-by-mirror-test', inst, 'off_axis_crossings: %s - for a diagram listed G, tau G, K, tau K the half contains G together with its mirror image' % bad[0], where=b0.where())
    elif any(k == 'ok' for k, _ in verdicts) and not any(k == 'unknown' for k, _ in verdicts):
        rep.ok('E7b.K10-half-by-mirror-test', inst, sorted({v for k, v in verdicts if k == 'ok'})[0])
    else:
        rep.indet('E7b.K10: selection of the half outside the recognised fragment: %s' % sorted({v for _, v in verdicts})[:2])


def check_ssi_selection(facts, rep):
    """K11 (C19, "the pair of involutive s-invariants"): khi::ssi::div returns (d0, d1) = the divisibilities of a
    canonical cycle of homological degree 0 and of one of degree 1. The 2r cycles (r = 1 reduced, 2 unreduced) are listed
    degree 0 first (asserted in the function), so on every returning path d0 = ds[i] with i < r and d1 = ds[j] with
    r <= j < 2r; the indices are evaluated per path (r from the branch on `reduced`, len(ds) = 2r). An index that is
    right for r = 2 only (e.g. len - 2) silently returns (d0, d0) for the reduced theory."""
    from symex import SymEx, show, strip
    b = facts.bodies.get('yui_kh::khi::ssi::div')
    if b is None:
        rep.indet('E7b.K11: khi::ssi::div not found')
        return
    rep.saw(b)
    inst = 'khi::ssi::div|d0 from a degree-0 cycle, d1 from a degree-1 cycle, reduced and unreduced'
    seen = {}
    bad = []
    try:
        paths = SymEx(b, max_paths=20000).run()
    except Exception as ex:
        rep.indet('E7b.K11: %s' % str(ex)[:80])
        return
    for p in paths:
        if p.end != 'return' or p.ret is None:
            continue
        red = None
        for e in p.branches():
            if e.term == ('arg', 3):
                red = (e.value != 0)
        comps = p.ret[1] if (p.ret[0] == 'tuple') else (p.ret[4] if (p.ret[0] == 'adt' and len(p.ret) == 5) else ())
        if red is None or len(comps) != 2:
            rep.indet('E7b.K11: a returning path of khi::ssi::div does not branch on `reduced` or does not return a pair: %s' % show(p.ret, -1000)[:80])
            return
        r = 1 if red else 2

        def ival(t, base):
            t = strip(t)
            if t[0] == 'const' and isinstance(t[1], int) and not isinstance(t[1], bool):
                return t[1]
            if t[0] == 'field' and t[2] == '0' and t[1][0] == 'bin' and t[1][1] in ('SubWithOverflow', 'AddWithOverflow', 'MulWithOverflow'):
                x, y = ival(t[1][2], base), ival(t[1][3], base)
                return x - y if t[1][1][0] == 'S' else (x + y if t[1][1][0] == 'A' else x * y)
            if t[0] == 'bin' and t[1] in ('Sub', 'Add', 'Mul', 'Div'):
                x, y = ival(t[2], base), ival(t[3], base)
                return {'Sub': x - y, 'Add': x + y, 'Mul': x * y}.get(t[1]) if t[1] != 'Div' else x // y
            if t[0] == 'call' and t[1].split('::')[-1] == 'len' and len(t[2]) == 1 and strip(t[2][0]) == base:
                return 2 * r
            raise ValueError(show(t, -1000)[:60])
        idx = []
        try:
            for comp in comps:
                c = strip(comp)
                if not (c[0] == 'call' and c[1].split('::')[-1] == 'index' and len(c[2]) == 2):
                    raise ValueError('component ' + show(c, -1000)[:60])
                base = strip(c[2][0])
                if 'canon_cycles' not in show(base, -1000):
                    raise ValueError('indexed value ' + show(base, -1000)[:60])
                idx.append(ival(c[2][1], base))
        except (ValueError, TypeError) as ex:
            rep.indet('E7b.K11: khi::ssi::div picks its pair outside the recognised fragment: %s' % ex)
            return
        seen[red] = tuple(idx)
        if not (0 <= idx[0] < r <= idx[1] < 2 * r):
            bad.append('%s: (d0, d1) = (ds[%d], ds[%d]) of %d cycles' % ('reduced' if red else 'unreduced', idx[0], idx[1], 2 * r))
    if set(seen) != {True, False}:
        rep.indet('E7b.K11: khi::ssi::div returns on %s only' % sorted(seen))
        return
    if bad:
        rep.violation('E7b.K11-ssi-degrees', inst, 'khi::ssi::div: %s - the cycles are listed degree 0 first (r of them), so both divisibilities are read from the same homological degree and the second invariant is lost' % '; '.join(sorted(set(bad))), where=b.where())
    else:
        rep.ok('E7b.K11-ssi-degrees', inst, 'reduced %s, unreduced %s' % (seen[True], seen[False]))
