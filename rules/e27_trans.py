"""E27 - Trans composes its factors in one order everywhere, before and after collapsing (C13).

A Trans keeps forward factors f_0 .. f_n and backward factors b_0 .. b_n. "The composed transform applies the same
linear map as the product of its factors, before and after it is collapsed" is, structurally:
  W1  the four folds spell the same words on a symbolic 3-factor list:
        forward(v) = f2 f1 f0 v      forward_mat = f2 f1 f0
        backward(v) = b0 b1 b2 v     backward_mat = b0 b1 b2          (each over its own list, the right direction,
        the accumulator on the right side of the product, identity of the right dimension as start);
  W2  a single-factor shortcut returns element 0 of the same list whose length it tested - the list of that function
      (guard / use agreement: inside reduce() the two lists have different lengths for a moment);
  W3  reduce() replaces f_mats by [forward_mat()] under len(f_mats) > 1 and b_mats by [backward_mat()] under
      len(b_mats) > 1, each list guarded by its own length;
  W4  append / merge extend both lists together, f with f and b with b, in the same order.
NOT decided: the matrix products themselves (C13's other clauses), that b_i inverts f_i on the image.
"""
import re
from symex import SymEx, show, strip

T = 'yui_matrix::sparse::trans::Trans::<R>::'


def sk(t):
    return re.sub(r'#(?:i\d+:)?\d+\.\d+', '', show(t, -1000))


class Bad(Exception):
    pass


def fold_word(facts, owner, ret, n=3):
    """fold(src, init, closure) -> (list field, word) with word a list like ['2', '1', '0', 'init']"""
    r = strip(ret)
    if not (r[0] == 'call' and r[1].split('::')[-1] == 'fold' and len(r[2]) == 3):
        raise Bad('not a fold: ' + sk(r)[:80])
    src, init, clo = r[2]
    s = sk(src).replace('&', '').replace('*', '')
    m = re.match(r'(rev\()?iter\(deref\(arg1\.(\w+)\)\)\)?$', s)
    if not m:
        raise Bad('fold source ' + s[:80])
    rev, field = bool(m.group(1)), m.group(2)
    clo = strip(clo)
    cb = facts.bodies.get(clo[1]) if clo[0] == 'closure' else None
    if cb is None:
        raise Bad('fold step is not a local closure')
    rets = [p.ret for p in SymEx(cb).run() if p.end == 'return']
    if len(rets) != 1:
        raise Bad('fold step has %d shapes' % len(rets))
    st = strip(rets[0])
    if not (st[0] == 'call' and st[1].split('::')[-1] == 'mul' and len(st[2]) == 2):
        raise Bad('fold step is ' + sk(st)[:60])
    a = [strip(x) for x in st[2]]
    if a == [('arg', 2), ('arg', 3)]:
        side = 'acc*x'
    elif a == [('arg', 3), ('arg', 2)]:
        side = 'x*acc'
    else:
        raise Bad('fold step multiplies ' + sk(st)[:60])
    word = ['init']
    order = list(range(n))
    if rev:
        order.reverse()
    for i in order:
        word = word + [str(i)] if side == 'acc*x' else [str(i)] + word
    return field, word, sk(init)


def loop_word(facts, b, n=3):
    """the same composition written as `let mut acc = init; for x in src { acc = acc * x }` -> (field, word, init) or None"""
    src = None
    step = None
    init = None
    acc_local = None
    idx_field = []
    for p in SymEx(b, havoc_loops=True, max_paths=5000).run():
        for e in p.calls():
            nm = e.name.split('::')[-1]
            if nm == 'into_iter' and e.args:
                src = re.sub(r'#(?:i\d+:)?\d+\.\d+', '', show(e.args[0], -1000)).replace('&', '').replace('*', '')
            if nm == 'mul' and len(e.args) == 2 and p.end == 'backedge':
                a = [strip(x) for x in e.args]
                def kind_of(x):
                    if x[0] == 'loopvar':
                        return 'acc'
                    tx = re.sub(r'&mut _\d+', 'IT', re.sub(r'#(?:i\d+:)?\d+\.\d+', '', show(x, -1000))).replace('&', '').replace('*', '')
                    if tx.startswith('next('):
                        return 'x'
                    mi = re.match(r'index\((?:deref\(|as_slice\()?arg1\.(\w+)\)?, next\(IT\)\.Some\.0\)$', tx)
                    if mi:
                        idx_field.append(mi.group(1))
                        return 'x'
                    return '?'
                kinds = [kind_of(x) for x in a]
                if sorted(kinds) == ['acc', 'x']:
                    step = 'acc*x' if kinds[0] == 'acc' else 'x*acc'
                    acc_local = a[kinds.index('acc')][2]
            if nm in ('id', 'clone') and e.args is not None and p.end in ('return', 'backedge') and init is None and nm == 'id':
                init = re.sub(r'#(?:i\d+:)?\d+\.\d+', '', show(('call', e.name, e.args, e.site), -1000))
        if p.end == 'return' and p.ret and p.ret[0] == 'loopvar' and acc_local is None:
            acc_local = p.ret[2]
    if src is None or step is None:
        return None
    m = re.match(r'(rev\()?(?:iter\()?(?:deref\(|as_slice\()?arg1\.(\w+)\)*$', src)
    mr = re.match(r'(rev\()?Range::Range\{start: 0, end: len\((?:deref\(|as_slice\()?arg1\.(\w+)\)?\)\}\)?$', src)
    if m and not idx_field:
        rev, field = bool(m.group(1)), m.group(2)
    elif mr and idx_field and set(idx_field) == {mr.group(2)}:
        rev, field = bool(mr.group(1)), mr.group(2)      # for k in 0..list.len() { .. list[k] .. }
    else:
        return None
    word = ['init']
    order = list(range(n))
    if rev:
        order.reverse()
    for i in order:
        word = word + [str(i)] if step == 'acc*x' else [str(i)] + word
    return field, word, (init or '?').replace('&', '')


def run(facts, rep):
    need = ['forward', 'backward', 'forward_mat', 'backward_mat', 'reduce', 'append', 'merge']
    b = {n: facts.bodies.get(T + n) for n in need}
    if any(v is None for v in b.values()):
        rep.indet('E27: Trans methods not found: %s' % [n for n, v in b.items() if v is None])
        return
    for v in b.values():
        rep.saw(v)
    want = {'forward': ('f_mats', ['2', '1', '0', 'init'], 'clone(arg2)'), 'backward': ('b_mats', ['0', '1', '2', 'init'], 'clone(arg2)'),
            'forward_mat': ('f_mats', ['init', '2', '1', '0'], 'id(*arg1.tgt_dim)'), 'backward_mat': ('b_mats', ['0', '1', '2', 'init'], 'id(*arg1.tgt_dim)')}
    lw_cache = {}
    try:
        for fn, (wf, ww, wi) in want.items():
            folds = 0
            for p in SymEx(b[fn]).run():
                if p.end != 'return':
                    continue
                conds = [(sk(e.term).replace('&', '').replace('*', ''), e.value) for e in p.branches()]
                lens = [(re.match(r'(Eq|Gt|Ge|Lt|Le|Ne)\((?:len|PtrMetadata)\((?:as_slice\()?arg1\.(\w+)\)?\), (\d+)\)$', t), v) for t, v in conds]
                lens = [(m.group(1), m.group(2), int(m.group(3)), v) for m, v in lens if m]
                r = strip(p.ret)
                if r[0] == 'call' and r[1].split('::')[-1] == 'fold':
                    folds += 1
                    field, word, init = fold_word(facts, b[fn], p.ret)
                    # id . x = x . id: the position of the identity start does not matter for *_mat
                    norm = lambda w: [x for x in w if x != 'init'] if fn.endswith('_mat') else w
                    inst = 'Trans::%s|%s' % (fn, ' '.join(('%s%s' % (wf[0], x)) if x != 'init' else ('v' if not fn.endswith('_mat') else '1') for x in ww))
                    probs = []
                    if field != wf:
                        probs.append('folds over %s instead of %s' % (field, wf))
                    if norm(word) != norm(ww):
                        probs.append('composes the factors as %s, expected %s' % (' '.join(word), ' '.join(ww)))
                    if init != wi:
                        probs.append('starts from %s, expected %s' % (init, wi))
                    if any(f != wf for _, f, _, _ in lens):
                        probs.append('is guarded by the length of %s' % sorted({f for _, f, _, _ in lens if f != wf}))
                    if probs:
                        rep.violation('E27.W1-factor-order', inst, 'Trans::%s %s' % (fn, '; '.join(probs)), where=b[fn].where())
                    else:
                        rep.ok('E27.W1-factor-order', inst, 'over %s, word %s' % (field, ' '.join(word)))
                    continue
                # shortcut path
                s = sk(r).replace('&', '').replace('*', '')
                if lw_cache.setdefault(fn, loop_word(facts, b[fn])) is not None and re.match(r'(id\(|mul\(|arg2$|clone\(arg2\)$)', s):
                    continue          # results of the accumulation loop after 0 / 1 iterations (read by loop_word)
                m = re.match(r'(?:clone\()?index\(arg1\.(\w+), (\d+)\)\)?$', s) or re.match(r'(?:clone\()?(?:as_slice\()?arg1\.(\w+)\)?\[(\d+)\]\)?$', s)
                inst = 'Trans::%s|single-factor shortcut uses the list it tested' % fn
                if not m:
                    raise Bad('%s returns %s' % (fn, s[:80]))
                used, idx = m.group(1), int(m.group(2))
                guard = [(op, f, c, v) for op, f, c, v in lens if op == 'Eq' and c == 1 and v != 0]
                if used == wf and idx == 0 and [g[1] for g in guard] == [wf] and len(lens) == 1:
                    rep.ok('E27.W2-shortcut-guard', inst, '%s[0] under len(%s) == 1' % (used, wf))
                else:
                    rep.violation('E27.W2-shortcut-guard', inst,
                                  'Trans::%s returns %s[%d] under the test %s: the shortcut must test the length of %s itself (inside reduce() f_mats is already collapsed to one factor while b_mats still has all of them, so the product b0*...*bn is replaced by b0)' %
                                  (fn, used, idx, ['len(%s) %s %d = %s' % (f, op, c, v) for op, f, c, v in lens], wf), where=b[fn].where())
            if folds == 0:
                lw = lw_cache.setdefault(fn, loop_word(facts, b[fn]))
                if lw is None:
                    raise Bad('%s has neither a fold nor a recognisable accumulation loop' % fn)
                field, word, init = lw
                norm = lambda w: [x for x in w if x != 'init'] if fn.endswith('_mat') else w
                inst = 'Trans::%s|%s' % (fn, ' '.join(('%s%s' % (wf[0], x)) if x != 'init' else ('v' if not fn.endswith('_mat') else '1') for x in ww))
                probs = []
                if field != wf:
                    probs.append('accumulates over %s instead of %s' % (field, wf))
                if norm(word) != norm(ww):
                    probs.append('composes the factors as %s, expected %s' % (' '.join(word), ' '.join(ww)))
                if probs:
                    rep.violation('E27.W1-factor-order', inst, 'Trans::%s %s' % (fn, '; '.join(probs)), where=b[fn].where())
                else:
                    rep.ok('E27.W1-factor-order', inst, 'loop over %s, word %s' % (field, ' '.join(word)))
            elif folds != 1:
                raise Bad('%s has %d fold paths' % (fn, folds))
        # W3
        ok3 = True
        seen = set()
        for p in SymEx(b['reduce'], max_paths=20000).run():
            if p.end != 'return':
                continue
            conds = {}
            for e in p.branches():
                m = re.match(r'Gt\((?:len|PtrMetadata)\((?:deref\(|as_slice\()?arg1\.(\w+)\)?\), 1\)$', sk(e.term).replace('&', '').replace('*', ''))
                if m:
                    conds[m.group(1)] = e.value != 0
            vals = {}
            for e in p.events:
                if e.kind == 'write':
                    m = re.match(r'\[(forward_mat|backward_mat)\(arg1\)\]$', sk(e.term).replace('&', '').replace('*', ''))
                    if m:
                        vals.setdefault('pending', []).append(m.group(1))
            wrote = vals.get('pending', [])
            key = (tuple(sorted(conds.items())), tuple(wrote))
            if key in seen:
                continue
            seen.add(key)
            expect = []
            if conds.get('f_mats'):
                expect.append('forward_mat')
            if conds.get('b_mats'):
                expect.append('backward_mat')
            if not conds:
                raise Bad('reduce: no length test was read on a path that stores %s' % wrote)
            if set(conds) != {'f_mats', 'b_mats'} or wrote != expect:
                ok3 = False
                bad3 = 'under %s it stores %s' % (conds, wrote)
        # which list receives which value
        tgt = {}
        for p in SymEx(b['reduce'], max_paths=20000).run():
            last = None
            for e in p.events:
                if e.kind != 'write':
                    continue
                m = re.match(r'\[(forward_mat|backward_mat)\(arg1\)\]$', sk(e.term).replace('&', '').replace('*', ''))
                if m:
                    last = m.group(1)
                lv = sk(('mref', e.lv)).replace('&mut ', '').replace('*', '')
                m2 = re.match(r'arg1\.(f_mats|b_mats)$', lv)
                if m2 and last:
                    tgt.setdefault(m2.group(1), set()).add(last)
                    last = None
        inst = 'Trans::reduce|each list collapsed to its own product under its own length'
        if ok3 and tgt == {'f_mats': {'forward_mat'}, 'b_mats': {'backward_mat'}}:
            rep.ok('E27.W3-reduce', inst, 'f_mats := [forward_mat()], b_mats := [backward_mat()]')
        elif set(tgt) != {'f_mats', 'b_mats'} and ok3:
            raise Bad('reduce stores %s' % tgt)
        else:
            rep.violation('E27.W3-reduce', inst, 'Trans::reduce assigns %s%s' % (tgt, '' if ok3 else '; ' + bad3), where=b['reduce'].where())
        # W4
        for fn, meth, wantc in (('append', 'push', [('arg1.f_mats', 'arg2'), ('arg1.b_mats', 'arg3')]),
                                ('merge', 'append', [('arg1.f_mats', 'arg2.f_mats'), ('arg1.b_mats', 'arg2.b_mats')])):
            got = None
            per_path = []
            for p in SymEx(b[fn]).run():
                if p.end != 'return':
                    continue
                cs = []
                for e in p.calls():
                    if (e.name.split('::')[-1] == meth or (meth == 'append' and e.name.split('::')[-1] == 'extend')) and len(e.args) == 2:
                        a0 = sk(e.args[0]).replace('&mut ', '').replace('*', '')
                        a1 = e.args[1]
                        if a1[0] == 'mref':
                            base, path = a1[1]
                            a1s = ('arg%d' % base[1] if base[0] == 'local' else sk(a1)) + ''.join('.' + str(x) for x in path)
                        else:
                            a1s = sk(a1).replace('&mut ', '').replace('*', '')
                        cs.append((a0, re.sub(r'^_(\d+)', r'arg\1', a1s.replace('&mut ', ''))))
                got = cs
                per_path.append((cs, [sk(e.term)[:50] for e in p.branches() if not (e.name or '').startswith('assert:')]))
            inst = 'Trans::%s|extends f_mats and b_mats together' % fn
            lone = [(c_, g_) for c_, g_ in per_path if len({a_ for a_, _ in c_}) < 2 and all(re.match(r'arg1\.(f_mats|b_mats)$', a_) for a_, _ in c_)]
            if lone and any(len({a_ for a_, _ in c_}) == 2 for c_, _ in per_path):
                rep.violation('E27.W4-paired-growth', inst, 'Trans::%s has a path (under %s) that extends %s: the two factor lists no longer have the same length and order' % (fn, lone[0][1][:2], [a_ for a_, _ in lone[0][0]] or 'neither list'), where=b[fn].where())
                continue
            norm = [(a, re.sub(r'^arg2(\.|$)', r'arg2\1', c)) for a, c in (got or [])]
            if norm == wantc:
                rep.ok('E27.W4-paired-growth', inst, str(norm))
            elif not norm or not all(re.match(r'arg1\.(f_mats|b_mats)$', a_) and re.match(r'arg[23](\.(f_mats|b_mats))?$', c_) for a_, c_ in norm):
                # e.g. extend / a loop of pushes / a helper: not read
                raise Bad('%s grows its lists by %s' % (fn, norm))
            else:
                rep.violation('E27.W4-paired-growth', inst, 'Trans::%s performs %s, expected %s' % (fn, norm, wantc), where=b[fn].where())
    except Bad as e:
        rep.indet('E27: Trans outside the recognised fragment: %s' % e)


def check_sub(facts, rep):
    """W5: Trans::sub(indices) composes the transform with the selector S (p x n, S[i, indices[i]] = 1) on the target side
    and with its transpose on the way back - on *every* path. A path that returns the unmodified transform is right only
    when `indices` is 0..n as a list; a guard that looks at the length alone (`indices.len() == tgt_dim`) also lets
    reordered or repeated index lists through (same dimensions, so nothing panics)."""
    from symex import apply_closure
    b = facts.bodies.get(T + 'sub')
    if b is None:
        rep.indet('E27.W5: Trans::sub not found')
        return
    rep.saw(b)

    def dk(t):
        return sk(t).replace('&mut ', '').replace('&', '').replace('*', '')
    sel = {}
    bare = []
    n = 0
    hp = SymEx(b, havoc_loops=True, max_paths=4000).run()
    entry = {}
    pushes = {}
    for p in hp:
        for (fid, bb_, l), v in p.state.loop_entry.items():
            if strip(v)[0] != 'loopvar':
                entry.setdefault(l if fid == 0 else (fid, l), set()).add(dk(v))
        for e in p.calls():
            if e.name.split('::')[-1] == 'push' and len(e.args) == 2 and e.args[0][0] == 'mref' and e.args[0][1][0][0] in ('local', 'flocal'):
                v = re.sub(r'_(?:f\d+_)?\d+', 'IT', dk(e.args[1])).replace('next(IT).Some.0', 'IT')
                root_ = e.args[0][1][0]
                pushes.setdefault(root_[1] if root_[0] == 'local' else (root_[1], root_[2]), set()).add(v)
    for p in hp:
        if p.end != 'return':
            continue
        n += 1
        aps = [e for e in p.calls() if e.name == T + 'append' and len(e.args) == 3]
        if not aps:
            conds = [(dk(e.term), e.value) for e in p.branches() if not (e.name or '').startswith('assert:')]
            bare.append((dk(p.ret), conds))
            continue
        for e in aps:
            for side, a in (('f', e.args[1]), ('b', e.args[2])):
                t = strip(a)
                if t[0] == 'call' and t[1].split('::')[-1] == 'from_entries' and len(t[2]) == 2:
                    shape = dk(t[2][0]).replace('arg1.tgt_dim', 'tgt_dim(arg1)')       # the getter returns the field
                    src = strip(t[2][1])
                    ent = None
                    if src[0] == 'call' and src[1].split('::')[-1] == 'map' and len(src[2]) == 2:
                        rr = {dk(q.ret).replace("('item',)", 'IT') for q in apply_closure(src[2][1], [('item',)]) or [] if q.end == 'return'}
                        if len(rr) == 1:
                            ent = (dk(src[2][0]), next(iter(rr)))
                    elif src[0] == 'loopvar' and isinstance(src[2], int) and isinstance(src[1], str) and src[1].startswith('f') and len(pushes.get((int(src[1][1:].split(':')[0]), src[2]), ())) == 1:
                        # the same, inside a private helper executed in place
                        src = ('loopvar', src[1], (int(src[1][1:].split(':')[0]), src[2]))
                    if src[0] == 'loopvar' and (isinstance(src[2], int) or isinstance(src[2], tuple)) and len(pushes.get(src[2], ())) == 1 and ent is None:
                        # the entries collected by a loop: for (i, j) in indices.iter().enumerate() { v.push((i, j, 1)) }
                        its = [x for l_, vs in entry.items() for x in vs if x.startswith('into_iter(enumerate(')]
                        rng = [x for l_, vs in entry.items() for x in vs if x == 'into_iter(Range::Range{start: 0, end: len(arg2)})']
                        fresh = entry.get(src[2]) and all(x.startswith(('with_capacity(', 'new()')) for x in entry[src[2]])
                        if len(set(its)) == 1 and not rng and fresh:
                            ent = (its[0][len('into_iter('):-1], next(iter(pushes[src[2]])))
                        elif rng and not its and fresh:
                            # for i in 0..indices.len() { let j = indices[i]; v.push((i, j, 1)) }: the same pairs (i, indices[i])
                            v_ = next(iter(pushes[src[2]])).replace('index(arg2, IT)', 'IT.1').replace('arg2[IT]', 'IT.1')
                            v_ = re.sub(r'\bIT\b(?!\.)', 'IT.0', v_)
                            ent = ('enumerate(iter(arg2))', v_)
                    sel[side] = (shape, ent)
                else:
                    sel[side] = (dk(t)[:80], None)
    inst = 'Trans::sub|appends the selector of `indices` and its transpose on every path'
    P, N = 'len(arg2)', 'tgt_dim(arg1)'
    want = {'f': ('(%s, %s)' % (P, N), ('enumerate(iter(arg2))', '(IT.0, IT.1, one())')), 'b': ('(%s, %s)' % (N, P), ('enumerate(iter(arg2))', '(IT.1, IT.0, one())'))}
    if bare:
        ret, conds = bare[0]
        only_len = conds and all(re.match(r'(Eq|Ne|Le|Ge|Lt|Gt)\((%s|%s), (%s|%s)\)$' % (re.escape(P), re.escape(N), re.escape(P), re.escape(N)), c) for c, _ in conds)
        if only_len and re.match(r'clone\(arg1\)$', ret):
            rep.violation('E27.W5-sub-selector', inst,
                          'Trans::sub returns the transform unchanged under %s: the test looks at the length of `indices` only, so a reordered or repeated full-length index list is treated as "keep everything" and forward / backward are those of the original transform' % [c for c, _ in conds],
                          where=b.where())
        else:
            rep.indet('E27.W5: Trans::sub has a path without append: returns %s under %s' % (ret[:80], [c[:60] for c, _ in conds][:3]))
        return
    if sel == want:
        rep.ok('E27.W5-sub-selector', inst, 'f = S (p x n, (i, indices[i])), b = S^T (n x p, (indices[i], i)); %d path(s)' % n)
    elif set(sel) == {'f', 'b'} and all(v[1] is not None and re.match(r'\(IT\.[01], IT\.[01], one\(\)\)$', v[1][1]) for v in sel.values()):
        rep.violation('E27.W5-sub-selector', inst, 'Trans::sub appends f = %s, b = %s; expected the selector (i, indices[i]) of shape (p, n) and its transpose' % (sel['f'], sel['b']), where=b.where())
    else:
        rep.indet('E27.W5: Trans::sub outside the recognised fragment: %s' % sel)
