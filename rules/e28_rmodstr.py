"""E28 - the printed module string mentions every summand the library computed (C20: table cells).

Every cell of a `ykh` table, and every Display of a homology summand, is make_rmod_str(symbol, rank, tors). The string can
only denote the computed group if, for every (rank, tors):
  S1  rank = 0 and no torsion  -> "0";
  S2  rank = 1 -> the bare symbol is one of the joined summands; rank >= 2 -> symbol with superscript(rank);
      rank = 0 -> no free summand;
  S3  with torsion present, the loop over the accumulated torsion pushes (symbol/t) for every key, with
      superscript(multiplicity) when the multiplicity exceeds 1 - on the paths of *every* rank.
The conditions on `rank` / `tors.is_empty()` of each path summary are folded over rank in {0,1,2,3} x {empty, non-empty};
what is pushed is read from the path. The unit tests never render rank 1 together with torsion.
NOT decided: the separator / parentheses characters, superscript digits, the order of the torsion keys.
"""
import re
from symex import SymEx, show, strip

FN = 'yui_homology::misc::format::make_rmod_str'


def sk(t):
    return re.sub(r'#\d+\.\d+', '', show(t, -1000))


def _holds(term, value, rank, empty):
    """None if the condition does not concern (rank, empty); else whether the path's branch is taken"""
    s = sk(term).replace('&', '').replace('*', '')
    m = re.match(r'(Eq|Ne|Gt|Ge|Lt|Le)\(arg2, (\d+)\)$', s)
    if m:
        c = int(m.group(2))
        truth = {'Eq': rank == c, 'Ne': rank != c, 'Gt': rank > c, 'Ge': rank >= c, 'Lt': rank < c, 'Le': rank <= c}[m.group(1)]
        return truth == (value != 0)
    m = re.match(r'arg2$', s)
    if m and isinstance(value, int):            # match rank { 0 => .., 1 => .. }
        return rank == value
    if s == 'arg2' and value == 'else':
        return None
    if s in ('is_empty(arg3)', 'is_empty(deref(arg3))'):
        return empty == (value != 0)
    if s in ('Eq(PtrMetadata(arg3), 0)', 'Eq(len(arg3), 0)'):
        return empty == (value != 0)
    if 'arg2' in s and 'next(' not in s and 'Overflow' not in s:
        raise ValueError('condition on rank outside the fragment: ' + s[:80])
    return None


def _free_kind(s):
    s = s.replace('&', '')
    if s in ('clone(arg1)', 'arg1'):
        return 'plain'
    if 'new_display(arg1)' in s and 'call(arg4, (arg2))' in s and 'next(' not in s:
        return 'power'
    return None


def run(facts, rep):
    b = facts.bodies.get(FN)
    if b is None:
        rep.indet('E28: %s not found' % FN)
        return
    rep.saw(b)
    try:
        paths = SymEx(b, havoc_loops=True, max_paths=40000).run()
    except Exception as e:
        rep.indet('E28: %s' % e)
        return
    n = 0
    try:
        for rank in (0, 1, 2, 3):
            for empty in (True, False):
                rets, loops = [], []
                for p in paths:
                    ok = True
                    alts_rank = []
                    for e in p.branches():
                        h = _holds(e.term, e.value, rank, empty)
                        if h is False:
                            ok = False
                            break
                        if sk(e.term).replace('&', '').replace('*', '') == 'arg2' and e.value == 'else' and e.args is not None and rank in e.args:
                            ok = False
                            break
                    if not ok:
                        continue
                    pushes = [re.sub(r'&mut _\d+', 'IT', sk(e.args[1])) for e in p.calls() if e.name.split('::')[-1] == 'push' and len(e.args) == 2]
                    (rets if p.end == 'return' else loops).append((p, pushes))
                inst = 'make_rmod_str|rank %s, %s' % (rank if rank < 3 else '>= 3', 'no torsion' if empty else 'with torsion')
                n += 1
                if not rets:
                    rep.indet('E28: no return path for %s' % inst)
                    continue
                probs = []
                for p, pushes in rets:
                    r = sk(p.ret)
                    if r == 'to_string("0")':
                        kind, free = 'zero', None
                    elif r.startswith('join('):
                        kind = 'join'
                        fk = [k for k in (_free_kind(x) for x in pushes) if k]
                        free = fk[0] if len(fk) == 1 else ('none' if not fk else 'several')
                    elif _free_kind(re.sub(r'^must_use\((.*)\)$', r'\1', r)) or _free_kind(r):
                        kind, free = 'direct', _free_kind(r) or _free_kind(re.sub(r'^must_use\((.*)\)$', r'\1', r))
                    else:
                        raise ValueError('return value %s' % r[:80])
                    want = {0: 'none', 1: 'plain'}.get(rank, 'power')
                    if rank == 0 and empty:
                        if kind != 'zero':
                            probs.append('the trivial module is rendered as %s' % r[:60])
                    elif kind == 'zero':
                        probs.append('a non-trivial module is rendered as "0"')
                    elif kind == 'direct' and not empty:
                        probs.append('the torsion part is dropped (returns %s)' % r[:60])
                    elif (free or 'none') != want:
                        probs.append('the free part R^%s is rendered as `%s` (expected `%s`): the printed group is not the computed one' %
                                     (rank if rank < 3 else 'r', free or 'none', want))
                if not empty:
                    tor = [x for p, pushes in loops for x in pushes if 'new_display(arg1)' in x.replace('&', '') and 'next(IT).Some.0.0' in x]
                    mult = [x for x in tor if 'call(arg4, (*next(IT).Some.0.1))' in x.replace('&', '')]
                    if not tor:
                        probs.append('no (symbol/t) summand is pushed for the torsion keys')
                    elif not mult:
                        probs.append('the multiplicity of a repeated torsion summand is never printed')
                if probs:
                    rep.violation('E28.summands-rendered', inst, 'make_rmod_str: ' + '; '.join(sorted(set(probs))), where=b.where())
                else:
                    rep.ok('E28.summands-rendered', inst, 'as specified')
    except ValueError as e:
        rep.indet('E28: make_rmod_str outside the recognised fragment: %s' % e)
        return
    rep.floor('E28 (rank, torsion) cases', n, 8)
