"""E28 - the printed module string mentions every summand the library computed (C20: table cells).

Every cell of a `ykh` table, and every Display of a homology summand, is make_rmod_str(symbol, rank, tors). The string can
only denote the computed group if, for every (rank, tors):
  S1  rank = 0 and no torsion  -> "0";
  S2  rank = 1 -> the bare symbol is one of the joined summands; rank >= 2 -> symbol with superscript(rank);
      rank = 0 -> no free summand;
  S3  with torsion present, the loop over the accumulated torsion pushes (symbol/t) for every key, with
      superscript(multiplicity) when the multiplicity exceeds 1 - on the paths of *every* rank.
The conditions on `rank` / `tors.is_empty()` of each path summary are folded over rank in {0,1,2,3} x {empty, non-empty};
what is pushed is read from the path. The unit tests never render rank 1 together with torsion.
NOT decided: the separator / parentheses characters, superscript digits, the order of the torsion keys.
"""
import re
from symex import SymEx, show, strip, subterms

FN = 'yui_homology::misc::format::make_rmod_str'


def sk(t):
    return re.sub(r'#(?:i\d+:)?\d+\.\d+', '', show(t, -1000))


def _holds(term, value, rank, empty):
    """None if the condition does not concern (rank, empty); else whether the path's branch is taken"""
    s = sk(term).replace('&', '').replace('*', '')
    m = re.match(r'(Eq|Ne|Gt|Ge|Lt|Le)\(arg2, (\d+)\)$', s)
    if m:
        c = int(m.group(2))
        truth = {'Eq': rank == c, 'Ne': rank != c, 'Gt': rank > c, 'Ge': rank >= c, 'Lt': rank < c, 'Le': rank <= c}[m.group(1)]
        return truth == (value != 0)
    m = re.match(r'arg2$', s)
    if m and isinstance(value, int):            # match rank { 0 => .., 1 => .. }
        return rank == value
    if s == 'arg2' and value == 'else':
        return None
    if s in ('is_empty(arg3)', 'is_empty(deref(arg3))'):
        return empty == (value != 0)
    if s in ('Eq(PtrMetadata(arg3), 0)', 'Eq(len(arg3), 0)'):
        return empty == (value != 0)
    if 'arg2' in s and 'next(' not in s and 'Overflow' not in s:
        raise ValueError('condition on rank outside the fragment: ' + s[:80])
    return None


def _free_kind(s):
    s = s.replace('&', '')
    if s in ('clone(arg1)', 'arg1'):
        return 'plain'
    if 'new_display(arg1)' in s and 'call(arg4, (arg2))' in s and 'next(' not in s:
        return 'power'
    return None


def _torsion_closure(facts, rets):
    """torsion part written as tors_count.into_iter().map(|(t, mult)| ..): True when the closure formats (symbol / t) and
    appends superscript(mult) for mult > 1, False when it formats (symbol / t) without the multiplicity, None if absent"""
    for p, _ in rets:
        roots = [p.ret] + [e.pre[0] for e in p.calls() if e.name.split('::')[-1] == 'join' and e.pre]
        for x in [y for rt in roots for y in subterms(rt)]:
            if isinstance(x, tuple) and x and x[0] == 'closure':
                cb = facts.bodies.get(x[1])
                if cb is None:
                    continue
                texts = []
                for q in SymEx(cb, max_paths=2000).run():
                    if q.end != 'return':
                        continue
                    calls = ' '.join(sk(('call', e.name, e.args, e.site)) for e in q.calls())
                    texts.append((calls, [(sk(e.term), e.value) for e in q.branches()]))
                base = any(re.search(r'new_display\(&?\*?arg1\.\^(_ref__)?symbol\)', c) and 'arg2.0' in c for c, _ in texts)
                if not base:
                    continue
                mult = any(re.search(r'call\(&?\*?arg1\.\^(_ref__)?superscript, \(\*?arg2\.1\)\)', c) for c, _ in texts)
                return bool(mult)
    return None


def run(facts, rep):
    b = facts.bodies.get(FN)
    if b is None:
        rep.indet('E28: %s not found' % FN)
        return
    rep.saw(b)
    try:
        paths = SymEx(b, havoc_loops=True, max_paths=40000).run()
    except Exception as e:
        rep.indet('E28: %s' % e)
        return
    n = 0
    try:
        for rank in (0, 1, 2, 3):
            for empty in (True, False):
                rets, loops = [], []
                for p in paths:
                    ok = True
                    alts_rank = []
                    for e in p.branches():
                        h = _holds(e.term, e.value, rank, empty)
                        if h is False:
                            ok = False
                            break
                        if sk(e.term).replace('&', '').replace('*', '') == 'arg2' and e.value == 'else' and e.args is not None and rank in e.args:
                            ok = False
                            break
                    if not ok:
                        continue
                    pushes = [re.sub(r'&mut _\d+', 'IT', sk(e.args[1])) for e in p.calls() if e.name.split('::')[-1] == 'push' and len(e.args) == 2]
                    (rets if p.end == 'return' else loops).append((p, pushes))
                inst = 'make_rmod_str|rank %s, %s' % (rank if rank < 3 else '>= 3', 'no torsion' if empty else 'with torsion')
                n += 1
                if not rets:
                    rep.indet('E28: no return path for %s' % inst)
                    continue
                probs = []
                unknown = []
                for p, pushes in rets:
                    r = sk(p.ret)
                    if r == 'to_string("0")':
                        kind, free = 'zero', None
                    else:
                        # every value that can end up in the output: pushed strings and the sub-terms of the returned expression
                        pool = list(pushes)
                        roots = [p.ret] + [e.pre[0] for e in p.calls() if e.name.split('::')[-1] == 'join' and e.pre]
                        for rt in roots:
                            for x in subterms(rt):
                                if isinstance(x, tuple) and x and x[0] in ('call', 'adt'):
                                    pool.append(sk(x))
                        fk = set()
                        for x in pool:
                            x1 = re.sub(r'^Option::Some\{0: (.*)\}$', r'\1', x)
                            x1 = re.sub(r'^must_use\((.*)\)$', r'\1', x1)
                            k_ = _free_kind(x1)
                            if k_:
                                fk.add(k_)
                        joined = r.startswith('join(') or any(x.startswith('join(') for x in pool)
                        direct = _free_kind(re.sub(r'^must_use\((.*)\)$', r'\1', r)) or _free_kind(r)
                        if direct and not joined:
                            kind, free = 'direct', direct
                        elif joined:
                            kind = 'join'
                            free = fk.pop() if len(fk) == 1 else ('none' if not fk else 'several')
                        else:
                            unknown.append('return value %s' % r[:80])
                            continue
                    want = {0: 'none', 1: 'plain'}.get(rank, 'power')
                    if rank == 0 and empty:
                        if kind != 'zero':
                            probs.append('the trivial module is rendered as %s' % r[:60])
                    elif kind == 'zero':
                        probs.append('a non-trivial module is rendered as "0"')
                    elif kind == 'direct' and not empty:
                        probs.append('the torsion part is dropped (returns %s)' % r[:60])
                    elif (free or 'none') != want:
                        probs.append('the free part R^%s is rendered as `%s` (expected `%s`): the printed group is not the computed one' %
                                     (rank if rank < 3 else 'r', free or 'none', want))
                if not empty:
                    tor = [x for p, pushes in loops for x in pushes if 'new_display(arg1)' in x.replace('&', '') and 'next(IT).Some.0.0' in x]
                    mult = [x for x in tor if 'call(arg4, (*next(IT).Some.0.1))' in x.replace('&', '')]
                    loop_form = bool(tor)
                    clo_form = _torsion_closure(facts, rets)
                    if loop_form:
                        if not mult:
                            probs.append('the multiplicity of a repeated torsion summand is never printed')
                    elif clo_form is True:
                        pass
                    elif clo_form is False:
                        probs.append('the torsion summands are built without the multiplicity of a repeated summand')
                    else:
                        any_tor_loop = any(any('next(IT).Some.0' in x for x in pushes) for p, pushes in loops)
                        if any_tor_loop or not loops:
                            unknown.append('torsion part not recognised')
                        else:
                            probs.append('no (symbol/t) summand is pushed for the torsion keys')
                if unknown and not probs:
                    rep.indet('E28: make_rmod_str outside the recognised fragment (%s): %s' % (inst, '; '.join(sorted(set(unknown)))[:200]))
                    continue
                if probs:
                    rep.violation('E28.summands-rendered', inst, 'make_rmod_str: ' + '; '.join(sorted(set(probs))), where=b.where())
                else:
                    rep.ok('E28.summands-rendered', inst, 'as specified')
    except ValueError as e:
        rep.indet('E28: make_rmod_str outside the recognised fragment: %s' % e)
        return
    rep.floor('E28 (rank, torsion) cases', n, 8)


def check_cell_placement(facts, rep):
    """S4: a group is printed in the cell of its own bidegree. DisplayTable<isize2>::display_table hands
    format::table the rows = second index components (descending), the columns = first index components (ascending)
    and an entry function (row j, column i) -> self.get(isize2(i, j)) - `.` only when the string equals the default's;
    format::table calls entry(row item, column item) for every row and every column. A transposed index or a swapped
    argument order passes every test (none compares a rendered table)."""
    DT = 'yui_homology::<G as grid::grid::DisplayTable<grid::grid_deg::isize2>>::display_table'
    TB = 'yui::util::format::table'
    b = facts.bodies.get(DT)
    t = facts.bodies.get(TB)
    if not (b and t):
        rep.indet('E28.S4: display_table / format::table not found')
        return
    rep.saw(b)
    rep.saw(t)

    def dk(x):
        return re.sub(r'\^_ref__', '^', sk(x)).replace('&', '').replace('*', '')

    def clo_rets(owner, term):
        term = strip(term)
        cb = facts.bodies.get(term[1]) if term[0] == 'closure' else None
        if cb is None:
            return None
        return sorted({(dk(p.ret), tuple((dk(e.term), e.value != 0) for e in p.branches())) for p in SymEx(cb).run() if p.end == 'return'})
    rets = [p.ret for p in SymEx(b).run() if p.end == 'return']
    inst = 'display_table|entry(row j, col i) = get((i, j)); rows = j descending, cols = i ascending'
    if len(rets) != 1 or strip(rets[0])[0] != 'call' or strip(rets[0])[1].split('::')[-1] != 'table' or len(strip(rets[0])[2]) != 4:
        rep.indet('E28.S4: display_table does not end in format::table(head, rows, cols, entry)')
        return
    head, rows, cols, entry = strip(rets[0])[2]

    def axis(term):
        """rev?(sorted(unique(map(support(self), closure)))) -> (component, descending)"""
        s = strip(term)
        desc = False
        names = []
        while s[0] == 'call' and s[1].split('::')[-1] in ('rev', 'sorted', 'unique', 'dedup'):
            names.append(s[1].split('::')[-1])
            s = strip(s[2][0])
        if 'rev' in names:
            desc = True
        if not (s[0] == 'call' and s[1].split('::')[-1] == 'map' and dk(s[2][0]) == 'support(arg1)'):
            return None
        cr = clo_rets(b, s[2][1])
        if not cr or len(cr) != 1:
            return None
        m = re.match(r'arg2\.([01])$', cr[0][0])
        return (int(m.group(1)), desc, 'sorted' in names) if m else None
    ra, ca = axis(rows), axis(cols)
    er = clo_rets(b, entry)
    probs = []
    if ra is None or ca is None or not er:
        rep.indet('E28.S4: display_table outside the recognised fragment (rows %s, cols %s)' % (ra, ca))
        return
    if ra != (1, True, True):
        probs.append('rows are the index component %d, %s' % (ra[0], 'descending' if ra[1] else 'ascending'))
    if ca != (0, False, True):
        probs.append('columns are the index component %d, %s' % (ca[0], 'descending' if ca[1] else 'ascending'))
    cells = {r[0] for r in er}
    want = {'to_string(get(arg1.^self, isize2::isize2{0: arg3, 1: arg2}))', 'to_string(".")'}
    if cells != want:
        # whatever wraps it (filter / unwrap_or_else / if): which grid entry does the cell read?
        reads = set()
        for c in cells:
            for m in re.finditer(r'get\(arg1\.\^self, isize2::isize2\{0: (arg[23]), 1: (arg[23])\}\)', c):
                reads.add((m.group(1), m.group(2)))
        if reads == {('arg3', 'arg2')}:
            pass
        elif reads and reads <= {('arg2', 'arg3'), ('arg2', 'arg2'), ('arg3', 'arg3'), ('arg3', 'arg2')}:
            probs.append('the entry for (row, column) reads %s: with rows = j and columns = i the cell must show get(isize2(column, row))' % sorted(reads))
        else:
            rep.indet('E28.S4: entry closure returns %s' % sorted(cells))
            return
    # format::table: entry(row item, col item)
    call_shapes = set()
    for k, cb in facts.bodies.items():
        if k.startswith(TB + '::{closure'):
            for p in SymEx(cb).run():
                for e in p.calls():
                    if e.name.split('::')[-1] == 'call' and len(e.args) == 2 and dk(e.args[0]) == 'arg1.^entry':
                        call_shapes.add(dk(e.args[1]))
    loop_src = set()
    for p in SymEx(t, havoc_loops=True, max_paths=5000).run():
        for e in p.calls():
            if e.name.split('::')[-1] == 'row' and len(e.args) == 2 and 'next(' in dk(e.args[0]):
                loop_src.add(re.sub(r'mut _\d+', 'IT', dk(e.args[1])))
    if call_shapes != {'(arg1.^i, arg2)'} or loop_src != {'map(iter(deref(collect_vec(arg3))), closure<{closure#1}>)'}:
        if call_shapes == {'(arg2, arg1.^i)'}:
            probs.append('format::table calls entry(column, row)')
        else:
            rep.indet('E28.S4: format::table outside the recognised fragment: %s / %s' % (call_shapes, loop_src))
            return
    if probs:
        rep.violation('E28.S4-cell-placement', inst, '; '.join(probs) + ': groups are printed in the wrong (i, j) cells', where=b.where())
    else:
        rep.ok('E28.S4-cell-placement', inst, 'get(isize2(col, row)); table calls entry(row, col) for all rows x cols')


def check_digit_range(facts, rep):
    """S5 (C20, "lists exactly the groups the library computes" - the exponents of the printed modules): the decimal digits
    handed to superscript / subscript are digits. Every value IntoDigits::into_rev_digits emits (returned `Some(v)` of its
    generator closure, pushed `v`, literal elements) is a literal 0..9, a remainder `x % 10`, or a value the path
    conditions bound by 9. A peeling loop guarded by `num > 10` exits with num <= 10: the leading "digit" of 10, 100..109, ..
    is 10, which the superscript table renders as `+` - `Z^10` prints as `Z+`, exit code 0."""
    import re
    from symex import SymEx, show, strip
    fn = {k: b for k, b in facts.bodies.items() if 'misc::digits::IntoDigits>::into_rev_digits' in k and '<usize as' in k}
    root = [b for b in fn.values() if b.kind != 'Closure']
    if len(root) != 1:
        rep.indet('E28.S5: IntoDigits::into_rev_digits for usize not found')
        return

    def dk(t):
        return re.sub(r'#(?:i\d+:)?\d+\.\d+', '', show(t, -1000))

    def core(t):
        t = strip(t)
        while t[0] == 'cast':
            t = strip(t[2])
        return t
    emitted = []      # (term, conditions)
    for b in fn.values():
        rep.saw(b)
        for p in SymEx(b, havoc_loops=True, max_paths=4000).run():
            conds = [(dk(e.term), e.value) for e in p.branches() if not (e.name or '').startswith('assert:')]
            if b.kind == 'Closure' and p.end == 'return':
                r = strip(p.ret)
                if r[0] == 'adt' and r[2] == 'Some':
                    emitted.append((core(r[4][0]), conds))
            for e in p.calls():
                if e.name.split('::')[-1] == 'push' and len(e.args) == 2:
                    emitted.append((core(e.args[1]), conds))
    if not emitted:
        rep.indet('E28.S5: into_rev_digits emits nothing recognisable')
        return
    bad, unknown = [], []
    n = 0
    for v, conds in emitted:
        n += 1
        s = dk(v)
        if v[0] == 'const' and isinstance(v[1], int):
            if not 0 <= v[1] <= 9:
                bad.append('the literal %d is emitted as a digit' % v[1])
            continue
        if v[0] == 'bin' and v[1] == 'Rem' and strip(v[3]) == ('const', 10):
            continue
        ub = None
        for c, val in conds:
            m = re.match(r'(Gt|Ge|Lt|Le)\(%s, (\d+)\)$' % re.escape(s), c)
            if m:
                k = int(m.group(2))
                truth = val != 0
                bound = {('Gt', False): k, ('Ge', False): k - 1, ('Lt', True): k - 1, ('Le', True): k}.get((m.group(1), truth))
                if bound is not None:
                    ub = bound if ub is None else min(ub, bound)
        if ub is None:
            unknown.append(s[:60])
        elif ub > 9:
            bad.append('`%s` is emitted as a digit although the path only establishes %s <= %d' % (s, s, ub))
    inst = 'IntoDigits::into_rev_digits|every emitted value is a decimal digit'
    if bad:
        rep.violation('E28.S5-digits-are-digits', inst, 'into_rev_digits: %s - the number 10 (and 100..109, ..) keeps a leading "digit" 10, which superscript() renders through its table as `+`: a rank-10 group is printed as Z+ in the kh / ckh table' % sorted(set(bad))[0], where=root[0].where())
    elif unknown:
        rep.indet('E28.S5: digits emitted by into_rev_digits outside the recognised fragment: %s' % sorted(set(unknown))[:2])
    else:
        rep.ok('E28.S5-digits-are-digits', inst, '%d emission(s): literals 0..9, x %% 10, or bounded by the exit condition' % n)
