"""Decision-tree reading of small pure functions.

A function whose body is a nest of matches / comparisons over a few scalar inputs is, as far as its
result is concerned, a finite decision tree. `paths` gives one (conditions, result-term) pair per
leaf (from symex); `decide` folds the conditions over a concrete assignment of the *atoms*
(arguments, fields of self, opaque predicate calls) - i.e. it reads the table the code encodes,
point by point over a declared finite grid. Calls to other workspace functions are folded the same
way, recursively. No yui code runs.
"""
from symex import SymEx, strip, show


class Stuck(Exception):
    pass


def _resolve_mrefs(t, pre_of, depth=0):
    """`f(&mut local, ..)` -> `f(<value the local held before the call>, ..)`: an iterator adapter chain is then a term"""
    if not isinstance(t, tuple) or not t or depth > 40:
        return t
    if t[0] == 'call' and len(t) >= 4:
        args = t[2]
        pre = pre_of.get(t[3])
        new = tuple((_resolve_mrefs(pre[i], pre_of, depth + 1) if (a[0] == 'mref' and pre is not None and i < len(pre)) else _resolve_mrefs(a, pre_of, depth + 1)) for i, a in enumerate(args))
        return ('call', t[1], new) + tuple(t[3:])
    if t[0] in ('ref', 'deref', 'discr'):
        return (t[0], _resolve_mrefs(t[1], pre_of, depth + 1))
    if t[0] == 'field':
        return ('field', _resolve_mrefs(t[1], pre_of, depth + 1), t[2])
    if t[0] == 'un':
        return ('un', t[1], _resolve_mrefs(t[2], pre_of, depth + 1))
    if t[0] == 'bin':
        return ('bin', t[1], _resolve_mrefs(t[2], pre_of, depth + 1), _resolve_mrefs(t[3], pre_of, depth + 1))
    if t[0] == 'cast':
        return ('cast', t[1], _resolve_mrefs(t[2], pre_of, depth + 1)) + tuple(t[3:])
    return t


class DTree:
    def __init__(self, facts):
        self.facts = facts
        self._paths = {}

    def paths(self, defp):
        if defp not in self._paths:
            b = self.facts.bodies.get(defp)
            if b is None:
                raise Stuck('no body for ' + defp)
            out = []
            for p in SymEx(b, max_paths=3000).run():
                if p.end != 'return':
                    continue
                pre_of = {e.site: e.pre for e in p.calls() if e.pre and any(a[0] == 'mref' for a in e.args)}
                conds = [(_resolve_mrefs(e.term, pre_of), e.value, e.args) for e in p.branches() if not (e.name or '').startswith('assert:')]
                out.append((conds, _resolve_mrefs(p.ret, pre_of) if p.ret is not None else None, p))
            self._paths[defp] = out
        return self._paths[defp]

    def decide(self, defp, args, atom):
        """value of defp(args) by folding its decision tree; `atom(term, ev)` supplies opaque atoms"""
        return self.decide_paths(self.paths(defp), args, atom, what=defp)

    def decide_paths(self, paths, args, atom, what='the given paths', want_ret=True):
        """the same over an explicit list of (conds, ret, path): the one path whose conditions all hold at this point"""
        for conds, ret, p in paths:
            ok = True
            for term, value, alts in conds:
                v = self.ev(term, args, atom)
                if isinstance(v, bool):
                    v = int(v)
                if value == 'else':
                    if alts is not None and v in alts:
                        ok = False
                        break
                elif v != value:
                    ok = False
                    break
            if ok:
                return (self.ev(ret, args, atom) if want_ret and ret is not None else None), p
        raise Stuck('no path of %s matches' % what)

    def ev(self, t, args, atom):
        """concrete value of a term; args: {i: value}"""
        a = atom(t, lambda x: self.ev(x, args, atom))
        if a is not None:
            return a[0]
        k = t[0]
        if k == 'const':
            return t[1]
        if k == 'arg':
            if t[1] in args:
                return args[t[1]]
            raise Stuck('unbound arg%d' % t[1])
        if k in ('ref', 'deref'):
            return self.ev(t[1], args, atom)
        if k == 'cast':
            return self.ev(t[2], args, atom)
        if k == 'tuple':
            return tuple(self.ev(x, args, atom) for x in t[1])
        if k == 'agg' and t[1] == 'array':
            return tuple(self.ev(x, args, atom) for x in t[2])
        if k == 'index':
            arr = self.ev(t[1], args, atom)
            i_ = self.ev(t[2], args, atom)
            if isinstance(arr, tuple) and isinstance(i_, int) and 0 <= i_ < len(arr):
                return arr[i_]
            raise Stuck('index %r of %r' % (i_, arr))
        if k == 'field':
            base = t[1]
            if base[0] == 'bin' and t[2] in ('0', '1'):
                a_, b_ = self.ev(base[2], args, atom), self.ev(base[3], args, atom)
                if t[2] == '1':
                    return 0
                return {'AddWithOverflow': a_ + b_, 'SubWithOverflow': a_ - b_, 'MulWithOverflow': a_ * b_}[base[1]]
            v = self.ev(base, args, atom)
            if isinstance(v, dict) and t[2] in v:
                return v[t[2]]
            if isinstance(v, tuple) and t[2].isdigit():
                return v[int(t[2])]
            raise Stuck('field %s of %r' % (t[2], v))
        if k == 'bin':
            a_, b_ = self.ev(t[2], args, atom), self.ev(t[3], args, atom)
            op = t[1]
            f = {'Add': lambda: a_ + b_, 'Sub': lambda: a_ - b_, 'Mul': lambda: a_ * b_, 'Rem': lambda: a_ % b_, 'Div': lambda: a_ // b_,
                 'Eq': lambda: int(a_ == b_), 'Ne': lambda: int(a_ != b_), 'Lt': lambda: int(a_ < b_), 'Le': lambda: int(a_ <= b_),
                 'Gt': lambda: int(a_ > b_), 'Ge': lambda: int(a_ >= b_), 'BitAnd': lambda: a_ & b_, 'BitOr': lambda: a_ | b_}
            if op in f:
                return f[op]()
            raise Stuck('binop ' + op)
        if k == 'un':
            v = self.ev(t[2], args, atom)
            if t[1] == 'Not':
                return int(not v)
            if t[1] == 'Neg':
                return -v
        if k == 'discr':
            v = self.ev(t[1], args, atom)
            if isinstance(v, dict) and '<variant>' in v:
                return v['<variant>']
            if isinstance(v, int):
                return v
            raise Stuck('discr of %r' % (v,))
        if k == 'adt':
            return {'<adt>': t[1], '<variant>': t[2], **{n: self.ev(x, args, atom) for n, x in zip(t[3], t[4])}}
        if k == 'call':
            name = t[1]
            if name.endswith('cmp::PartialEq::eq') or name.endswith('::eq') and len(t[2]) == 2:
                return int(self.ev(t[2][0], args, atom) == self.ev(t[2][1], args, atom))
            if name.endswith('cmp::PartialEq::ne'):
                return int(self.ev(t[2][0], args, atom) != self.ev(t[2][1], args, atom))
            if name.split('::')[-1] == 'contains' and len(t[2]) == 2:
                r_ = strip(t[2][0])
                if r_[0] == 'adt' and r_[1].endswith('Range') and r_[3] == ('start', 'end'):
                    x_ = self.ev(t[2][1], args, atom)
                    return int(self.ev(r_[4][0], args, atom) <= x_ < self.ev(r_[4][1], args, atom))
                if r_[0] == 'adt' and r_[1].endswith('RangeInclusive'):
                    pass
            if name in self.facts.bodies:
                sub = {i + 1: self.ev(x, args, atom) for i, x in enumerate(t[2])}
                v, _ = self.decide(name, sub, atom)
                return v
        raise Stuck('cannot fold ' + show(t)[:80])


LESS, EQ, GT = 255, 0, 1


def ordering_atom(dt, facts, env, classify, used=None):
    """atom hook for folding an `Ordering`-valued function over symbolic outcomes: `classify(call term)` names the
    comparison a call performs ((key, reversed?) or None), env[key] is its outcome; then_with / then / match on the outcome /
    Ordering literals are followed"""
    from symex import strip as _strip, project

    def atom(t, ev):
        if t[0] == 'call':
            c = classify(t)
            if c is not None:
                key, rev = c
                if used is not None:
                    used.add(key)
                o = env[key]
                if rev:
                    o = {LESS: GT, GT: LESS, EQ: EQ}[o]
                return (o,)
            if t[1].endswith('Ordering::then_with') and len(t[2]) == 2:
                o = ev(t[2][0])
                if o != EQ:
                    return (o,)
                clo = _strip(t[2][1])
                if clo[0] != 'closure' or clo[1] not in facts.bodies:
                    raise Stuck('then_with with a non-local closure')
                v, _ = dt.decide(clo[1], {1: clo}, atom)
                return (v,)
            if t[1].endswith('Ordering::then') and len(t[2]) == 2:
                o = ev(t[2][0])
                return (o if o != EQ else ev(t[2][1]),)
            if t[1].endswith('Ordering::reverse') and len(t[2]) == 1:
                return ({LESS: GT, GT: LESS, EQ: EQ}[ev(t[2][0])],)
        if t[0] == 'adt' and t[1].endswith('cmp::Ordering'):
            return ({'Less': LESS, 'Equal': EQ, 'Greater': GT}[t[2]],)
        if t[0] == 'discr':
            v = ev(t[1])
            if v in (LESS, EQ, GT):
                return (v,)
        if t[0] == 'field' and isinstance(t[2], str) and t[2].startswith('^') and t[1][0] == 'closure':
            r = project(t[1], t[2])
            if r[0] != 'field':
                return (ev(r),)
        if t[0] == 'closure':
            return (t,)
        return None
    return atom
