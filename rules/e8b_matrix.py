"""E8 (matrix containers) - two sibling-agreement rules for C13.

  F8   SpMat::divide4 subtracts, block by block, exactly the offsets that SpMat::combine_blocks
       adds: block p in [a, b, c, d] holds rows (in range ? 0 : -k) and columns (in range ? 0 : -l)
       with p = 2*[row out of range] + [col out of range]; combine_blocks adds (0,0), (0,L), (K,0),
       (K,L) with (K, L) = shape of block 0, in the same block order.
  E10b Trans composes in the same order collapsed and uncollapsed: forward and forward_mat
       both denote f_n ... f_0, backward and backward_mat both denote b_0 ... b_n - read off
       the iterator direction and the multiplication side of the four folds.
"""
import re
from symex import SymEx, show, strip


def sk(t):
    return re.sub(r'#\d+\.\d+', '', show(t))


def check_split_combine(facts, rep):
    dv = facts.find(r'^yui_matrix::sparse::sp_mat::SpMat::<R>::divide4$')
    cb = facts.find(r'^yui_matrix::sparse::sp_mat::SpMat::<R>::combine_blocks$')
    if len(dv) != 1 or len(cb) != 1:
        rep.indet('E8.F8: divide4 / combine_blocks not found')
        return
    dv, cb = dv[0], cb[0]
    rep.saw(dv)
    rep.saw(cb)
    order = None
    table = {}
    for p in SymEx(dv, havoc_loops=True, max_paths=20000).run():
        for e in p.calls():
            last = e.name.split('::')[-1]
            if last == 'map' and e.args and strip(e.args[0])[0] == 'agg':
                order = [x[2] if x[0] == 'loopvar' else (x[1][0][1] if x[0] == 'mref' else None) for x in strip(e.args[0])[2]]
            if last == 'push' and len(e.args) == 4 and e.args[0][0] == 'mref' and e.args[0][1][0][0] == 'local':
                loc = e.args[0][1][0][1]
                conds = {}
                for b_ in p.branches():
                    s = sk(b_.term)
                    m = re.match(r'contains\(&Range::Range\{start: 0, end: arg2\.([01])\}', s)
                    if m:
                        conds[int(m.group(1))] = (b_.value == 'else')

                def off(t, axis):
                    t = strip(t)
                    if t[0] == 'field' and t[1][0] == 'bin' and t[1][1] == 'SubWithOverflow' and sk(t[1][3]) == 'arg2.%d' % axis:
                        return 'sub'
                    if t[0] == 'field' and t[1][0] != 'bin':
                        return 'none'
                    return '?'
                table[loc] = (conds.get(0), conds.get(1), off(e.args[1], 0), off(e.args[2], 1))
    inst = 'SpMat::divide4|block p = 2*[row >= k] + [col >= l], offsets subtracted accordingly'
    problems = []
    if not order or len(order) != 4 or set(order) != set(table):
        problems.append('cannot relate the pushed blocks %s to the returned array %s' % (sorted(table), order))
    else:
        for pos, loc in enumerate(order):
            rin, cin, ro, co = table[loc]
            want = (pos < 2, pos % 2 == 0, 'none' if pos < 2 else 'sub', 'none' if pos % 2 == 0 else 'sub')
            if (rin, cin, ro, co) != want:
                problems.append('block %d takes rows %s / cols %s in range with offsets (%s, %s); expected %s' % (pos, rin, cin, ro, co, want))
    if problems:
        rep.violation('E8.F8-split-recombine', inst, 'SpMat::divide4: ' + '; '.join(problems), where=dv.where())
    else:
        rep.ok('E8.F8-split-recombine', inst, 'a:(i,j) b:(i,j-l) c:(i-k,j) d:(i-k,j-l)')
    # combine_blocks
    offs = None
    blocks = None
    for p in SymEx(cb, max_paths=20000).run():
        for e in p.calls():
            if e.name.split('::')[-1] == 'zip' and len(e.args) == 2:
                a0, a1 = strip(e.args[0]), strip(e.args[1])
                if a0[0] == 'agg' and a1[0] == 'agg':
                    blocks = [sk(x) for x in a0[2]]
                    offs = [tuple(sk(y) for y in x[1]) if x[0] == 'tuple' else None for x in a1[2]]
    inst = 'SpMat::combine_blocks|adds (0,0),(0,L),(K,0),(K,L) with (K,L) = shape of block 0'
    K, L = 'shape(arg1[0]).0', 'shape(arg1[0]).1'
    adds_ok = False
    for k, b in facts.bodies.items():
        if k.startswith(cb.defp + '::{closure'):
            for p in SymEx(b).run():
                r = p.ret
                if p.end == 'return' and r is not None and r[0] == 'tuple' and len(r[1]) == 3:
                    s0, s1 = sk(r[1][0]), sk(r[1][1])
                    if s0.startswith('AddWithOverflow(') and s1.startswith('AddWithOverflow(') and '^di' in s0 and '^dj' in s1:
                        adds_ok = True
    if blocks == ['arg1[0]', 'arg1[1]', 'arg1[2]', 'arg1[3]'] and offs == [('0', '0'), ('0', L), (K, '0'), (K, L)] and adds_ok:
        rep.ok('E8.F8-split-recombine', inst, 'offsets %s' % offs)
    else:
        rep.violation('E8.F8-split-recombine', inst,
                      'SpMat::combine_blocks places blocks %s at offsets %s (entry shift by (di,dj): %s); divide4 subtracts (0,0),(0,l),(k,0),(k,l): split followed by recombination is no longer the identity' % (blocks, offs, adds_ok),
                      where=cb.where())


def check_trans_order(facts, rep):
    res = {}
    for nm in ('forward', 'backward', 'forward_mat', 'backward_mat'):
        bs = facts.find(r'^yui_matrix::sparse::trans::Trans::<R>::%s$' % nm)
        if len(bs) != 1:
            rep.indet('E10b: Trans::%s not found' % nm)
            return
        b = bs[0]
        rep.saw(b)
        folds = set()
        for p in SymEx(b, max_paths=20000).run():
            for e in p.calls():
                if e.name.split('::')[-1] == 'fold' and len(e.args) == 3 and e.args[2][0] == 'closure':
                    it = sk(e.args[0])
                    fld = 'f_mats' if 'f_mats' in it else ('b_mats' if 'b_mats' in it else '?')
                    rev = it.startswith('rev(')
                    side = '?'
                    cbody = facts.bodies.get(e.args[2][1])
                    if cbody is not None:
                        for q in SymEx(cbody).run():
                            r = q.ret
                            if q.end == 'return' and r[0] == 'call' and r[1].split('::')[-1] == 'mul' and len(r[2]) == 2:
                                a, b2 = strip(r[2][0]), strip(r[2][1])
                                if (a, b2) == (('arg', 3), ('arg', 2)):
                                    side = 'item*acc'
                                elif (a, b2) == (('arg', 2), ('arg', 3)):
                                    side = 'acc*item'
                    folds.add((fld, rev, side))
        res[nm] = folds

    def denotes(fold):
        """order of the factors, left to right, as a sequence of indices 'asc' (0..n) or 'desc' (n..0)"""
        fld, rev, side = fold
        if side == 'item*acc':      # later items end up on the left
            return 'asc' if rev else 'desc'
        if side == 'acc*item':      # later items end up on the right
            return 'desc' if rev else 'asc'
        return '?'
    want = {'forward': ('f_mats', 'desc'), 'forward_mat': ('f_mats', 'desc'), 'backward': ('b_mats', 'asc'), 'backward_mat': ('b_mats', 'asc')}
    for nm, (fld, order) in want.items():
        inst = 'Trans::%s|denotes %s' % (nm, 'f_n ... f_0' if order == 'desc' else 'b_0 ... b_n')
        got = {(f[0], denotes(f)) for f in res[nm]}
        if got == {(fld, order)}:
            rep.ok('E10b.trans-composition-order', inst, 'fold %s' % sorted(res[nm]))
        else:
            rep.violation('E10b.trans-composition-order', inst,
                          'Trans::%s folds %s, i.e. multiplies the factors in order %s; the collapsed and uncollapsed transform must both denote %s' %
                          (nm, sorted(res[nm]), sorted(got), 'f_n ... f_0' if order == 'desc' else 'b_0 ... b_n'),
                          where='yui-matrix/src/sparse/trans.rs')
