"""E8 (matrix containers) - two sibling-agreement rules for C13.

  F8   SpMat::divide4 subtracts, block by block, exactly the offsets that SpMat::combine_blocks
       adds: block p in [a, b, c, d] holds rows (in range ? 0 : -k) and columns (in range ? 0 : -l)
       with p = 2*[row out of range] + [col out of range]; combine_blocks adds (0,0), (0,L), (K,0),
       (K,L) with (K, L) = shape of block 0, in the same block order.
  E10b Trans composes in the same order collapsed and uncollapsed: forward and forward_mat
       both denote f_n ... f_0, backward and backward_mat both denote b_0 ... b_n - read off
       the iterator direction and the multiplication side of the four folds.
"""
import re
from symex import SymEx, show, strip


def sk(t):
    return re.sub(r'#(?:i\d+:)?\d+\.\d+', '', show(t))


def check_split_combine(facts, rep):
    dv = facts.find(r'^yui_matrix::sparse::sp_mat::SpMat::<R>::divide4$')
    cb = facts.find(r'^yui_matrix::sparse::sp_mat::SpMat::<R>::combine_blocks$')
    if len(dv) != 1 or len(cb) != 1:
        rep.indet('E8.F8: divide4 / combine_blocks not found')
        return
    dv, cb = dv[0], cb[0]
    rep.saw(dv)
    rep.saw(cb)
    order = None
    table = {}
    for p in SymEx(dv, havoc_loops=True, max_paths=20000).run():
        for e in p.calls():
            last = e.name.split('::')[-1]
            if last == 'map' and e.args and strip(e.args[0])[0] == 'agg':
                order = [x[2] if x[0] == 'loopvar' else (x[1][0][1] if x[0] == 'mref' else None) for x in strip(e.args[0])[2]]
            if last == 'map' and e.args and strip(e.args[0])[0] == 'loopvar' and isinstance(strip(e.args[0])[2], int):
                # one array local `blocks` returned as it is: position p of the result is blocks[p]
                order = [('arr', strip(e.args[0])[2], i_) for i_ in range(4)]
            if last == 'push' and len(e.args) == 4 and e.args[0][0] == 'mref' and e.args[0][1][0][0] == 'local':
                loc = e.args[0][1][0][1]
                pth = e.args[0][1][1]
                if pth:
                    # blocks[2 * bi + bj]: a constant index once the path has fixed bi and bj
                    def cfold(x):
                        x = strip(x)
                        if x[0] == 'const' and isinstance(x[1], int):
                            return x[1]
                        if x[0] == 'field' and x[2] == '0' and x[1][0] == 'bin' and x[1][1] in ('AddWithOverflow', 'MulWithOverflow', 'SubWithOverflow'):
                            a_, b_ = cfold(x[1][2]), cfold(x[1][3])
                            if a_ is None or b_ is None:
                                return None
                            return {'A': a_ + b_, 'M': a_ * b_, 'S': a_ - b_}[x[1][1][0]]
                        return None
                    ci = cfold(pth[0][1]) if (len(pth) == 1 and pth[0][0] == 'idx') else None
                    if ci is None:
                        continue
                    loc = ('arr', loc, ci)
                conds = {}
                for b_ in p.branches():
                    s = sk(b_.term)
                    truth = (b_.value != 0)
                    m = re.match(r'contains\(&Range::Range\{start: 0, end: arg2\.([01])\}', s)
                    if m:
                        conds[int(m.group(1))] = truth
                        continue
                    # i < k / k > i / i >= k / k <= i written out
                    m = re.match(r'(Lt|Ge)\((.*), arg2\.([01])\)$', s) or None
                    if m and 'arg2' not in m.group(2):
                        conds[int(m.group(3))] = truth if m.group(1) == 'Lt' else (not truth)
                        continue
                    m = re.match(r'(Gt|Le)\(arg2\.([01]), (.*)\)$', s)
                    if m and 'arg2' not in m.group(3):
                        conds[int(m.group(2))] = truth if m.group(1) == 'Gt' else (not truth)

                def off(t, axis):
                    t = strip(t)
                    if t[0] == 'field' and t[1][0] == 'bin' and t[1][1] == 'SubWithOverflow' and sk(t[1][3]) == 'arg2.%d' % axis:
                        return 'sub'
                    if t[0] == 'field' and t[1][0] == 'bin' and t[1][1] == 'SubWithOverflow' and sk(t[1][3]) == 'arg2.%d' % (1 - axis):
                        return 'sub-other'      # the split point of the *other* axis: inside the vocabulary {none, k, l}, and wrong
                    if t[0] == 'field' and t[1][0] != 'bin':
                        return 'none'
                    return '?'
                table[loc] = (conds.get(0), conds.get(1), off(e.args[1], 0), off(e.args[2], 1))
    inst = 'SpMat::divide4|block p = 2*[row >= k] + [col >= l], offsets subtracted accordingly'
    problems = []
    if not order or len(order) != 4 or set(order) != set(table):
        problems.append('cannot relate the pushed blocks %s to the returned array %s' % (sorted(table, key=str), order))
    else:
        for pos, loc in enumerate(order):
            rin, cin, ro, co = table[loc]
            want = (pos < 2, pos % 2 == 0, 'none' if pos < 2 else 'sub', 'none' if pos % 2 == 0 else 'sub')
            if (rin, cin, ro, co) != want:
                problems.append('block %d takes rows %s / cols %s in range with offsets (%s, %s); expected %s' % (pos, rin, cin, ro, co, want))
    unknown = (not order or len(order) != 4 or set(order) != set(table) or
               any(v[0] is None or v[1] is None or '?' in v[2:] for v in table.values()))
    if problems and unknown:
        rep.indet('E8.F8: SpMat::divide4 outside the recognised fragment: ' + '; '.join(problems)[:300])
    elif problems:
        rep.violation('E8.F8-split-recombine', inst, 'SpMat::divide4: ' + '; '.join(problems), where=dv.where())
    else:
        rep.ok('E8.F8-split-recombine', inst, 'a:(i,j) b:(i,j-l) c:(i-k,j) d:(i-k,j-l)')
    # combine_blocks: the placement table (block, row offset, column offset) and the shift applied to every entry
    offs = None
    blocks = None
    adds_ok = False
    for p in SymEx(cb, max_paths=20000).run():
        for e in p.calls():
            if e.name.split('::')[-1] == 'zip' and len(e.args) == 2:
                a0, a1 = strip(e.args[0]), strip(e.args[1])
                if a0[0] == 'agg' and a1[0] == 'agg':
                    blocks = [sk(x) for x in a0[2]]
                    offs = [tuple(sk(y) for y in x[1]) if x[0] == 'tuple' else None for x in a1[2]]
    inst = 'SpMat::combine_blocks|adds (0,0),(0,L),(K,0),(K,L) with (K,L) = shape of block 0'
    K, L = 'shape(arg1[0]).0', 'shape(arg1[0]).1'
    for k, b in facts.bodies.items():
        if k.startswith(cb.defp + '::{closure'):
            for p in SymEx(b).run():
                r = p.ret
                if p.end == 'return' and r is not None and r[0] == 'tuple' and len(r[1]) == 3:
                    s0, s1 = sk(r[1][0]), sk(r[1][1])
                    if s0.startswith('AddWithOverflow(') and s1.startswith('AddWithOverflow(') and '^di' in s0 and '^dj' in s1:
                        adds_ok = True
    if blocks is None:
        # the same table as an array of (block, di, dj) triples walked by nested loops that push (i + di, j + dj, r)
        hp = SymEx(cb, havoc_loops=True, max_paths=20000).run()
        for p in hp:
            for e in p.calls():
                if e.name.split('::')[-1] == 'into_iter' and e.args:
                    a0 = strip(e.args[0])
                    if a0[0] == 'agg' and a0[1] == 'array' and all(strip(x)[0] == 'tuple' and len(strip(x)[1]) == 3 for x in a0[2]):
                        blocks = [sk(strip(x)[1][0]) for x in a0[2]]
                        offs = [(sk(strip(x)[1][1]), sk(strip(x)[1][2])) for x in a0[2]]
                if e.name.split('::')[-1] == 'push' and len(e.args) == 2 and strip(e.args[1])[0] == 'tuple' and len(strip(e.args[1])[1]) == 3:
                    t0, t1 = [re.sub(r'&mut _\d+', 'IT', sk(x)) for x in strip(e.args[1])[1][:2]]
                    m0 = re.match(r'AddWithOverflow\(next\(IT\)\.Some\.0\.0, next\(IT\)\.Some\.0\.1\)\.0$', t0)
                    m1 = re.match(r'AddWithOverflow\(next\(IT\)\.Some\.0\.1, next\(IT\)\.Some\.0\.2\)\.0$', t1)
                    if m0 and m1:
                        adds_ok = True
    vocab = {'0', K, L}
    if blocks == ['arg1[0]', 'arg1[1]', 'arg1[2]', 'arg1[3]'] and offs == [('0', '0'), ('0', L), (K, '0'), (K, L)] and adds_ok:
        rep.ok('E8.F8-split-recombine', inst, 'offsets %s' % offs)
    elif blocks is not None and offs is not None and adds_ok and sorted(blocks) == ['arg1[0]', 'arg1[1]', 'arg1[2]', 'arg1[3]'] and all(o is not None and set(o) <= vocab for o in offs):
        rep.violation('E8.F8-split-recombine', inst,
                      'SpMat::combine_blocks places blocks %s at offsets %s; divide4 subtracts (0,0),(0,l),(k,0),(k,l): split followed by recombination is no longer the identity' % (blocks, offs),
                      where=cb.where())
    else:
        rep.indet('E8.F8: combine_blocks outside the recognised fragment: blocks %s at offsets %s (entry shift by (di, dj): %s)' % (blocks, offs, adds_ok))


def check_trans_order(facts, rep):
    res = {}
    for nm in ('forward', 'backward', 'forward_mat', 'backward_mat'):
        bs = facts.find(r'^yui_matrix::sparse::trans::Trans::<R>::%s$' % nm)
        if len(bs) != 1:
            rep.indet('E10b: Trans::%s not found' % nm)
            return
        b = bs[0]
        rep.saw(b)
        folds = set()
        for p in SymEx(b, max_paths=20000).run():
            for e in p.calls():
                if e.name.split('::')[-1] == 'fold' and len(e.args) == 3 and e.args[2][0] == 'closure':
                    it = sk(e.args[0])
                    fld = 'f_mats' if 'f_mats' in it else ('b_mats' if 'b_mats' in it else '?')
                    rev = it.startswith('rev(')
                    side = '?'
                    cbody = facts.bodies.get(e.args[2][1])
                    if cbody is not None:
                        for q in SymEx(cbody).run():
                            r = q.ret
                            if q.end == 'return' and r[0] == 'call' and r[1].split('::')[-1] == 'mul' and len(r[2]) == 2:
                                a, b2 = strip(r[2][0]), strip(r[2][1])
                                if (a, b2) == (('arg', 3), ('arg', 2)):
                                    side = 'item*acc'
                                elif (a, b2) == (('arg', 2), ('arg', 3)):
                                    side = 'acc*item'
                    folds.add((fld, rev, side))
        res[nm] = folds

    def denotes(fold):
        """order of the factors, left to right, as a sequence of indices 'asc' (0..n) or 'desc' (n..0)"""
        fld, rev, side = fold
        if side == 'item*acc':      # later items end up on the left
            return 'asc' if rev else 'desc'
        if side == 'acc*item':      # later items end up on the right
            return 'desc' if rev else 'asc'
        return '?'
    want = {'forward': ('f_mats', 'desc'), 'forward_mat': ('f_mats', 'desc'), 'backward': ('b_mats', 'asc'), 'backward_mat': ('b_mats', 'asc')}
    for nm, (fld, order) in want.items():
        inst = 'Trans::%s|denotes %s' % (nm, 'f_n ... f_0' if order == 'desc' else 'b_0 ... b_n')
        got = {(f[0], denotes(f)) for f in res[nm]}
        if not res[nm]:
            # no fold: the same composition may be written as a loop - E27.W1 reads that form; nothing to say here
            rep.ok('E10b.trans-composition-order', inst, 'no fold in this body (see E27.W1)')
            continue
        if got == {(fld, order)}:
            rep.ok('E10b.trans-composition-order', inst, 'fold %s' % sorted(res[nm]))
        else:
            rep.violation('E10b.trans-composition-order', inst,
                          'Trans::%s folds %s, i.e. multiplies the factors in order %s; the collapsed and uncollapsed transform must both denote %s' %
                          (nm, sorted(res[nm]), sorted(got), 'f_n ... f_0' if order == 'desc' else 'b_0 ... b_n'),
                          where='yui-matrix/src/sparse/trans.rs')


def check_index_maps(facts, rep):
    """F12 (C13: "index remapping for permute / submat / ..."): each re-indexing operation of SpMat is the literal
    table below; the entries are read from the path summaries of the function and of the closure it hands to `extract`.
        from_dense_data   entry k -> (k / ncols, k % ncols)                         (row-major)
        permute(p, q)     (i, j) -> (p(i), q(j)), shape kept;   permute_rows = permute(p, id(ncols)), permute_cols = permute(id(nrows), q)
        submat(r, c)      (i, j) -> (i - r.start, j - c.start) iff i in r and j in c, shape (|r|, |c|);  submat_rows = (r, 0..ncols), submat_cols = (0..nrows, c)
        concat / stack    blocks [a, b, 0, 0] resp. [a, 0, b, 0] of combine_blocks (whose offsets are F8)
        from_row_perm(p)  entries (p(i), i, 1);   from_col_perm(p)  entries (i, p(i), 1)   (so that row_perm(p) * a = a.permute_rows(p))
        extract           keeps the value and re-indexes with f(i, j), dropping None."""
    S = 'yui_matrix::sparse::sp_mat::SpMat::<R>::'

    def dk(t):
        return re.sub(r'\^_ref__', '^', re.sub(r'#(?:i\d+:)?\d+\.\d+', '', show(t, -1000))).replace('&', '').replace('*', '')

    def rets(name):
        b = facts.bodies.get(S + name)
        if b is None:
            return None
        rep.saw(b)
        out = set()
        for p in SymEx(b).run():
            if p.end == 'return':
                conds = tuple((dk(e.term), e.value != 0) for e in p.branches() if 'Overflow' not in dk(e.term) and not dk(e.term).startswith(('Le(', 'Eq(arg1.^n')))
                out.add((dk(p.ret), conds))
        return out
    table = {
        'from_dense_data': {('from_entries(arg1, map(enumerate(into_iter(arg2)), closure<{closure#0}>))', ())},
        'from_dense_data::{closure#0}': {('(Div(arg2.0, arg1.^n), Rem(arg2.0, arg1.^n), arg2.1)', ())},
        'permute': {('extract(arg1, shape(arg1), closure<{closure#0}>)', ())},
        'permute::{closure#0}': {('Option::Some{0: (at(arg1.^p, arg2), at(arg1.^q, arg3))}', ())},
        'permute_rows': {('permute(arg1, arg2, identity(ncols(arg1)))', ())},
        'permute_cols': {('permute(arg1, identity(nrows(arg1)), arg2)', ())},
        'submat': {('extract(arg1, (SubWithOverflow(arg2.end, arg2.start).0, SubWithOverflow(arg3.end, arg3.start).0), closure<{closure#0}>)', ())},
        'submat::{closure#0}': {('then(0, closure<{closure#0}>)', (('contains(arg1.^rows, arg2)', False),)),
                                ('then(contains(arg1.^cols, arg3), closure<{closure#0}>)', (('contains(arg1.^rows, arg2)', True),))},
        'submat::{closure#0}::{closure#0}': {('(SubWithOverflow(arg1.^i, arg1.^i0).0, SubWithOverflow(arg1.^j, arg1.^j0).0)', ())},
        'submat_rows': {('submat(arg1, arg2, Range::Range{start: 0, end: ncols(arg1)})', ())},
        'submat_cols': {('submat(arg1, Range::Range{start: 0, end: nrows(arg1)}, arg2)', ())},
        'concat': {('combine_blocks([arg1, arg2, {closure#0}(closure<{closure#0}>, (0, ncols(arg1))), {closure#0}(closure<{closure#0}>, (0, ncols(arg2)))])', ())},
        'concat::{closure#0}': {('zero((arg2, arg3))', ())},
        'stack': {('combine_blocks([arg1, {closure#0}(closure<{closure#0}>, (nrows(arg1), 0)), arg2, {closure#0}(closure<{closure#0}>, (nrows(arg2), 0))])', ())},
        'stack::{closure#0}': {('zero((arg2, arg3))', ())},
        'from_row_perm': {('from_entries((dim(arg1), dim(arg1)), map(Range::Range{start: 0, end: dim(arg1)}, closure<{closure#0}>))', ())},
        'from_row_perm::{closure#0}': {('(at(arg1.^p, arg2), arg2, one())', ())},
        'from_col_perm': {('from_entries((dim(arg1), dim(arg1)), map(Range::Range{start: 0, end: dim(arg1)}, closure<{closure#0}>))', ())},
        'from_col_perm::{closure#0}': {('(arg2, at(arg1.^p, arg2), one())', ())},
        'extract': {('from_entries(arg2, filter_map(iter(arg1), closure<{closure#0}>))', ())},
        'extract::{closure#0}': {('map(call(arg1.^f, (arg2.0, arg2.1)), closure<{closure#0}>)', ())},
        'extract::{closure#0}::{closure#0}': {('(arg2.0, arg2.1, clone(arg1.^a))', ())},
    }
    # where i0/j0 of submat come from
    n = 0
    groups = {}
    for name, want in table.items():
        got = rets(name)
        op = name.split('::')[0]
        rec = groups.setdefault(op, {'bad': [], 'missing': False})
        if got is None:
            if '::' in name:
                rec['bad'].append('%s is [absent], expected %s' % (name, sorted(x[0] for x in want)[:1]))
            else:
                rec['missing'] = True
            continue
        n += 1
        if got != want:
            rec['bad'].append('%s is %s, expected %s' % (name, sorted(x[0] for x in got)[:2], sorted(x[0] for x in want)[:2]))
    # submat: i0 = rows.start, j0 = cols.start
    sb = facts.bodies.get(S + 'submat')
    if sb is not None:
        caps = set()
        for p in SymEx(sb).run():
            r = strip(p.ret) if p.ret else None
            if p.end == 'return' and r and r[0] == 'call' and len(r[2]) == 3:
                clo = strip(r[2][2])
                if clo[0] == 'closure':
                    caps.add(tuple(dk(c) for c in clo[2]))
        groups['submat']['caps'] = caps
    # a shape that differs from the table is judged by *value* on a small grid where the entry is a closure over indices,
    # and is INDETERMINATE (never a violation) where it cannot be evaluated: a refactoring must not raise an alarm
    from dtree import DTree, Stuck
    dt = DTree(facts)

    def atom_for(env):
        def atom(t, ev):
            s = dk(t)
            m = re.match(r'arg1\.\^(\w+)$', s)
            if m and m.group(1) in env:
                return (env[m.group(1)],)
            if t[0] == 'call' and t[1].split('::')[-1] == 'at' and len(t[2]) == 2:
                return ((dk(t[2][0]).split('^')[-1], ev(t[2][1])),)
            if t[0] == 'call' and t[1].split('::')[-1] == 'contains' and len(t[2]) == 2:
                r = ev(t[2][0])
                x = ev(t[2][1])
                if isinstance(r, tuple) and len(r) == 2:
                    return (int(r[0] <= x < r[1]),)
            if t[0] == 'call' and t[1].split('::')[-1] == 'one' and not t[2]:
                return ('1',)
            if t[0] == 'call' and t[1].split('::')[-1] == 'then' and len(t[2]) == 2:
                c = ev(t[2][0])
                if not c:
                    return (None,)
                clo = strip(t[2][1])
                if clo[0] == 'closure' and clo[1] in facts.bodies:
                    v, _ = dt.decide(clo[1], {1: ('env',)}, atom)
                    return (v,)
            if t[0] == 'adt' and t[1].endswith('Option'):
                return (None,) if t[2] == 'None' else (ev(t[4][0]),)
            return None
        return atom

    def semantic(op):
        """True (agrees with the table on the grid) / False (differs) / None (cannot evaluate)"""
        try:
            if op == 'from_dense_data':
                for n_ in (1, 3, 4):
                    for k_ in range(0, 13):
                        v, _ = dt.decide(S + 'from_dense_data::{closure#0}', {2: (k_, 'a')}, atom_for({'n': n_}))
                        if tuple(v) != (k_ // n_, k_ % n_, 'a'):
                            return False
                return True
            if op == 'submat':
                for (r0, r1, c0, c1) in ((2, 5, 1, 4), (0, 3, 0, 2), (1, 1, 0, 6)):
                    for i in range(6):
                        for j in range(6):
                            env = {'rows': (r0, r1), 'cols': (c0, c1), 'i0': r0, 'j0': c0, 'i1': r1, 'j1': c1, 'i': i, 'j': j}
                            v, _ = dt.decide(S + 'submat::{closure#0}', {2: i, 3: j}, atom_for(env))
                            want_v = (i - r0, j - c0) if (r0 <= i < r1 and c0 <= j < c1) else None
                            if (tuple(v) if v is not None else None) != want_v:
                                return False
                return True
            if op == 'permute':
                for i in range(3):
                    for j in range(3):
                        v, _ = dt.decide(S + 'permute::{closure#0}', {2: i, 3: j}, atom_for({}))
                        if v is None or tuple(v) != (('p', i), ('q', j)):
                            return False
                return True
            if op in ('from_row_perm', 'from_col_perm'):
                for i in range(4):
                    v, _ = dt.decide(S + op + '::{closure#0}', {2: i}, atom_for({}))
                    w = (('p', i), i, '1') if op == 'from_row_perm' else (i, ('p', i), '1')
                    if tuple(v) != w:
                        return False
                return True
        except (Stuck, KeyError, TypeError, ValueError):
            return None
        return None
    for op, rec in sorted(groups.items()):
        inst = 'SpMat::%s|index map as tabulated' % op
        if rec['missing']:
            rep.indet('E8b.F12: a body of SpMat::%s was not found' % op)
        elif rec['bad']:
            sem = semantic(op)
            top_ok = all(('::' in b.split(' is ')[0]) for b in rec['bad'])      # only closure shapes differ
            if sem is True and top_ok:
                rep.ok('E8b.F12-index-maps', inst, 'different shape, same values on the grid')
            elif sem is False:
                rep.violation('E8b.F12-index-maps', inst, 'the index map of SpMat::%s differs from its definition on a small grid: %s' % (op, '; '.join(rec['bad'])[:500]), where='yui-matrix/src/sparse/sp_mat.rs')
            else:
                # wrappers: same callee with permuted arguments is a definite slip, anything else is unknown
                slip = None
                for b in rec['bad']:
                    m = re.match(r"(\w+) is \['(\w+)\((.*)\)'\], expected \['(\w+)\((.*)\)'\]$", b)
                    if m and m.group(2) == m.group(4) and sorted(m.group(3).split(', ')) == sorted(m.group(5).split(', ')) and m.group(3) != m.group(5):
                        slip = b
                if slip:
                    rep.violation('E8b.F12-index-maps', inst, 'arguments exchanged: ' + slip[:400], where='yui-matrix/src/sparse/sp_mat.rs')
                else:
                    rep.indet('E8b.F12: SpMat::%s outside the recognised fragment: %s' % (op, '; '.join(rec['bad'])[:300]))
        else:
            rep.ok('E8b.F12-index-maps', inst, 'matches')
    rep.floor('E8b.F12 SpMat re-indexing bodies', n, 18)


def check_extend_cols(facts, rep):
    """F13 (C13, "column extension"): a.extend_cols(b) is [a | b] of shape (m, n_a + n_b) on every return path: either
    the path established ncols(b) == 0 (nothing to add, shape already right), or it rebuilds the matrix with
    try_from_csc_data(nrows(a), ncols(a) + ncols(b), ..) from a's arrays with b's appended (column offsets shifted by a's
    last offset). An early exit on "b has no stored entries" keeps a's width: a later block then lands in the wrong columns."""
    b = facts.bodies.get('yui_matrix::sparse::sp_mat::SpMat::<R>::extend_cols')
    if b is None:
        rep.indet('E8b.F13: SpMat::extend_cols not found')
        return
    rep.saw(b)

    def dk(t):
        return re.sub(r'&mut _\d+', 'IT', re.sub(r'#(?:i\d+:)?\d+\.\d+', '', show(t, -1000))).replace('&', '').replace('*', '')
    n = 0
    probs = []
    unknown = []

    def forces_zero(conds):
        """do the path conditions on ncols(b) leave 0 as its only value?"""
        vals = set(range(0, 4))
        seen = False
        for c, truth in conds:
            m = re.match(r'(Eq|Ne|Gt|Ge|Lt|Le)\(ncols\(arg2\), (\d+)\)$', c)
            m2 = re.match(r'(Eq|Ne|Gt|Ge|Lt|Le)\((\d+), ncols\(arg2\)\)$', c)
            if m or m2:
                seen = True
                op, k = (m.group(1), int(m.group(2))) if m else ({'Gt': 'Lt', 'Lt': 'Gt', 'Ge': 'Le', 'Le': 'Ge'}.get(m2.group(1), m2.group(1)), int(m2.group(2)))
                f = {'Eq': lambda x: x == k, 'Ne': lambda x: x != k, 'Gt': lambda x: x > k, 'Ge': lambda x: x >= k, 'Lt': lambda x: x < k, 'Le': lambda x: x <= k}[op]
                vals = {x for x in vals if f(x) == truth}
        return seen and vals == {0}
    for p in SymEx(b, havoc_loops=True, max_paths=5000).run():
        if p.end != 'return':
            continue
        n += 1
        conds = [(dk(e.term), e.value != 0) for e in p.branches() if 'Overflow' not in dk(e.term) and not (e.name or '').startswith('assert:')]
        empty_b = forces_zero(conds)
        ws = [dk(e.term) for e in p.events if e.kind == 'write' and e.lv and dk(('mref', e.lv)).replace('mut ', '') == 'arg1.inner']
        whole = [dk(e.term) for e in p.events if e.kind == 'write' and e.lv and dk(('mref', e.lv)).replace('mut ', '') == 'arg1']
        rebuilt = [w for w in ws if re.match(r'unwrap\(try_from_csc_data\(nrows\(arg1\), AddWithOverflow\(ncols\(arg1\), ncols\(arg2\)\)\.0,', w)]
        if empty_b and not ws and not whole:
            continue
        if rebuilt and ws[-1] == rebuilt[-1]:
            # the three arrays: those of a with those of b appended, b's column offsets shifted by a's last offset
            tail = rebuilt[-1]
            if 'disassemble(' in tail and 'arg2' in tail and ('AddWithOverflow(' in tail or 'add(' in tail or 'loop' in tail or 'post' in tail):
                continue
            shift = [dk(e.args[1]) for e in p.calls() if e.name.split('::')[-1] == 'extend' and len(e.args) == 2]
            apps = [e for e in p.calls() if e.name.split('::')[-1] == 'append']
            pops = [e for e in p.calls() if e.name.split('::')[-1] == 'pop']
            if len(shift) == 1 and 'disassemble(arg2.inner).0' in shift[0] and len(apps) == 2 and len(pops) == 1:
                continue
            unknown.append('arrays of the rebuilt matrix: %s' % tail[60:200])
            continue
        rest = [c for c in conds if not c[0].startswith('Eq(nrows(')]
        if not ws and not whole and rest and all(re.match(r'(Eq|Ne|Gt|Ge|Lt|Le)\((nnz|ncols|nrows)\(arg2\), \d+\)$|is_(zero|empty)\(arg2\)$', c) for c, _ in rest):
            probs.append('a path returns under %s with self.inner unchanged: the result does not have ncols(a) + ncols(b) columns' % rest)
        else:
            unknown.append('a path returns under %s with self.inner %s' % (rest[:3], 'unchanged' if not ws else 'set to ' + ws[-1][:80]))
    inst = 'SpMat::extend_cols|result has ncols(a) + ncols(b) columns on every path'
    if n < 2:
        rep.indet('E8b.F13: extend_cols has %d return paths' % n)
    elif unknown and not probs:
        rep.indet('E8b.F13: extend_cols outside the recognised fragment: %s' % sorted(set(unknown))[:2])
    elif probs:
        rep.violation('E8b.F13-extend-cols', inst, 'SpMat::extend_cols: ' + '; '.join(sorted(set(probs))[:2]), where=b.where())
    else:
        rep.ok('E8b.F13-extend-cols', inst, 'no-op only for ncols(b) == 0; otherwise try_from_csc_data(m, n_a + n_b, ..)')


def check_stack_vecs(facts, rep):
    """F15 (C13, "stacking .. gives the entries the definition says"): SpVec::stack_vecs shifts the row indices of each
    block by the sum of the *dimensions* of the blocks before it - the first component of its accumulator, which grows
    by dim(v) per block. A shift by the number of entries collected so far agrees with it only while every earlier block
    is completely filled."""
    from symex import apply_closure
    cl = [b for k, b in facts.bodies.items() if k.endswith('SpVec::<R>::stack_vecs::{closure#0}')]
    if len(cl) != 1:
        rep.indet('E8b.F15: fold closure of SpVec::stack_vecs not found')
        return
    b = cl[0]
    rep.saw(b)
    inst = 'SpVec::stack_vecs|block k is shifted by dim(v_0) + .. + dim(v_{k-1})'
    shifts, grows = set(), set()
    for p in SymEx(b, havoc_loops=True, max_paths=500).run():
        if p.end != 'return':
            continue
        for e in p.calls():
            if e.name.split('::')[-1] == 'for_each' and len(e.args) == 2 and strip(e.args[1])[0] == 'closure':
                for q in apply_closure(e.args[1], [('item',)]) or []:
                    for w in q.events:
                        if w.kind == 'write' and w.lv[0] == ('ptr', ('item',)):
                            t = strip(w.term)
                            if t[0] == 'field' and t[2] == '0' and t[1][0] == 'bin' and t[1][1] == 'AddWithOverflow':
                                ops = [strip(t[1][2]), strip(t[1][3])]
                                other = [x for x in ops if x != ('item',)]
                                if len(other) == 1:
                                    shifts.add(sk(other[0]))
        v = p.mem.get((('local', 2), ('0',)))
        if v is not None:
            grows.add(sk(v))
    if not shifts:
        rep.indet('E8b.F15: SpVec::stack_vecs: the shift of the row indices was not found')
    elif shifts == {'arg2.0'} and grows <= {'AddWithOverflow(arg2.0, dim(&arg3)).0'} and grows:
        rep.ok('E8b.F15-stack-offset', inst, 'rows += res.0; res.0 += v.dim()')
    elif all(re.match(r'^len\(&?(mut )?arg2\.[12]\)$', x) for x in shifts):
        rep.violation('E8b.F15-stack-offset', inst,
                      'SpVec::stack_vecs shifts the rows of a block by %s - the number of entries stored so far - instead of the accumulated dimension: as soon as an earlier block has an unstored zero the entries land in the wrong rows (or collide and the CSC constructor panics)' % sorted(shifts)[0],
                      where=b.where())
    else:
        rep.indet('E8b.F15: SpVec::stack_vecs outside the recognised fragment: shift %s, dimension update %s' % (sorted(shifts), sorted(grows)))
