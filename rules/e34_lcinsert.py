"""E34 - terms of a linear combination are added, never overwritten (C16, C06).

An `Lc` denotes sum r_x x; every operation that produces terms - `collect`, `add_pair`, the maps over generators - must
*add* the coefficient when the generator is already present: a map of generators need not be injective (two cobordisms
become equal once a later gluing merges the components that told them apart). Rule:
  I1  every `insert` into the `data` map of an Lc, in any function of yui::types::lc, is made on a path that has looked
      the same key up in the same map and found it absent (`contains_key` false, `get` / `get_mut` None); the present
      entry is otherwise updated through the reference the lookup returned. An insert without a lookup overwrites.
Not decided: that the update adds (E1 / OPV look at the operators).
"""
import re
from symex import SymEx, show, strip, TooManyPaths

MOD = 'yui::types::lc::'


def sk(t):
    return re.sub(r'#(?:i\d+:)?\d+\.\d+', '', show(t, -1000))


def _key(t):
    return sk(strip(t)).replace('&', '').replace('*', '')


def _map(t):
    s = sk(t).replace('&mut ', '').replace('&', '').replace('*', '')
    m = re.match(r'^(?:deref\()?(.*?)\)?$', s)
    return m.group(1) if m else s


def run(facts, rep):
    n = 0
    sites = set()
    for k, b in sorted(facts.bodies.items()):
        if not k.startswith(MOD) or '::tests::' in k:
            continue
        try:
            paths = SymEx(b, havoc_loops=True, max_paths=5000, inline=False).run()
        except TooManyPaths as e:
            rep.indet('E34: %s' % e)
            continue
        seen_here = False
        for p in paths:
            absent = set()
            looked = {}
            for e in p.events:
                if e.kind == 'call':
                    last = e.name.split('::')[-1]
                    if last in ('contains_key', 'get', 'get_mut') and len(e.args) == 2 and 'Map' in e.name:
                        looked[e.site] = (last, _map(e.args[0]), _key(e.args[1]))
                    if last == 'entry' and 'Map' in e.name and len(e.args) == 2 and _map(e.args[0]).endswith('.data'):
                        # the entry API looks the key up itself: or_insert / and_modify cannot overwrite
                        seen_here = True
                        if (k, e.site) not in sites:
                            sites.add((k, e.site))
                            n += 1
                            rep.ok('E34.I1-insert-fresh', '%s|insert into Lc.data only after the key was found absent' % k[len('yui::types::'):], 'entry API')
                    if last == 'insert' and 'Map' in e.name and len(e.args) == 3 and _map(e.args[0]).endswith('.data'):
                        seen_here = True
                        inst = '%s|insert into Lc.data only after the key was found absent' % k[len('yui::types::'):]
                        mk = (_map(e.args[0]), _key(e.args[1]))
                        if mk in absent:
                            if (k, e.site) not in sites:
                                sites.add((k, e.site))
                                n += 1
                                rep.ok('E34.I1-insert-fresh', inst, 'guarded by a failed lookup of %s' % mk[1][:40])
                        elif any(v[1:] == mk for v in looked.values()):
                            rep.indet('E34.I1: %s inserts %s after a lookup whose outcome the path does not show' % (k, mk[1][:40]))
                        else:
                            rep.violation('E34.I1-insert-fresh', inst,
                                          '%s inserts the term (%s, ..) into the map of an Lc without having looked the generator up: when the generator is already present - a map of generators need not be injective - its coefficient is overwritten instead of added to, and a term of the linear combination is lost' % (k, mk[1][:60]),
                                          where='%s:%d' % (b.file, e.line))
                if e.kind == 'branch':
                    t = strip(e.term)
                    if t[0] == 'call' and len(t) > 3 and t[3] in looked and looked[t[3]][0] == 'contains_key' and e.value == 0:
                        absent.add(looked[t[3]][1:])
                    none_ = e.value == 0 or (e.value == 'else' and tuple(e.args or ()) == (1,))      # Option: 0 = None, 1 = Some
                    if t[0] == 'discr' and strip(t[1])[0] == 'call' and len(strip(t[1])) > 3 and strip(t[1])[3] in looked and looked[strip(t[1])[3]][0] in ('get', 'get_mut') and none_:
                        absent.add(looked[strip(t[1])[3]][1:])
        if seen_here:
            rep.saw(b)
    rep.floor('E34.I1 guarded insert sites of Lc', n, 2)
