"""E3 - every return path of gcd / gcdx / lcm yields the normalised associate.

Subject: the default bodies `EucRing::{gcd,gcdx,lcm}` and every workspace override.
For each normal return path (symbolic summary, symex.py) the returned gcd (component 0 for
gcdx) must be produced by an accepted producer:
  N1  Ring::into_normalized / Ring::normalized
  N2  Zero::zero()
  N3  v * normalizing_unit(v)   (either operand order, same v)
  N4  v itself on a path where is_one(normalizing_unit(v)) was taken true
  N5  result of another subject (gcd/gcdx/lcm) or of num_integer's gcd / extended_gcd / lcm
      (trusted: non-negative, i.e. normalised for integers)
gcdx additionally: when the gcd is rescaled by a unit u (N3) the Bezout coefficients must be
rescaled by the same u (accepted: c*u, u itself (=1*u), zero()).
"""
from symex import paths_of, show, strip, subterms, TooManyPaths

SUBJECT_ITEMS = ['gcd', 'gcdx', 'lcm']
TRAIT = 'yui::abst::euc_ring::EucRing'
NORMALIZERS = ('Ring::into_normalized', 'Ring::normalized')
TRUSTED_EXTERNAL = ('num_integer::Integer::gcd', 'num_integer::Integer::lcm', 'num_integer::Integer::extended_gcd',
                    'num_integer::Integer::gcd_lcm', 'num_integer::Integer::extended_gcd_lcm')


def _is_call(t, *suffixes):
    return t[0] == 'call' and any(t[1] == s or t[1].endswith('::' + s) or t[1].endswith(s) for s in suffixes)


def _unit_of(u):
    """if u (through refs/clones) is normalizing_unit(&v) return strip(v) else None"""
    u = strip(u)
    if _is_call(u, 'normalizing_unit') and len(u[2]) == 1:
        return strip(u[2][0])
    return None


def classify(g, path, subjects):
    g0 = g
    g = strip(g) if g[0] in ('ref', 'deref') else g
    if _is_call(g, *NORMALIZERS):
        return 'N1 ' + g[1].split('::')[-1]
    if _is_call(g, 'Zero::zero', 'zero') and len(g[2]) == 0:
        return 'N2 zero()'
    if g[0] == 'call' and (g[1] in subjects or any(g[1].endswith(x) for x in ('EucRing::gcd', 'EucRing::lcm')) or g[1] in TRUSTED_EXTERNAL):
        return 'N5 ' + g[1]
    if g[0] == 'field':
        base = g[1]
        if base[0] == 'call' and (base[1] in TRUSTED_EXTERNAL or base[1] in subjects or base[1].endswith('EucRing::gcdx')) and g[2] in ('gcd', '0'):
            return 'N5 %s.%s' % (base[1], g[2])
    if _is_call(g, 'Mul::mul', 'mul') and len(g[2]) == 2:
        a, b = g[2]
        for v, u in ((a, b), (b, a)):
            uv = _unit_of(u)
            if uv is not None and uv == strip(v):
                return 'N3 v*normalizing_unit(v)'
    # N4: unmodified value on the is_one(normalizing_unit(v)) == true path
    sv = strip(g)
    for e in path.branches():
        c = e.term
        if _is_call(c, 'is_one') and len(c[2]) == 1 and e.value == 'else':
            uv = _unit_of(c[2][0])
            if uv is not None and uv == sv:
                return 'N4 unit is one on this path'
    return None


def subjects_of(facts, trait=TRAIT):
    subs = {}
    for item in SUBJECT_ITEMS:
        tdef = '%s::%s' % (trait, item)
        if tdef in facts.bodies:
            subs[tdef] = item
        for impl_def, im in facts.trait_impls.get(tdef, []):
            if impl_def in facts.bodies:
                subs[impl_def] = item
    return subs


def run(facts, rep, trait=TRAIT):
    subs = subjects_of(facts, trait)
    n_default = sum(1 for k in subs if k.startswith(trait + '::'))
    n_over = len(subs) - n_default
    rep.floor('E3 default gcd-like bodies', n_default, 3 if trait == TRAIT else 1)
    rep.floor('E3 overriding gcd-like bodies', n_over, 12 if trait == TRAIT else 0)
    npaths = 0
    for k, item in sorted(subs.items()):
        b = facts.bodies[k]
        rep.saw(b)
        try:
            paths = paths_of(b)
        except TooManyPaths:
            rep.indet('E3: too many paths in %s' % k)
            continue
        rets = [p for p in paths if p.end == 'return']
        if not rets:
            rep.indet('E3: no return path found in %s' % k)
            continue
        seen = set()
        for p in rets:
            npaths += 1
            r = p.ret
            if item == 'gcdx':
                if r[0] == 'tuple' and len(r[1]) == 3:
                    g, s, t = r[1]
                elif r[0] == 'call' and (r[1] in subs or r[1] in TRUSTED_EXTERNAL):
                    g, s, t = r, None, None
                else:
                    g, s, t = ('field', r, '0'), None, None
            else:
                g, s, t = r, None, None
            how = classify(g, p, subs)
            line = b.blocks[p.blocks[-2]]['term']['line'] if len(p.blocks) > 1 else b.line
            # key the instance by the shape of the returned value, not by line
            shape = show(g)
            inst = '%s|returns %s' % (k, _shape_key(g))
            if how is None:
                if ('bad', inst) in seen:
                    continue
                seen.add(('bad', inst))
                conds = ['%s == %s' % (show(e.term), 'true' if e.value == 'else' else 'false') for e in p.branches()]
                rep.violation('E3.normalised-return', inst,
                              '%s returns %s, which is not normalised on the path [%s]' % (k, shape, '; '.join(conds[-3:])),
                              where='%s (function at %s)' % (_ret_where(b, p), b.where()),
                              detail=['entry: %s' % k, 'path blocks: %s' % p.blocks, 'returned gcd term: %s' % shape])
                continue
            if ('ok', inst, how) not in seen:
                seen.add(('ok', inst, how))
                rep.ok('E3.normalised-return', '%s -> %s' % (k, shape), how)
            if item == 'gcdx' and how.startswith('N1') and s is not None:
                # (normalized(d), s, t): d was multiplied by a unit that s and t cannot have been multiplied by
                zs = [c for c in (s, t) if _is_call(c, 'Zero::zero', 'zero') and not c[2]]
                ikey = '%s|bezout coefficients with a gcd normalised by normalized()/into_normalized()' % k
                if len(zs) == 2:
                    if ikey not in seen:
                        seen.add(ikey)
                        rep.ok('E3.bezout-rescaled', ikey, 'both coefficients are zero')
                elif ikey not in seen:
                    seen.add(ikey)
                    rep.violation('E3.bezout-rescaled', ikey,
                                  '%s returns (%s, %s, %s): the gcd is replaced by its normalised associate d*u but the Bezout coefficients are returned as computed, so s*x + t*y = d, not the returned d*u (the 2x2 blocks built from it have determinant u^-1 instead of 1)' %
                                  (k, _shape_key(g)[:60], _shape_key(s)[:40], _shape_key(t)[:40]), where=_ret_where(b, p))
            if item == 'gcdx' and how.startswith('N3') and s is not None:
                gg = strip(g) if g[0] in ('ref', 'deref') else g
                a, bb_ = gg[2]
                u = b_ if False else None
                for v_, u_ in ((a, bb_), (bb_, a)):
                    if _unit_of(u_) is not None and _unit_of(u_) == strip(v_):
                        u = strip(u_)
                for nm, comp in (('s', s), ('t', t)):
                    ok = False
                    c = comp
                    if strip(c) == u:
                        ok = True
                    elif _is_call(c, 'Zero::zero', 'zero') and not c[2]:
                        ok = True
                    elif _is_call(c, 'Mul::mul', 'mul') and len(c[2]) == 2 and (strip(c[2][0]) == u or strip(c[2][1]) == u):
                        ok = True
                    ikey = '%s|bezout %s with rescaled gcd' % (k, nm)
                    if ok:
                        if ikey not in seen:
                            seen.add(ikey)
                            rep.ok('E3.bezout-rescaled', '%s component %s = %s' % (k, nm, show(c)), 'same unit as the gcd')
                    else:
                        if ikey + show(c) in seen:
                            continue
                        seen.add(ikey + show(c))
                        rep.violation('E3.bezout-rescaled', '%s|%s' % (ikey, _shape_key(c)),
                                      '%s rescales the gcd by its normalising unit but returns Bezout coefficient %s = %s unscaled' % (k, nm, show(c)),
                                      where=_ret_where(b, p))
    rep.inventory['E3 return paths examined'] = npaths
    return subs


def _shape_key(t):
    """term printed without call-site ids (stable under line / block renumbering)"""
    import re
    return re.sub(r'#(?:i\d+:)?\d+\.\d+', '', show(t))


def _ret_where(b, p):
    # source line of the last call on the path (the producer of the returned value)
    for e in reversed(p.events):
        if e.kind == 'call' and e.line:
            return '%s:%d' % (b.file, e.line)
    return b.where()


def check_poly_division(facts, rep):
    """P1 (C15, "a = (a/b) b + a%b ... polynomial long division over a field"): one step of Poly::div_rem returns either
    (0, f) when deg f < deg g, or (q, f - q*g) with q = (lt f / lt g) = (a/b) x^(i-j) - the identity f = q g + r by
    construction and the leading term cancelled; the driver starts from (0, self), adds the step quotient to q and
    replaces r by the step remainder, deg(self) - deg(rhs) + 1 times; Div / Rem are the two components."""
    import re
    from symex import SymEx, show
    K = 'yui::types::poly::poly::PolyBase::<types::poly::var::Var<X, usize>, R>::div_rem'
    b = facts.bodies.get(K)
    if b is None:
        rep.indet('E3.P1: Poly::div_rem not found')
        return
    rep.saw(b)
    # the division step: a local closure, or a private function the driver calls with (remainder, divisor)
    c = facts.bodies.get(K + '::{closure#0}')
    shift = 0
    step_call = '{closure#0}(closure<{closure#0}>, (clone(arg1), arg2))'
    if c is None:
        cands = set()
        for p in SymEx(b, havoc_loops=True, max_paths=2000).run():
            if p.end == 'backedge':
                for e in p.calls():
                    cb = facts.bodies.get(e.call.callee or '') if e.call is not None else None
                    if cb is not None and cb.kind in ('Fn', 'AssocFn') and cb.d.get('vis', 'pub') != 'pub' and cb.arg_count == 2 and cb.defp.startswith('yui::types::poly::poly::'):
                        cands.add(cb.defp)
        if len(cands) != 1:
            rep.indet('E3.P1: division step of Poly::div_rem not found (candidates %s)' % sorted(cands))
            return
        c = facts.bodies[next(iter(cands))]
        shift = 1
        step_call = '%s(clone(arg1), arg2)' % c.defp.split('::')[-1]
    rep.saw(c)

    def dk(t):
        return re.sub(r'#(?:i\d+:)?\d+\.\d+', '', show(t, -1000)).replace('&', '')
    def renum(x):
        # a private function takes (f, g) as arg1, arg2; the closure form takes them as arg2, arg3
        return re.sub(r'arg(\d)', lambda m: 'arg%d' % (int(m.group(1)) + shift), x) if shift else x
    steps = set()
    for p in SymEx(c).run():
        if p.end == 'return':
            conds = tuple((renum(dk(e.term)), e.value != 0) for e in p.branches() if 'Overflow' not in dk(e.term))
            steps.add((renum(dk(p.ret)), conds))
    Q = 'from((from(SubWithOverflow(deg(lead_term(arg2).0), deg(lead_term(arg3).0)).0), div(lead_term(arg2).1, lead_term(arg3).1)))'
    want = {('(zero(), arg2)', (('Lt(lead_deg(arg2), lead_deg(arg3))', True),)),
            ('(%s, sub(arg2, mul(%s, arg3)))' % (Q, Q), (('Lt(lead_deg(arg2), lead_deg(arg3))', False),))}
    inst = 'Poly::div_rem step|(0, f) if deg f < deg g else (q, f - q g), q = lt(f) / lt(g)'
    if steps == want:
        rep.ok('E3.P1-poly-division', inst, 'f = q g + r by construction, leading term cancelled')
    else:
        diff = sorted(s[0][:200] for s in steps - want)
        known = all(re.match(r'\((zero\(\)|from\(.*\)), (arg2|sub\(arg2, mul\(.*, arg3\)\))\)$', s[0]) for s in steps)
        if known and len(steps) == 2:
            rep.violation('E3.P1-poly-division', inst, 'the division step returns %s: either the remainder is not f - q*g for the quotient that is returned, or q is not lt(f)/lt(g) = (a/b) x^(i-j)' % diff, where=c.where())
        else:
            rep.indet('E3.P1: division step outside the recognised fragment: %s' % diff)
    shapes = set()
    rng = set()
    for p in SymEx(b, max_paths=2000, inline=False).run():
        if p.end != 'return':
            continue
        n_iter = sum(1 for e in p.calls() if e.name.endswith('{closure#0}') or e.name == c.defp or (e.call is not None and (e.call.callee or '') == c.defp))
        shapes.add((n_iter, dk(p.ret)))
        for e in p.calls():
            if e.name.split('::')[-1] == 'into_iter' and len(e.args) == 1:
                rng.add(dk(e.args[0]))
    C = step_call
    w0 = (0, '(zero(), clone(arg1))')
    w1 = (1, '(add(zero(), %s.0), %s.1)' % (C, C))
    inst = 'Poly::div_rem driver|q += step quotient, r = step remainder, deg f - deg g + 1 times'
    # the loop is left only through its exhausted range: a `break` on a property of the remainder ("already constant")
    # skips the steps that produce the low-order terms of the quotient when the divisor has degree 0
    early = []
    try:
        for p in SymEx(b, havoc_loops=True, max_paths=4000, inline=False).run():
            if p.end != 'return':
                continue
            nx = [(dk(e.term), e.value) for e in p.branches() if dk(e.term).startswith('discr(next(')]
            if nx and nx[-1][1] == 1:
                extra = [dk(e.term)[:60] for e in p.branches() if not dk(e.term).startswith('discr(next(') and not (e.name or '').startswith('assert:')]
                early.append(extra[-1] if extra else 'unconditionally')
    except Exception:
        early = None
    if early:
        rep.violation('E3.P1-poly-division', inst, 'the division loop of Poly::div_rem can be left from inside an iteration (%s): fewer than deg f - deg g + 1 steps are taken, the remainder keeps a term of the degree of the divisor (e.g. (3x + 1) / 2 = (3/2)x rem 1) and `divides` answers false for unit divisors' % early[0], where=b.where())
    elif w0 in shapes and w1 in shapes and rng == {'new(lead_deg(arg2), lead_deg(arg1))'}:
        rep.ok('E3.P1-poly-division', inst, 'starts from (0, self); RangeInclusive(deg rhs, deg self)')
    else:
        s1 = sorted(x[1][:160] for x in shapes if x[0] == 1)
        if rng and rng != {'new(lead_deg(arg2), lead_deg(arg1))'} and w0 in shapes and all(re.match(r'(new\(|Range::Range\{)', x) for x in rng):
            rep.violation('E3.P1-poly-division', inst, 'the step is repeated over %s, expected deg(rhs) ..= deg(self)' % sorted(rng), where=b.where())
        elif w0 in shapes and s1 and w1 not in shapes and all(C in x for x in s1):
            rep.violation('E3.P1-poly-division', inst, 'after one step the driver holds %s, expected (0 + q1, r1)' % s1, where=b.where())
        else:
            rep.indet('E3.P1: driver of div_rem outside the recognised fragment: %s over %s' % (sorted(shapes)[:3], sorted(rng)))


# ------------------------------------------------------------------ B1: the Bezout invariant of the extended Euclid loop
class _Opaque(Exception):
    pass


def _padd(p, q, s=1):
    r = dict(p)
    for m, c in q.items():
        r[m] = r.get(m, 0) + s * c
        if r[m] == 0:
            del r[m]
    return r


def _pmul(p, q):
    r = {}
    for m1, c1 in p.items():
        for m2, c2 in q.items():
            m = tuple(sorted(m1 + m2))
            r[m] = r.get(m, 0) + c1 * c2
            if r[m] == 0:
                del r[m]
    return r


def _pshow(p):
    if not p:
        return '0'
    return ' + '.join(('' if c == 1 else ('-' if c == -1 else str(c))) + ('*'.join(m) or '1') for m, c in sorted(p.items()))


def check_bezout_loop(facts, rep):
    """B1 (C07 / C09 / C15: the 2x2 blocks the SNF eliminates with have determinant 1 only if s*x + t*y = d): the loop
    of the default EucRing::gcdx keeps the invariant
        x_k = s0*X + t0*Y        y_k = s1*X + t1*Y
    It is checked *inductively, as a polynomial identity*: the loop-carried values are replaced by symbols, the remainder
    by x - q*y (the Euclidean contract, q = x / y), and the values at the back edge - whatever the form of the update -
    are compared with the invariant in the commutative polynomial ring Z[X, Y, q, s0, s1, t0, t1]; likewise the values
    on entry. The roles are read from the code: (d, s, t) is what the exit returns (up to the common unit E3 checks),
    y is the local the loop guard tests for zero, s1 / t1 are the locals whose values s0 / t0 take over."""
    from symex import SymEx
    b = facts.bodies.get(TRAIT + '::gcdx')
    if b is None:
        rep.indet('E3.B1: default EucRing::gcdx not found')
        return
    rep.saw(b)
    try:
        ps = SymEx(b, havoc_loops=True, max_paths=20000).run()
    except TooManyPaths as e:
        rep.indet('E3.B1: %s' % e)
        return
    back = [p for p in ps if p.end == 'backedge']
    exits = [p for p in ps if p.end == 'return' and p.ret is not None and any(isinstance(y, tuple) and y and y[0] == 'loopvar' for y in subterms(p.ret))]
    inst = 'EucRing::gcdx|x = s0*X + t0*Y and y = s1*X + t1*Y on entry and around the loop'
    if not back or not exits:
        rep.indet('E3.B1: EucRing::gcdx has no loop with a result read from it (a different algorithm: not decided)')
        return

    def lv(t):
        t = strip(t)
        return t if (t[0] == 'loopvar' and isinstance(t[2], int)) else None

    def unscale(t):
        t = strip(t)
        if _is_call(t, 'ops::Mul::mul') and len(t[2]) == 2:
            for i in (0, 1):
                if _unit_of(t[2][1 - i]) is not None and lv(t[2][i]):
                    return lv(t[2][i])
        return lv(t)
    roles = set()
    for p in exits:
        r = p.ret
        if r[0] != 'tuple' or len(r[1]) != 3:
            rep.indet('E3.B1: gcdx returns %s from its loop' % show(r, -1000)[:80])
            return
        roles.add(tuple(unscale(x) for x in r[1]))
    if len(roles) != 1 or None in list(roles)[0]:
        rep.indet('E3.B1: the result of the loop of gcdx is not (x, s0, t0) up to a unit: %s' % sorted(show(r_.ret, -1000)[:80] for r_ in exits))
        return
    Ld, Ls, Lt = list(roles)[0]
    # y: the local the guard tests
    ys = set()
    for p in back:
        for c in p.branches():
            t = strip(c.term)
            if _is_call(t, 'is_zero') and len(t[2]) == 1 and lv(t[2][0]) and c.value == 0:
                ys.add(lv(t[2][0]))
    if len(ys) != 1:
        rep.indet('E3.B1: loop guard of gcdx is not `!y.is_zero()` on one loop-carried value')
        return
    Ly = list(ys)[0]
    if len({Ld, Ls, Lt, Ly}) != 4:
        rep.indet('E3.B1: roles of the loop-carried values of gcdx not separated')
        return
    sym = {Ls: 's0', Lt: 't0'}
    P = lambda *m: {tuple(sorted(m)): 1}
    n_ok = 0
    problems = []
    for p in back:
        def new(L):
            v = p.mem.get((('local', L[2]), ()))
            if v is None:
                raise _Opaque('no value for local %d at the back edge' % L[2])
            return v
        try:
            L1s, L1t = lv(new(Ls)), lv(new(Lt))
            if not (L1s and L1t) or len({Ld, Ls, Lt, Ly, L1s, L1t}) != 6:
                rep.indet('E3.B1: s0 / t0 do not take over the value of another loop-carried local (s1 / t1): %s, %s' % (show(new(Ls), -1000)[:60], show(new(Lt), -1000)[:60]))
                return
            names = {Ls: 's0', Lt: 't0', L1s: 's1', L1t: 't1'}
            X, Y = P('X'), P('Y')
            xk = _padd(_pmul(P('s0'), X), _pmul(P('t0'), Y))
            yk = _padd(_pmul(P('s1'), X), _pmul(P('t1'), Y))

            def ev(t):
                t = strip(t)
                L = lv(t)
                if L:
                    if L in names:
                        return P(names[L])
                    if L == Ld:
                        return xk
                    if L == Ly:
                        return yk
                    raise _Opaque('loop-carried value %s' % show(t, -1000))
                if t[0] == 'call':
                    if _is_call(t, 'ops::Sub::sub') and len(t[2]) == 2:
                        return _padd(ev(t[2][0]), ev(t[2][1]), -1)
                    if _is_call(t, 'ops::Add::add') and len(t[2]) == 2:
                        return _padd(ev(t[2][0]), ev(t[2][1]))
                    if _is_call(t, 'ops::Mul::mul') and len(t[2]) == 2:
                        return _pmul(ev(t[2][0]), ev(t[2][1]))
                    if _is_call(t, 'ops::Neg::neg') and len(t[2]) == 1:
                        return _padd({}, ev(t[2][0]), -1)
                    if (_is_call(t, 'ops::Div::div') or _is_call(t, 'ops::Rem::rem')) and len(t[2]) == 2:
                        if lv(t[2][0]) == Ld and lv(t[2][1]) == Ly:
                            return P('q') if _is_call(t, 'ops::Div::div') else _padd(xk, _pmul(P('q'), yk), -1)
                        raise _Opaque('quotient / remainder of other operands: %s' % show(t, -1000)[:60])
                    if _is_call(t, 'One::one') and not t[2]:
                        return {(): 1}
                    if _is_call(t, 'Zero::zero') and not t[2]:
                        return {}
                raise _Opaque(show(t, -1000)[:60])
            nd, ny, ns0, ns1, nt0, nt1 = [ev(new(L)) for L in (Ld, Ly, Ls, L1s, Lt, L1t)]
            for what, lhs, rhs in (('x', nd, _padd(_pmul(ns0, X), _pmul(nt0, Y))), ('y', ny, _padd(_pmul(ns1, X), _pmul(nt1, Y)))):
                if lhs != rhs:
                    problems.append('after one iteration %s = %s but %s*X + %s*Y = %s (s0, s1, t0, t1 <- %s, %s, %s, %s)' % (
                        what, _pshow(lhs), 's0' if what == 'x' else 's1', 't0' if what == 'x' else 't1', _pshow(rhs), _pshow(ns0), _pshow(ns1), _pshow(nt0), _pshow(nt1)))
            # entry
            ent = {}
            for (fid, bb_, l), v in p.state.loop_entry.items():
                if fid == 0:
                    ent[l] = v

            def ev0(t):
                t = strip(t)
                if t == ('arg', 1):
                    return X
                if t == ('arg', 2):
                    return Y
                if t[0] == 'call' and _is_call(t, 'One::one') and not t[2]:
                    return {(): 1}
                if t[0] == 'call' and _is_call(t, 'Zero::zero') and not t[2]:
                    return {}
                raise _Opaque('entry value %s' % show(t, -1000)[:60])
            e = {k: ev0(ent[L[2]]) for k, L in (('x', Ld), ('y', Ly), ('s0', Ls), ('s1', L1s), ('t0', Lt), ('t1', L1t))}
            for what, a_, b_ in (('x', 's0', 't0'), ('y', 's1', 't1')):
                rhs = _padd(_pmul(e[a_], X), _pmul(e[b_], Y))
                if e[what] != rhs:
                    problems.append('on entry %s = %s but %s*X + %s*Y = %s' % (what, _pshow(e[what]), a_, b_, _pshow(rhs)))
            n_ok += 1
        except _Opaque as ex:
            rep.indet('E3.B1: loop of gcdx outside the recognised fragment: %s' % ex)
            return
        except KeyError as ex:
            rep.indet('E3.B1: no entry value for a loop-carried local of gcdx (%s)' % ex)
            return
    if problems:
        rep.violation('E3.B1-bezout-invariant', inst,
                      'the loop of EucRing::gcdx does not keep the Bezout invariant: %s - the returned (d, s, t) no longer satisfy s*x + t*y = d once the loop runs long enough, the 2x2 blocks built from them are not unimodular' % problems[0],
                      where=b.where())
    else:
        rep.ok('E3.B1-bezout-invariant', inst, 'inductive over %d back-edge path(s), r = x - q*y' % n_ok)
