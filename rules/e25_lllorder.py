"""E25 - size reduction runs against the rows in descending order (C10: "B size-reduced").

Row k is size-reduced by reduce(i, k) for i = k-1, ..., 0. The order is forced by the data dependence, which is read
from the code:
  O1  LLLData::add_row_to(i, k, r) writes lambda[k, i] and lambda[k, j] for j in 0..i - the entries of row k at
      columns <= i - and nothing of row k to the right of i;
  O2  LLLData::reduce(i, k) rounds q = lambda[k, i] / d[i] and calls add_row_to(i, k, -q): afterwards
      |mu[k, i]| <= 1/2, and every mu[k, j], j < i, has changed;
  O3  hence a later step i' may not have i in its write set {j <= i'}: i' < i. Both drivers (LLLCalc::iterate and
      LLLHNFCalc::iterate) must visit i in *descending* order: reduce(k-1, k) first, then a reversed range over 0..k-1.
An ascending loop leaves mu[k, j] for small j un-reduced (each later step pushes it out of range again); with at most 3
rows the loop body runs at most once and no test can tell. NOT decided: the Lovasz condition, termination.
"""
import re
from symex import SymEx, show, strip

L = 'yui_matrix::dense::lll::'


def sk(t):
    return re.sub(r'#(?:i\d+:)?\d+\.\d+', '', show(t, -1000))


def run(facts, rep):
    art = facts.bodies.get(L + 'LLLData::<R>::add_row_to')
    red = facts.bodies.get(L + 'LLLData::<R>::reduce')
    if not (art and red):
        rep.indet('E25: LLLData::{add_row_to, reduce} not found')
        return
    rep.saw(art)
    rep.saw(red)
    # O1
    from symex import private_helper, apply_closure
    writes = set()
    rng = set()

    def norm(x):
        x = re.sub(r'&mut _\d+', 'IT', sk(x))
        return x

    def scan(paths, closure_item=None):
        for p in paths:
            for e in p.calls():
                n = e.name.split('::')[-1]
                a = [norm(x) for x in e.args]
                if n == 'index_mut' and a and re.sub(r'\^(_ref__)?self\.', '', a[0].replace('&mut ', '').replace('*', '')).endswith('arg1.lambda') or \
                        (n == 'index_mut' and a and a[0].replace('&mut ', '').replace('*', '') == 'arg1.lambda'):
                    w = a[1]
                    if closure_item is not None:
                        w = w.replace(closure_item, 'next(IT).Some.0')
                    writes.add(w)
                if n == 'into_iter' and a and a[0].startswith('Range::Range'):
                    rng.add(a[0])
                if n == 'for_each' and len(e.args) == 2 and a[0].startswith('Range::Range'):
                    # (0..i).for_each(|j| ..): the closure body is the loop body, its parameter the loop variable
                    rng.add(a[0])
                    ps = apply_closure(e.args[1], [('loopitem',)], havoc_loops=True)
                    if ps:
                        scan(ps, closure_item="('loopitem',)")
    scan(SymEx(art, havoc_loops=True, max_paths=20000, inline=private_helper(exclude=('add_row_to', 'reduce', 'swap', 'mul_row'))).run())
    inst = 'LLLData::add_row_to|writes lambda[k, j] exactly for j <= i'
    if writes == {'(arg3, arg2)', '(arg3, next(IT).Some.0)'} and rng == {'Range::Range{start: 0, end: arg2}'}:
        rep.ok('E25.O1-write-set', inst, 'lambda[k,i]; lambda[k,j] for j in 0..i')
        o1 = True
    else:
        rep.indet('E25.O1: write set of add_row_to outside the recognised fragment: %s over %s' % (sorted(writes), sorted(rng)))
        return
    # O2
    calls = set()
    for p in SymEx(red, max_paths=5000).run():
        for e in p.calls():
            if e.name.split('::')[-1] == 'add_row_to':
                calls.add(tuple(sk(x).replace('&', '') for x in e.args[1:]))
    inst = 'LLLData::reduce|q = round(lambda[k,i] / d[i]); add_row_to(i, k, -q)'
    want = ('arg2', 'arg3', 'neg(div_round(index(*arg1.lambda, (arg3, arg2)), index(*arg1.det, arg2)))')
    if calls == {want}:
        rep.ok('E25.O2-reduce-step', inst, 'fixes mu[k,i], changes mu[k,j] for j < i')
    elif not calls or not all(all(re.match(r'^(neg|div_round|index|arg[123]|lambda|det|\.|[(), ])*$', x) for x in c) for c in calls):
        rep.indet('E25.O2: LLLData::reduce outside the recognised fragment: %s' % sorted(calls))
    else:
        rep.violation('E25.O2-reduce-step', inst, 'reduce performs %s, expected add_row_to(i, k, -round(lambda[k,i] / d[i]))' % sorted(calls), where=red.where())
    # O3
    n = 0
    for name in ('LLLCalc::<R>::iterate', 'LLLHNFCalc::<R>::iterate'):
        b = facts.bodies.get(L + name)
        if b is None:
            rep.indet('E25: %s not found' % name)
            continue
        rep.saw(b)
        src = set()
        reduces = []
        hp = SymEx(b, havoc_loops=True, max_paths=20000).run()
        entry = {}
        for p in hp:
            for (fid, bb_, l), v in p.state.loop_entry.items():
                if fid == 0 and strip(v)[0] != 'loopvar':
                    entry[l] = sk(v)
        # a counting `while` loop around reduce(i, k): which way does its counter move, and from where
        wl = None
        for p in hp:
            if p.end != 'backedge':
                continue
            for e in p.calls():
                if e.name.split('::')[-1] == 'reduce' and len(e.args) == 3:
                    for y in __import__('symex').subterms(e.args[1]):
                        if isinstance(y, tuple) and y and y[0] == 'loopvar' and isinstance(y[2], int):
                            fin = sk(p.mem.get((('local', y[2]), ()), y))
                            lv = sk(y)
                            used = sk(e.args[1])
                            guards = [(sk(c.term), 1 if c.value != 0 else 0) for c in p.branches() if lv in sk(c.term) and not sk(c.term).endswith('.1')]
                            wl = (entry.get(y[2]), lv, used, fin, guards)
        for p in hp:
            for e in p.calls():
                nm = e.name.split('::')[-1]
                a = [re.sub(r'&mut _\d+', 'IT', sk(x)) for x in e.args]
                if nm == 'into_iter':
                    src.add(a[0])
                if nm == 'reduce' and len(a) == 3 and a[1:] not in reduces:
                    reduces.append(a[1:])
        K = '*arg1.data.step'
        KM1 = 'SubWithOverflow(%s, 1).0' % K
        first = [KM1, K]
        loop = ['next(IT).Some.0', K]
        inst = '%s|reduce(k-1, k), then reduce(i, k) for i descending over 0..k-1' % name.split('::')[0]
        n += 1
        desc = 'rev(Range::Range{start: 0, end: %s})' % KM1
        asc = 'Range::Range{start: 0, end: %s}' % KM1
        if wl is not None and first in reduces and len(reduces) == 2 and not src:
            ent, lv, used, fin, guards = wl
            dec = 'SubWithOverflow(%s, 1).0' % lv
            inc = 'AddWithOverflow(%s, 1).0' % lv
            if ent == KM1 and used == dec and fin == dec and guards == [('Gt(%s, 0)' % lv, 1)]:
                rep.ok('E25.O3-descending', inst, 'i = k-1; while i > 0 { i -= 1; reduce(i, k) }')
            elif ent == '0' and used == lv and fin == inc and len(guards) == 1 and guards[0][0] == 'Lt(%s, %s)' % (lv, KM1):
                rep.violation('E25.O3-descending', inst,
                              '%s size-reduces row k against the rows in ascending order (i = 0; while i < k-1 { reduce(i, k); i += 1 }): reduce(i, k) rewrites lambda[k, j] for every j < i (O1), so the entries reduced earlier are pushed out of |mu| <= 1/2 again - the result is not size-reduced for >= 4 rows' % name,
                              where=b.where())
            else:
                rep.indet('E25.O3: %s walks the rows with a counter from %s, used as %s, stepped to %s under %s' % (name, ent, used, fin, guards))
        elif first not in reduces or loop not in reduces or len(reduces) != 2:
            rep.indet('E25.O3: %s reduces with %s' % (name, reduces))
        elif src == {desc}:
            rep.ok('E25.O3-descending', inst, desc)
        elif src == {asc}:
            rep.violation('E25.O3-descending', inst,
                          '%s size-reduces row k against the rows in ascending order (%s): reduce(i, k) rewrites lambda[k, j] for every j < i (O1), so the entries mu[k, j] reduced earlier are pushed out of |mu| <= 1/2 again and never revisited - the result is not size-reduced for >= 4 rows' % (name, asc),
                          where=b.where())
        else:
            rep.indet('E25.O3: %s iterates over %s' % (name, sorted(src)))
    rep.floor('E25 size-reduction drivers', n, 2)
