"""E5 - lock and thread-local borrow discipline, for every schedule.

Guards: RwLockReadGuard, RwLockWriteGuard, MutexGuard, RefMut, Ref. A forward may-analysis on
MIR computes, for every guard acquisition site, the program points at which a guard derived from
it can still be alive (moves through `unwrap` etc. followed; `Drop`, `StorageDead`, and
moves into non-guard results end it). Temporaries are MIR locals, so `if x.lock().f()` and
`match x.lock().f()` differ exactly as they do at run time.

  L1  while any guard is alive, no call may reach rayon (call graph: resolved callees, class
      hierarchy for unresolved trait calls, closures created in the body and flowing into the
      call's arguments). Under work stealing a blocked rayon call can run a sibling task on the
      same thread, which re-enters the same closure: a second borrow_mut() of the same
      thread-local cell panics, a second write()/lock() on the same thread deadlocks.
  L2  while a guard is alive, no acquisition on the same lock object (same receiver place), and
      no call of a workspace function that (transitively) acquires a lock of the same type.
  L3  (pivot search) the shared pivot table is committed to only inside the critical section
      that validated the choice: from the write() acquisition, every path to PivotData::set
      passes update_diff(.., &*guard) and then the no-retry edge of should_retry(), with the
      guard never dropped in between; the retry edge cannot reach set without re-acquiring, and
      refreshes the local snapshot from &*guard first.
  L4  inventory of rayon entry sites (evidence only).
"""
import re
from core import op_place, op_const, Call, operands_of_rvalue

GUARD_RX = re.compile(r'\b(RwLockReadGuard|RwLockWriteGuard|MutexGuard|RefMut|cell::Ref)\b')
ACQUIRE = {
    'std::sync::RwLock::<T>::read': 'read', 'std::sync::RwLock::<T>::write': 'write',
    'std::sync::RwLock::<T>::try_read': 'read', 'std::sync::RwLock::<T>::try_write': 'write',
    'std::sync::Mutex::<T>::lock': 'lock', 'std::sync::Mutex::<T>::try_lock': 'lock',
    'std::cell::RefCell::<T>::borrow_mut': 'borrow_mut', 'std::cell::RefCell::<T>::borrow': 'borrow',
    'std::cell::RefCell::<T>::try_borrow_mut': 'borrow_mut', 'std::cell::RefCell::<T>::try_borrow': 'borrow',
}
RAYON_CRATES = ('rayon', 'rayon_core')


def is_rayon_call(c):
    if c.fn is None:
        return False
    if c.callee_crate in RAYON_CRATES or c.fn.get('crate') in RAYON_CRATES:
        return True
    g = c.fn['def']
    return g.startswith('rayon::') or g.startswith('rayon_core::')


def acq_kind(c):
    if c.fn is None:
        return None
    g = c.fn['def']
    for k, v in ACQUIRE.items():
        if g == k or g.endswith(k.split('::', 2)[-1]) and k.split('::')[-2] in g:
            return v
    return None


class Summaries:
    """per workspace body: reaches rayon? which lock classes may it acquire (transitively)?"""

    def __init__(self, facts):
        self.facts = facts
        cg = facts.callgraph()
        self.rayon = set()
        self.acq = {k: set() for k in facts.bodies}
        self.rayon_sites = []
        for k, b in facts.bodies.items():
            for c in b.calls():
                if is_rayon_call(c):
                    self.rayon.add(k)
                    self.rayon_sites.append((k, c.where(), c.fn['def']))
                kind = acq_kind(c)
                if kind:
                    self.acq[k].add(lock_class(b, c))
        changed = True
        while changed:
            changed = False
            for k, es in cg.items():
                for e in es:
                    if e in self.rayon and k not in self.rayon:
                        self.rayon.add(k)
                        changed = True
                    add = self.acq[e] - self.acq[k]
                    if add:
                        self.acq[k] |= add
                        changed = True


def lock_class(b, c):
    """type of the lock object = type of the receiver with the reference peeled"""
    p = op_place(c.args[0]) if c.args else None
    if p is None:
        return '?'
    ty = b.local_ty(p['l'])
    return re.sub(r"^&(?:'\w+ )?(?:mut )?", '', ty)


def receiver_root(b, c):
    """canonical place string of the lock object (locals resolved through single-assignment ref/copy chains)"""
    p = op_place(c.args[0]) if c.args else None
    if p is None:
        return '?'
    return resolve_place(b, p, 0)


def _single_def(b, l):
    defs = [s for _, _, s in b.assigns() if s['lhs']['l'] == l and not s['lhs']['p']]
    calls = [c for c in b.calls() if c.dest and c.dest['l'] == l and not c.dest['p']]
    if len(defs) == 1 and not calls:
        return defs[0]['rv'], None
    if len(calls) == 1 and not defs:
        return None, calls[0]
    return None, None


def resolve_place(b, p, depth, through_calls=True):
    l = p['l']
    base = '_%d' % l
    if depth < 8 and not (1 <= l <= b.arg_count):
        rv, call = _single_def(b, l)
        if rv is not None and rv['k'] in ('ref', 'use'):
            src = rv['place'] if rv['k'] == 'ref' else op_place(rv['op'])
            if src is not None:
                inner = resolve_place(b, src, depth + 1, through_calls)
                base = ('&' + inner) if rv['k'] == 'ref' else inner
        elif not through_calls:
            pass
        elif call is not None and call.fn and (call.fn['def'].endswith('Deref::deref') or call.fn['def'].endswith('DerefMut::deref_mut')) and call.args:
            a = op_place(call.args[0])
            if a is not None:
                base = '&*' + resolve_place(b, a, depth + 1)
        elif call is not None and call.args:
            # e.g. init_tls(&tls, f) / ThreadLocal::get_or: identify by the callee and its first argument
            a = op_place(call.args[0])
            base = '%s(%s)' % ((call.fn or {}).get('def', '?').split('::')[-1], resolve_place(b, a, depth + 1) if a is not None else '')
    s = base
    for e in p['p']:
        if e == 'deref':
            s = s[1:] if s.startswith('&') else '(*%s)' % s
        elif isinstance(e, dict) and 'n' in e:
            s += '.' + e['n']
        else:
            s += '.?'
    return s


class GuardFlow:
    def __init__(self, facts, body, summ):
        self.facts = facts
        self.b = body
        self.summ = summ
        self.acqs = {}     # acq id (bb) -> dict(kind, cls, root, line)
        for c in body.calls():
            k = acq_kind(c)
            if k:
                self.acqs[c.bb] = {'kind': k, 'cls': lock_class(body, c), 'root': receiver_root(body, c), 'line': c.line,
                                   'callee': c.fn['def']}
        self.guardy = {i for i, l in enumerate(body.locals) if GUARD_RX.search(l['ty'])}
        # closures held by locals (flow-insensitive)
        self.holds = {}
        ch = True
        while ch:
            ch = False
            for bb, j, s in body.assigns():
                if s['lhs']['p']:
                    continue
                t = s['lhs']['l']
                cur = self.holds.get(t, set())
                new = set(cur)
                rv = s['rv']
                if rv['k'] == 'agg' and rv.get('agg') == 'closure':
                    new.add(rv['closure'])
                for op in operands_of_rvalue(rv):
                    p = op_place(op)
                    if p is not None:
                        new |= self.holds.get(p['l'], set())
                if rv['k'] == 'ref':
                    new |= self.holds.get(rv['place']['l'], set())
                if new != cur:
                    self.holds[t] = new
                    ch = True
            for c in body.calls():
                if c.dest is None:
                    continue
                t = c.dest['l']
                cur = self.holds.get(t, set())
                new = set(cur)
                for a in c.args:
                    p = op_place(a)
                    if p is not None:
                        new |= self.holds.get(p['l'], set())
                if new != cur:
                    self.holds[t] = new
                    ch = True

    def run(self):
        """returns list of (call, live acq ids) for every call made while a guard may be alive"""
        b = self.b
        n = len(b.blocks)
        if not self.acqs:
            return []
        IN = [None] * n
        IN[0] = {}
        work = [0]
        succ = [b.succs(i, unwind=False) for i in range(n)]
        while work:
            i = work.pop()
            out = self._transfer(i, {k: set(v) for k, v in IN[i].items()}, None)
            for s_ in succ[i]:
                if IN[s_] is None:
                    IN[s_] = {k: set(v) for k, v in out.items()}
                    work.append(s_)
                else:
                    ch = False
                    for k, v in out.items():
                        cur = IN[s_].setdefault(k, set())
                        if not v <= cur:
                            cur |= v
                            ch = True
                    if ch:
                        work.append(s_)
        res = []
        for i in range(n):
            if IN[i] is None:
                continue
            self._transfer(i, {k: set(v) for k, v in IN[i].items()}, res)
        return res

    def _transfer(self, i, st, res):
        b = self.b
        blk = b.blocks[i]
        for s in blk['stmts']:
            if s['k'] == 'dead':
                st.pop(s['l'], None)
            elif s['k'] == 'assign' and not s['lhs']['p']:
                t = s['lhs']['l']
                got = set()
                for op in operands_of_rvalue(s['rv']):
                    if 'move' in op:
                        p = op['move']
                        if p['l'] in st and not p['p']:
                            got |= st.pop(p['l'])
                        elif p['l'] in st:
                            got |= st[p['l']]
                if got and t in self.guardy:
                    st[t] = st.get(t, set()) | got
        t = blk['term']
        if t['k'] == 'drop':
            p = t['place']
            if not p['p']:
                st.pop(p['l'], None)
        elif t['k'] == 'call':
            c = Call(b, i, t)
            live = set()
            for v in st.values():
                live |= v
            if res is not None and live:
                res.append((c, frozenset(live)))
            moved = set()
            for a in c.args:
                if 'move' in a:
                    p = a['move']
                    if not p['p'] and p['l'] in st:
                        moved |= st.pop(p['l'])
            if c.dest is not None and not c.dest['p']:
                d = c.dest['l']
                if i in self.acqs:
                    st[d] = {i}
                elif moved and d in self.guardy:
                    st[d] = st.get(d, set()) | moved
        return st


def check_guards(facts, rep, summ, module_filter, label, floor_acq):
    """L1 + L2 over every body selected by module_filter(body)"""
    nacq = 0
    bodies = [b for b in facts.bodies.values() if module_filter(b)]
    for b in sorted(bodies, key=lambda x: x.defp):
        gf = GuardFlow(facts, b, summ)
        if not gf.acqs:
            continue
        rep.saw(b)
        nacq += len(gf.acqs)
        under = gf.run()
        bad1 = {}
        bad2 = {}
        for c, live in under:
            rep.callsites += 1
            targets = set(facts.callee_targets(c.fn))
            for a in c.args:
                p = op_place(a)
                # only an argument whose type can carry a closure may make the callee invoke it
                if p is not None and ('{closure' in b.local_ty(p['l']) or 'impl ' in b.local_ty(p['l']) or 'dyn ' in b.local_ty(p['l'])):
                    targets |= {x for x in gf.holds.get(p['l'], set()) if x in facts.bodies}
            # L1
            reach = is_rayon_call(c) or any(t in summ.rayon for t in targets)
            if reach:
                for aid in live:
                    bad1.setdefault(aid, []).append(c)
            # L2
            kind = acq_kind(c)
            for aid in live:
                a = gf.acqs[aid]
                if kind and c.bb != aid:
                    root2 = receiver_root(b, c)
                    if root2 == a['root']:
                        bad2.setdefault(aid, []).append((c, 'same lock object `%s`' % root2))
                elif not kind:
                    for t in targets:
                        if a['cls'] in summ.acq.get(t, ()):
                            bad2.setdefault(aid, []).append((c, '%s may acquire a %s' % (t, a['cls'])))
        for aid, a in sorted(gf.acqs.items()):
            inst = '%s|%s on %s' % (b.defp, a['kind'], a['root'])
            if aid in bad1:
                c = bad1[aid][0]
                rep.violation('E5.L1-no-rayon-under-guard', inst,
                              '%s: the %s guard taken at line %d on `%s` can still be alive at the call of %s, which reaches rayon: '
                              'a stolen sibling task re-entering this code on the same thread double-borrows / self-deadlocks' %
                              (b.defp, a['kind'], a['line'], a['root'], c.fn['def'] if c.fn else '?'),
                              where=c.where(), detail=['acquired at %s:%d' % (b.file, a['line'])])
            else:
                rep.ok('E5.L1-no-rayon-under-guard', inst, 'no call in the guard\'s live range reaches rayon')
            if aid in bad2:
                c, why = bad2[aid][0]
                rep.violation('E5.L2-no-reacquire', inst,
                              '%s: while the %s guard from line %d on `%s` may be alive, line %d %s' %
                              (b.defp, a['kind'], a['line'], a['root'], c.line, 're-acquires the ' + why if acq_kind(c) else 'calls into code where ' + why),
                              where=c.where(), detail=['acquired at %s:%d' % (b.file, a['line'])])
            else:
                rep.ok('E5.L2-no-reacquire', inst, 'no acquisition on the same object / lock type in the live range')
    rep.floor('E5 %s: guard acquisition sites' % label, nacq, floor_acq)
    return nacq


# ------------------------------------------------------------------ L3

def _blocks_calling(b, suffix):
    return [c for c in b.calls() if c.fn and (c.fn['def'].endswith(suffix) or (c.fn.get('res') or '').endswith(suffix))]


def reaches_avoiding(b, starts, goal, blocked):
    seen = set()
    st = [s for s in starts if s not in blocked]
    while st:
        x = st.pop()
        if x in seen:
            continue
        seen.add(x)
        if x == goal:
            return True
        for y in b.succs(x):
            if y not in blocked and y not in seen:
                st.append(y)
    return False


def _derives_from_guard(b, op, gl, via):
    """operand is (a ref/copy chain to) the result of Deref::deref / DerefMut::deref_mut on &guard-local gl"""
    p = op_place(op)
    seen = 0
    while p is not None and seen < 8:
        seen += 1
        l = p['l']
        rv, call = _single_def(b, l)
        if call is not None and call.fn and any(call.fn['def'].endswith(v) for v in via):
            a = op_place(call.args[0])
            # argument is (a reborrow chain of) &gl / &mut gl
            return a is not None and resolve_place(b, a, 0, False) == '&_%d' % gl
        if rv is not None and rv['k'] in ('ref', 'use'):
            p = rv['place'] if rv['k'] == 'ref' else op_place(rv['op'])
            continue
        return False
    return False


def check_commit_protocol(facts, rep, fn_rx=r'PivotFinder::find_cycle_free_pivots_in$'):
    bs = facts.find(fn_rx)
    if len(bs) != 1:
        rep.indet('E5.L3: commit function /%s/ not found exactly once (%d)' % (fn_rx, len(bs)))
        return
    b = bs[0]
    rep.saw(b)
    sets = _blocks_calling(b, 'PivotData::set')
    if not sets:
        rep.indet('E5.L3: no call of PivotData::set in %s' % b.defp)
        return
    writes = [c for c in b.calls() if acq_kind(c) == 'write']
    for s in sets:
        inst = '%s|commit at PivotData::set' % b.defp
        # the guard local the receiver derives from
        gl = None
        for i, loc in enumerate(b.locals):
            if 'RwLockWriteGuard' in loc['ty'] and not loc['ty'].startswith('&') and 'Result' not in loc['ty']:
                if _derives_from_guard(b, s.args[0], i, ('DerefMut::deref_mut',)):
                    gl = i
        if gl is None:
            rep.violation('E5.L3-validated-commit', inst,
                          '%s: PivotData::set is applied to something that is not `&mut *write_guard` of the shared table' % b.defp,
                          where=s.where())
            continue
        # acquisition that produced gl: unwrap(write(..)) chain
        aw = None
        for w in writes:
            # dest of write flows (via unwrap) into gl
            d = w.dest['l']
            for c in b.calls():
                if c.dest and c.dest['l'] == gl and any('move' in a and a['move']['l'] == d for a in c.args):
                    aw = w
            if w.dest['l'] == gl:
                aw = w
        if aw is None:
            rep.violation('E5.L3-validated-commit', inst, '%s: cannot relate the committed guard to a write() acquisition' % b.defp, where=s.where())
            continue
        A = aw.bb
        us = [c for c in _blocks_calling(b, 'RowWorker::update_diff') if len(c.args) >= 3 and _derives_from_guard(b, c.args[2], gl, ('Deref::deref',))]
        problems = []
        u = None
        for cand in us:
            if not reaches_avoiding(b, b.succs(A), s.bb, {A, cand.bb}):
                u = cand
        if u is None:
            problems.append('some path from write() to set() does not pass update_diff(.., &*guard) on the same guard')
        bf = bt = None
        if u is not None:
            rs = _blocks_calling(b, 'RowWorker::should_retry')
            for r in rs:
                if 'target' not in r.term:
                    continue
                sw = b.blocks[r.target]['term']
                if sw['k'] == 'switch' and op_place(sw['discr']) and op_place(sw['discr'])['l'] == r.dest['l']:
                    f = [x[1] for x in sw['targets'] if x[0] == 0]
                    if f:
                        bf, bt = f[0], sw['otherwise']
                        if reaches_avoiding(b, b.succs(u.bb), s.bb, {A, bf}):
                            problems.append('set() is reachable after update_diff without taking the no-retry edge of should_retry()')
                        if reaches_avoiding(b, [bt], s.bb, {A}):
                            problems.append('the retry edge reaches set() without re-acquiring and re-validating')
                        ufs = [c for c in _blocks_calling(b, 'PivotData::update_from') if len(c.args) >= 2 and _derives_from_guard(b, c.args[1], gl, ('Deref::deref',))]
                        ok_refresh = any(not _reaches_exit_or(b, [bt], {A}, {uf.bb}) for uf in ufs)
                        if not ok_refresh:
                            problems.append('the retry edge does not refresh the local snapshot from &*guard before looping')
            if bf is None:
                problems.append('no branch on should_retry() after update_diff')
        # guard continuity
        for i, blk in enumerate(b.blocks):
            t = blk['term']
            dropped = (t['k'] == 'drop' and not t['place']['p'] and t['place']['l'] == gl) or \
                any(st['k'] == 'dead' and st['l'] == gl for st in blk['stmts'])
            if dropped and u is not None:
                # a drop between validation and commit
                if reaches_avoiding(b, b.succs(u.bb), i, {A}) and reaches_avoiding(b, b.succs(i), s.bb, {A}):
                    problems.append('the write guard can be dropped between validation and commit (block %d)' % i)
        if problems:
            rep.violation('E5.L3-validated-commit', inst,
                          '%s: commit to the shared pivot table is not inside the validated critical section: %s' % (b.defp, '; '.join(problems)),
                          where=s.where(), detail=['write() at line %d' % aw.line])
        else:
            rep.ok('E5.L3-validated-commit', inst,
                   'write()@L%d -> update_diff(&*guard)@L%d -> should_retry()==false -> set()@L%d under one guard; retry edge refreshes and re-acquires' %
                   (aw.line, u.line, s.line))


def _reaches_exit_or(b, starts, goals, blocked):
    """can we get from starts to any goal block (or a return) while avoiding `blocked`?"""
    seen = set()
    st = [x for x in starts if x not in blocked]
    while st:
        x = st.pop()
        if x in seen:
            continue
        seen.add(x)
        if x in goals or b.blocks[x]['term']['k'] == 'return':
            return True
        for y in b.succs(x):
            if y not in blocked and y not in seen:
                st.append(y)
    return False


# ------------------------------------------------------------------ L5

def check_marking(facts, rep, fns=(r'sparse::pivot::RowWorker::init$', r'sparse::pivot::RowWorker::traverse$')):
    """L5: the retry test of the commit protocol (update_diff) only sees columns whose status is Candidate or
    Occupied. So every column a row worker visits must get a status: on every path of an iteration of the
    column loops of init / traverse, set_candidate(col) or set_occupied(col) is called with the loop's column."""
    from symex import SymEx, show, strip
    for rx in fns:
        bs = facts.find(rx)
        if len(bs) != 1:
            rep.indet('E5.L5: /%s/ not found exactly once' % rx)
            continue
        b = bs[0]
        rep.saw(b)
        n_iter = 0
        bad = None
        for p in SymEx(b, havoc_loops=True, max_paths=20000).run():
            evs = p.events
            # the column item of the innermost `for &j in str.cols_in(..)` loop taken on this path
            item = None
            idx = None
            for i, e in enumerate(evs):
                if e.kind == 'branch' and e.term[0] == 'discr' and e.term[1][0] == 'call' and e.term[1][1].endswith('Iterator::next') and e.value == 1:
                    it = e.term[1]
                    # only loops over cols_in(..)
                    src = show(it)
                    item, idx = ('field', it, 'Some.0'), i
            if item is None:
                continue
            # is the iterator really the row's column list? (the loop header calls MatrixStr::cols_in)
            if not any(e.kind == 'call' and e.name.endswith('MatrixStr::cols_in') for e in evs) and not any(
                    c.name.endswith('MatrixStr::cols_in') for c in b.calls() if c.name):
                continue
            n_iter += 1
            marked = False
            for e in evs[idx:]:
                if e.kind == 'call' and e.name.split('::')[-1] in ('set_candidate', 'set_occupied') and len(e.args) == 2:
                    a = e.args[1]
                    while a[0] in ('ref', 'deref'):
                        a = a[1]
                    if a == item:
                        marked = True
            if not marked and p.end in ('backedge', 'return', 'cut'):
                conds = [(show(e.term)[:60], e.value) for e in evs[idx:] if e.kind == 'branch'][:4]
                bad = bad or conds
        inst = '%s|every visited column gets a status' % b.defp
        if n_iter == 0:
            rep.indet('E5.L5: no column loop recognised in %s' % b.defp)
        elif bad is not None:
            rep.violation('E5.L5-complete-marking', inst,
                          '%s: on the path %s a column of the visited row keeps status None; update_diff ignores None columns, so a pivot committed '
                          'concurrently on that column does not force a retry and two workers can commit mutually cyclic pivots' % (b.defp, bad),
                          where=b.where())
        else:
            rep.ok('E5.L5-complete-marking', inst, '%d iteration path(s), each calls set_candidate / set_occupied on the column' % n_iter)


# ---------------------------------------------------------------------------------------------------------------
# L6: no value read in one critical section may be written back in another (stale read / lost update)

_ACQ = ('std::sync::Mutex::<T>::lock', 'std::sync::RwLock::<T>::write', 'std::sync::RwLock::<T>::read',
        'yui::util::sync::SyncCounter::lock')      # by def path suffix match below


def _lock_sites(t, pre_of):
    """lock acquisitions a term's value was computed under: {(site, text of the mutex operand)}"""
    from symex import subterms, show
    out = set()
    for x in subterms(t):
        if not (isinstance(x, tuple) and x and x[0] == 'call'):
            continue
        nm = x[1]
        if nm.endswith('Mutex::<T>::lock') or nm.endswith('RwLock::<T>::write') or nm.endswith('RwLock::<T>::read'):
            out.add((x[3], re.sub(r'#(?:i\d+:)?\d+\.\d+', '', show(x[2][0], -1000)) if x[2] else ''))
        elif nm.endswith('DerefMut::deref_mut') or nm.endswith('Deref::deref'):
            pre = pre_of.get(x[3])
            if pre is not None:
                out |= _lock_sites(pre, {})
    return out


def check_stale_flow(facts, rep, module_filter, label, floor_sites=1):
    """L6: a call made through guard B (a second acquisition) must not receive, as a data argument, a value that was
    returned by a call made through guard A of the same mutex: between the two critical sections another thread may have
    changed the protected state, so the write acts on stale data (lost update). Branching on such a value is fine as
    long as the second section re-derives what it writes (check-then-act with revalidation)."""
    from symex import SymEx, show, TooManyPaths
    n_sections = 0
    seen_v = set()
    for key, b in sorted(facts.bodies.items()):
        if not module_filter(b):
            continue
        if not any((c.callee or c.generic or '').endswith(s) for c in b.calls() for s in ('Mutex::<T>::lock', 'RwLock::<T>::write')):
            continue
        rep.saw(b)
        try:
            paths = SymEx(b, max_paths=20000).run()
        except TooManyPaths:
            rep.indet('E5.L6: too many paths in %s' % key)
            continue
        for p in paths:
            pre_of = {}
            for e in p.calls():
                if (e.name.endswith('deref_mut') or e.name.endswith('Deref::deref')) and e.args:
                    a = e.args[0]
                    val = None
                    if e.pre:
                        vals = list(e.pre.values()) if isinstance(e.pre, dict) else list(e.pre)
                        val = vals[0] if vals else None
                    pre_of[e.site] = val if val is not None else a
            for e in p.calls():
                nm = e.name
                if not e.args or nm.endswith('::lock') or nm.endswith('::unwrap') or nm.endswith('deref_mut') or nm.endswith('Deref::deref') or nm.endswith('::write') or nm.endswith('::read'):
                    continue
                recv = _lock_sites(e.args[0], pre_of)
                if not recv:
                    continue
                n_sections += 1
                for i, a in enumerate(e.args[1:], 1):
                    for (s_arg, m_arg) in _lock_sites(a, pre_of):
                        for (s_recv, m_recv) in recv:
                            if s_arg != s_recv and m_arg == m_recv:
                                inst = '%s|%s(.., arg %d) under a second acquisition of %s' % (key, nm.split('::')[-1], i, m_recv)
                                if inst in seen_v:
                                    continue
                                seen_v.add(inst)
                                rep.violation('E5.L6-no-stale-write', inst,
                                              '%s: `%s` is called through a guard of %s with an argument (%s) that was read under an earlier, already released guard of the same lock; '
                                              'another thread can change the protected state in between, so the update is computed from stale data (lost update - the result depends on the schedule)' %
                                              (key, nm.split('::')[-1], m_recv, re.sub(r'#(?:i\d+:)?\d+\.\d+', '', show(a, -60))[:100]), where='%s:%s' % (b.file, e.line or b.line))
        if not any(v.startswith(key + '|') for v in seen_v):
            rep.ok('E5.L6-no-stale-write', '%s|no value crosses from one critical section into a write of another' % key, 'checked')
    rep.floor('E5.L6 calls made through a lock guard (%s)' % label, n_sections, floor_sites)


def check_validation_predicate(facts, rep):
    """L7: the re-validation under the write lock (RowWorker::update_diff) re-examines *every* pivot committed since the
    snapshot whose column carries *any* mark of this worker: for k in loc.count()..pivots.count(), j = pivots.indices[k],
    the column is enqueued (=> should_retry) unless both is_candidate(j) and is_occupied(j) were tested false. A predicate
    narrowed by further state (e.g. "only if the search visited a pivot row") forgets the marks that init() puts on the
    row's own non-unit entries, lets two workers commit mutually cyclic pivots, and top_sort panics."""
    from symex import SymEx, show
    fn = [b for k, b in facts.bodies.items() if k.endswith('sparse::pivot::RowWorker::update_diff')]
    if len(fn) != 1:
        rep.indet('E5.L7: RowWorker::update_diff not found')
        return
    b = fn[0]
    rep.saw(b)

    def dk(t):
        return re.sub(r'&mut _\d+', 'IT', re.sub(r'#(?:i\d+:)?\d+\.\d+', '', show(t, -1000))).replace('&', '').replace('*', '')
    J = 'index(arg3.indices, next(IT).Some.0)'
    rng = set()
    n_loop = 0
    probs = []
    paths_ = SymEx(b, havoc_loops=True, max_paths=20000).run()
    pre_rng = {dk(e.args[0]) for p in paths_ for e in p.calls() if e.name.endswith('into_iter') and e.args}
    by_skip = pre_rng in ({'skip(iter(deref(arg3.indices)), count(arg2))'}, {'skip(iter(arg3.indices), count(arg2))'})
    if by_skip:
        J = 'next(IT).Some.0'        # the new pivot columns themselves: pivots.indices.iter().skip(loc.count())
    for p in paths_:
        for e in p.calls():
            if e.name.endswith('into_iter') and e.args:
                rng.add(dk(e.args[0]))
        def nn_(c, v):
            while c.startswith('Not(') and c.endswith(')'):
                c, v = c[4:-1], not v
            return (c, v)
        conds = [nn_(dk(e.term), e.value != 0) for e in p.branches()]
        if ('discr(next(IT))', True) not in conds or p.end != 'backedge':
            continue
        n_loop += 1
        enq = [dk(e.args[1]) for e in p.calls() if e.name.split('::')[-1] == 'enqueue' and len(e.args) == 2]
        occ = [dk(e.args[1]) for e in p.calls() if e.name.split('::')[-1] == 'set_occupied' and len(e.args) == 2]
        cand = dict((t, v) for t, v in conds).get('is_candidate(arg1, %s)' % J)
        occd = dict((t, v) for t, v in conds).get('is_occupied(arg1, %s)' % J)
        if enq:
            if enq != [J] or occ != [J]:
                probs.append('a re-examined column is handled as enqueue(%s) / set_occupied(%s)' % (enq, occ))
            if not (cand is True or occd is True):
                probs.append('a column is enqueued without carrying a mark')
        else:
            if not (cand is False and occd is False):
                extra = [t for t, v in conds if not t.startswith(('discr(next', 'is_candidate(', 'is_occupied(', 'Lt(', 'Le(')) and 'Overflow' not in t]
                probs.append('a newly committed pivot column is skipped although %s was not tested false (other conditions on the path: %s)' %
                             ('is_occupied(j)' if occd is None else 'is_candidate(j)' if cand is None else 'a mark', extra[:2]))
    inst = 'RowWorker::update_diff|every newly committed pivot column that carries a mark is re-examined'
    want_rng = 'Range::Range{start: count(arg2), end: count(arg3)}'
    if rng != {want_rng} and not by_skip:
        rep.indet('E5.L7: update_diff scans %s' % sorted(rng))
    elif n_loop < 2:
        rep.indet('E5.L7: update_diff has %d loop paths' % n_loop)
    elif probs:
        rep.violation('E5.L7-validation-covers-all-marks', inst, 'RowWorker::update_diff: ' + '; '.join(sorted(set(probs))[:2]) +
                      ' - the validation under the write lock misses a conflict and two workers can commit mutually cyclic pivots', where=b.where())
    else:
        rep.ok('E5.L7-validation-covers-all-marks', inst, 'enqueue iff is_candidate(j) || is_occupied(j), for k in loc.count()..pivots.count()')


def check_candidate_predicate(facts, rep):
    """L8: a pivot candidate is a unit, for every PivotCondition. The triangular solver divides by the pivots and the Schur
    step deletes the rows / columns of the pivots it was given: with a non-unit "pivot" a / (a) summand silently disappears
    (or `inv().unwrap()` panics). PivotCondition::is_cand is read as a decision table over the atoms is_pm_one(r),
    is_unit(r) and the weight comparison and folded over every consistent assignment (±1 implies unit): an accepted
    entry must be a unit; `One` must accept exactly ±1, `AnyUnit` exactly the units, `Weight` only units within the bound."""
    import re
    from symex import show
    from dtree import DTree, Stuck
    fn = [b for k, b in facts.bodies.items() if k.endswith('sparse::pivot::PivotCondition::is_cand')]
    adt = facts.adts.get('yui_matrix::sparse::pivot::PivotCondition')
    if len(fn) != 1 or adt is None:
        rep.indet('E5.L8: PivotCondition::is_cand not found')
        return
    b = fn[0]
    rep.saw(b)
    dt = DTree(facts)

    def sk_(t):
        return re.sub(r'#(?:i\d+:)?\d+\.\d+', '', show(t, -1000)).replace('&', '').replace('*', '')
    n = 0
    bad = []
    for vi, v in enumerate(adt['variants']):
        d = int(v.get('discr', vi))
        for P in (0, 1):
            for U in (0, 1):
                if P and not U:
                    continue
                for W in (0, 1):
                    def atom(t, ev, d=d, P=P, U=U, W=W):
                        s = sk_(t)
                        if s == 'discr(arg1)':
                            return (d,)
                        if t[0] == 'call' and len(t[2]) == 1 and sk_(t[2][0]) == 'arg2':
                            nm = t[1].split('::')[-1]
                            if nm == 'is_pm_one':
                                return (P,)
                            if nm == 'is_unit':
                                return (U,)
                        if t[0] == 'bin' and t[1] in ('Le', 'Lt', 'Ge', 'Gt') and ('c_weight(arg2)' in s or re.search(r'\barg3\b', s)) and 'arg1.' in s:
                            return (W,)
                        return None
                    try:
                        got, _ = dt.decide(b.defp, {}, atom)
                    except Stuck as e:
                        rep.indet('E5.L8: PivotCondition::is_cand outside the recognised fragment (%s): %s' % (v['name'], str(e)[:120]))
                        return
                    got = bool(got)
                    n += 1
                    want = {'One': bool(P), 'AnyUnit': bool(U), 'Weight': bool(U and W)}.get(v['name'])
                    if got and not U:
                        bad.append('%s accepts a non-unit entry (weight test %s)' % (v['name'], bool(W)))
                    elif want is not None and got != want:
                        bad.append('%s answers %s for an entry with is_pm_one = %s, is_unit = %s, within weight = %s' % (v['name'], got, bool(P), bool(U), bool(W)))
    inst = 'PivotCondition::is_cand|an accepted entry is a unit (One: exactly ±1; AnyUnit: exactly the units; Weight: units within the bound)'
    if bad:
        rep.violation('E5.L8-candidate-is-unit', inst,
                      'PivotCondition::is_cand: %s - the triangular solver divides by the pivots and the Schur step deletes their rows and columns, so a non-unit pivot silently drops a torsion summand R/(a) from the reduced complex (or panics in inv().unwrap())' % '; '.join(sorted(set(bad))[:2]),
                      where=b.where())
    else:
        rep.ok('E5.L8-candidate-is-unit', inst, '%d points of the decision table folded' % n)
    rep.floor('E5.L8 decision-table points of is_cand', n, 18)


def check_union_canonical(facts, rep):
    """L9 (C12, "the same value on one thread and on many"): group_cols issues its unions from a parallel scan, in an
    order that depends on the schedule; the blocks come out in the order of their union-find *roots*. The result is
    schedule-independent only if the root of a class does not depend on the order of the unions, i.e. if union(i, j)
    always hangs the larger root under the smaller (the root of a class is then its minimum). UnionFind::union is folded
    over every order of (root(i), root(j)): the only parent write is p[max] = min, none when they are equal."""
    import re
    from symex import SymEx, show, strip
    U = 'yui::misc::union_find::UnionFind::union'
    b = facts.bodies.get(U)
    if b is None:
        rep.indet('E5.L9: UnionFind::union not found')
        return
    rep.saw(b)

    def dk(t):
        return re.sub(r'#(?:i\d+:)?\d+\.\d+', '', show(t, -1000)).replace('&mut ', '').replace('&', '').replace('*', '')
    RI, RJ = 'root(arg1, arg2)', 'root(arg1, arg3)'
    bad, unknown = [], []
    n = 0
    for p in SymEx(b, max_paths=2000).run():
        if p.end != 'return':
            continue
        # which orders of (ri, rj) take this path
        region = set((x, y) for x in range(3) for y in range(3))
        for e in p.branches():
            s = dk(e.term)
            m = None
            for a_, b_ in ((RI, RJ), (RJ, RI)):
                if s == 'discr(cmp(%s, %s))' % (a_, b_):
                    m = (a_, b_)
            m2 = None
            for op_ in ('Lt', 'Le', 'Gt', 'Ge', 'Eq', 'Ne'):
                for a_, b_ in ((RI, RJ), (RJ, RI)):
                    if s == '%s(%s, %s)' % (op_, a_, b_):
                        m2 = (op_, a_, b_)
            if m:
                sw = m[0] == RJ
                def o(x, y):
                    x, y = (y, x) if sw else (x, y)
                    return 255 if x < y else (1 if x > y else 0)
                if e.value == 'else':
                    region = {(x, y) for (x, y) in region if o(x, y) not in (e.args or ())}
                else:
                    region = {(x, y) for (x, y) in region if o(x, y) == e.value}
            elif m2:
                sw = m2[1] == RJ
                def h(x, y):
                    x, y = (y, x) if sw else (x, y)
                    return {'Lt': x < y, 'Le': x <= y, 'Gt': x > y, 'Ge': x >= y, 'Eq': x == y, 'Ne': x != y}[m2[0]]
                region = {(x, y) for (x, y) in region if h(x, y) == (e.value != 0)}
            elif (e.name or '').startswith('assert:'):
                continue
            else:
                unknown.append('condition %s' % s[:80])
        ws = []
        for e in p.events:
            if e.kind == 'write':
                lv = dk(('mref', e.lv)) if False else re.sub(r'#(?:i\d+:)?\d+\.\d+', '', __import__('symex').show_lv(e.lv)).replace('&mut ', '').replace('&', '').replace('*', '')
                m = re.match(r'index_mut\(arg1\.p, (.*)\)$', lv)
                if m:
                    ws.append((m.group(1), dk(e.term)))
                else:
                    unknown.append('write to %s' % lv[:60])
        n += 1
        for (x, y) in sorted(region):
            val = {RI: x, RJ: y}
            if x == y:
                if ws:
                    bad.append('a parent is rewritten although both elements already have the same root')
                continue
            if len(ws) != 1 or ws[0][0] not in val or ws[0][1] not in val:
                if not ws:
                    bad.append('no parent is written when the roots differ (%s)' % ('root(i) < root(j)' if x < y else 'root(i) > root(j)'))
                else:
                    unknown.append('parent writes %s' % ws[:2])
                continue
            child, parent = val[ws[0][0]], val[ws[0][1]]
            if not (child == max(x, y) and parent == min(x, y)):
                bad.append('for %s the root %d is hung under %d: the representative of the merged class is not its smallest root, it depends on the order in which the unions arrive' % ('root(i) < root(j)' if x < y else 'root(i) > root(j)', child, parent))
    inst = 'UnionFind::union|the larger root is hung under the smaller (class representative = minimum, independent of the union order)'
    if bad:
        rep.violation('E5.L9-canonical-root', inst, 'UnionFind::union: %s; dir_sum_decomp issues its unions from a parallel scan and lists the blocks by root, so the block order and the permutations change with the thread schedule' % sorted(set(bad))[0], where=b.where())
    elif unknown or not n:
        rep.indet('E5.L9: UnionFind::union outside the recognised fragment: %s' % sorted(set(unknown))[:2])
    else:
        rep.ok('E5.L9-canonical-root', inst, '%d paths folded over the 9 orders of (root(i), root(j))' % n)


def check_head_col(facts, rep):
    """L10 (C11, "the leading block is triangular"): the first, sequential phase (find_fl_pivots) is acyclic because the
    pivot it gives a row is the row's *left-most* stored entry - nothing of that row lies left of its pivot. MatrixStr::
    head_col_in(i) therefore returns the first element of entries[i] (first / iter().next() / get(0)), not the first one
    that satisfies some predicate (find, filter, skip_while, position): a pivot further right leaves entries to its left
    and two such pivots can be mutually cyclic (top_sort panics)."""
    import re
    from symex import SymEx, show, strip
    b = facts.bodies.get('yui_matrix::sparse::pivot::MatrixStr::head_col_in')
    if b is None:
        rep.indet('E5.L10: MatrixStr::head_col_in not found')
        return
    rep.saw(b)
    inst = 'MatrixStr::head_col_in|the left-most stored entry of the row'
    verdicts = set()
    for p in SymEx(b, havoc_loops=True, max_paths=500).run():
        if p.end != 'return' or p.ret is None:
            continue
        t = strip(p.ret)
        names = []
        by_site = {e.site: e for e in p.calls()}
        while t[0] == 'call' and t[2]:
            names.append(t[1].split('::')[-1])
            a0 = t[2][0]
            if a0[0] == 'mref' and len(t) > 3 and t[3] in by_site and by_site[t[3]].pre:
                a0 = by_site[t[3]].pre[0]          # `it.find(..)` on a local iterator: the value the iterator had
            t = strip(a0)
        src = re.sub(r'#(?:i\d+:)?\d+\.\d+', '', show(t, -1000)).replace('&', '').replace('*', '')
        if not re.match(r'^arg1\.entries\[arg2\]$|^arg1\.entries$', src) and 'index' not in names:
            verdicts.add(('?', src[:60]))
            continue
        sel = [n for n in names if n not in ('copied', 'cloned', 'deref', 'iter', 'index', 'as_slice', 'into_iter')]
        if sel in (['first'], ['next'], ['get']) and (sel != ['get'] or 'get(' in show(p.ret, -1000) and re.search(r', 0\)', show(p.ret, -1000))):
            verdicts.add(('first', sel[0]))
        elif sel and sel[0] in ('find', 'next') and any(x in names for x in ('find', 'filter', 'skip_while', 'position', 'find_map', 'filter_map')):
            verdicts.add(('pred', [x for x in names if x in ('find', 'filter', 'skip_while', 'position', 'find_map', 'filter_map')][0]))
        elif sel and sel[0] in ('last', 'max', 'next_back'):
            verdicts.add(('last', sel[0]))
        else:
            verdicts.add(('?', '.'.join(reversed(names))[:60]))
    if verdicts and all(v[0] == 'first' for v in verdicts):
        rep.ok('E5.L10-head-column', inst, 'entries[i].%s()' % sorted(verdicts)[0][1])
    elif any(v[0] in ('pred', 'last') for v in verdicts) and not any(v[0] == '?' for v in verdicts):
        v = [v for v in verdicts if v[0] in ('pred', 'last')][0]
        rep.violation('E5.L10-head-column', inst,
                      'MatrixStr::head_col_in selects an entry of the row through `%s`, not the left-most one: the sequential phase may then choose a pivot with stored entries to its left, two such pivots can be mutually cyclic and the final top_sort panics ("Input is cyclic")' % v[1],
                      where=b.where())
    else:
        rep.indet('E5.L10: head_col_in outside the recognised fragment: %s' % sorted(verdicts))
