"""E26 - every row of the Hermite form has its pivot normalised (C10: "row echelon form with normalised pivots").

LLLHNFCalc normalises the pivot of a row only where it multiplies the row by normalizing_unit(pivot):
    mul_row(r, normalizing_unit(target[(r, nz_col_in(r))])).
For H to have normalised pivots in *every* row, the row terms r of these sites must be able to reach every row index
0 .. m-1. The coverage is read from the code:
  V1  a site inside a function that asserts r < k (reduce(i, k)) only ever sees rows strictly below another row index:
      it can never be the last row m-1 (which becomes the first row of H after the final reversal);
  V2  so some site must take r = nrows - 1, or range over all rows, directly or through a helper's argument.
  V3  a site normalises its row *whenever that row has a pivot*: on every returning path of the site's function on which
      nz_col_in(r) is Some, either the row is multiplied by the normalising unit of its pivot or that unit was tested to
      be one. A shortcut that leaves early for a reason that concerns another row (e.g. "the entry of row k in this
      column is already zero, nothing to reduce") skips the only normalisation rows 0..m-2 ever get.
(That the rows below m-1 are all visited follows from the last successful step k = m-1 calling reduce(i, k) for every
i < k; not re-derived here.) A 1-row input, or any input whose last working row ends with a non-normalised pivot, shows
the difference: lll_hnf([[-5]]) = [[-5]].
"""
import re
from symex import SymEx, show, strip

H = 'yui_matrix::dense::lll::LLLHNFCalc::<R>::'


def sk(t):
    x = re.sub(r'#(?:i\d+:)?\d+\.\d+', '', show(t, -1000))
    # m.checked_sub(1): Some(m - 1) iff m >= 1
    x = re.sub(r'discr\(checked_sub\((nrows\(&?\*?arg1\.data\)), (\d+)\)\)', r'Ge(\1, \2)', x)
    x = re.sub(r'checked_sub\((nrows\(&?\*?arg1\.data\)), (\d+)\)\.Some\.0', r'SubWithOverflow(\1, \2).0', x)
    return x


def run(facts, rep):
    bodies = {k: b for k, b in facts.bodies.items() if k.startswith(H) and b.kind != 'Closure'}
    if not bodies:
        rep.indet('E26: LLLHNFCalc not found')
        return
    sites = []          # (fn, row term text, strictly-below?)
    calls_to = {}       # fn -> [(caller, [arg texts])]
    guards = {}         # (callee, arg texts) -> set of frozenset(conditions on nrows) under which the call is made
    for k, b in sorted(bodies.items()):
        rep.saw(b)
        try:
            paths = SymEx(b, havoc_loops=True, max_paths=20000).run()
        except Exception as e:
            rep.indet('E26: %s: %s' % (k, e))
            return
        seen = set()
        for p in paths:
            conds = [(sk(e.term), e.value) for e in p.branches()]
            for e in p.calls():
                nm = e.name
                a = [re.sub(r'&mut _\d+', 'IT', sk(x)) for x in e.args]
                if nm.startswith(H):
                    g = frozenset((t, v != 0) for t, v in conds if re.match(r'(Gt|Ge|Ne|Lt|Le|Eq)\(nrows\(&?\*?arg1\.data\), \d+\)$', t))
                    guards.setdefault((nm, tuple(a[1:])), set()).add(g)
                if nm.startswith(H) and (nm, tuple(a)) not in seen:
                    seen.add((nm, tuple(a)))
                    calls_to.setdefault(nm, []).append((k, a[1:]))
                if nm.split('::')[-1] == 'mul_row' and len(a) == 3 and 'normalizing_unit(' in a[2]:
                    r = a[1]
                    m = re.search(r'normalizing_unit\(index\(&?\*?arg1\.data\.target, \((.*?), ', a[2])
                    if not m or m.group(1) != r:
                        continue
                    below = any(re.match(r'Lt\(%s, (arg\d)\)$' % re.escape(r), t) and v != 0 for t, v in conds)
                    key = (k, r, below)
                    if key not in sites:
                        sites.append(key)
    _v3(bodies, sites, rep)
    if not sites:
        rep.violation('E26.V2-last-row-normalised', 'LLLHNFCalc|a pivot-normalisation site reaches every row', 'LLLHNFCalc never multiplies a row by the normalising unit of its pivot', where='yui-matrix/src/dense/lll.rs')
        return
    covers_last = []
    narrowed = []
    unknown_guard = []
    unread = []
    for fn, r, below in sites:
        short = fn[len(H):]
        inst = 'LLLHNFCalc::%s|normalises the pivot of row %s' % (short, r)
        if below:
            rep.ok('E26.V1-normalisation-sites', inst, 'row strictly below another row index: never the last row')
            continue
        # row term: direct, or an argument resolved through the callers
        cands = [r]
        m = re.match(r'arg(\d)$', r)
        if m:
            cands = [a[int(m.group(1)) - 2] for (_, a) in calls_to.get(fn, []) if len(a) >= int(m.group(1)) - 1]
        for c in cands:
            if not (re.match(r'SubWithOverflow\(nrows\(&?\*?arg1\.data\), 1\)\.0$', c) or c == 'next(IT).Some.0' or re.match(r'(arg\d|\d+|\*?arg1\.data\.step|SubWithOverflow\(\*?arg1\.data\.step, \d+\)\.0)$', c)):
                unread.append((short, c))
            if re.match(r'SubWithOverflow\(nrows\(&?\*?arg1\.data\), 1\)\.0$', c) or c == 'next(IT).Some.0':
                # the guards on the number of rows under which this site is reached must admit every m >= 1
                gs = set()
                for (callee, args), gg in guards.items():
                    if callee == fn and c in args:
                        gs |= gg
                admits = None
                for g in (gs or {frozenset()}):
                    ok_m = True
                    for (t, truth) in g:
                        mm = re.match(r'(Gt|Ge|Ne|Lt|Le|Eq)\(nrows\(&?\*?arg1\.data\), (\d+)\)$', t)
                        if not mm:
                            ok_m = None
                            break
                        cst = int(mm.group(2))
                        for m_ in (1, 2, 3):
                            val = {'Gt': m_ > cst, 'Ge': m_ >= cst, 'Ne': m_ != cst, 'Lt': m_ < cst, 'Le': m_ <= cst, 'Eq': m_ == cst}[mm.group(1)]
                            if val != truth:
                                ok_m = False
                    if ok_m is True:
                        admits = True
                    elif ok_m is False and admits is None:
                        admits = False
                if admits is False:
                    narrowed.append((short, c, sorted(sorted(g) for g in gs)))
                elif admits is True:
                    covers_last.append((short, c))
                else:
                    unknown_guard.append((short, c))
        rep.ok('E26.V1-normalisation-sites', inst, 'row argument supplied as %s' % cands)
    rep.floor('E26 pivot-normalisation sites in LLLHNFCalc', len(sites), 1)
    inst = 'LLLHNFCalc|a pivot-normalisation site reaches the last row m-1'
    if covers_last:
        rep.ok('E26.V2-last-row-normalised', inst, '%s with row %s, for every number of rows >= 1' % covers_last[0])
    elif narrowed:
        rep.violation('E26.V2-last-row-normalised', inst,
                      'the normalisation of the last row (%s with row %s) is only reached under %s: it is skipped for some matrices with at least one row (a 1 x n input is returned with its pivot as it came)' % narrowed[0],
                      where='yui-matrix/src/dense/lll.rs')
    elif unknown_guard:
        rep.indet('E26: the normalisation of the last row is guarded by a condition outside the recognised fragment: %s' % (unknown_guard[0],))
    elif unread:
        rep.indet('E26: a normalisation site is called with a row outside the recognised fragment: %s' % (unread[0],))
    else:
        rep.violation('E26.V2-last-row-normalised', inst,
                      'the pivot of a row is normalised only in %s, where the row index is asserted strictly below another row index; the last working row m-1 - the first row of H after the reversal in result() - is never multiplied by its normalising unit (e.g. lll_hnf([[-5]]) = [[-5]], lll_hnf([[0,1],[-1,0]]) = [[-1,0],[0,1]])' %
                      ', '.join(sorted({'LLLHNFCalc::' + f[len(H):] for f, _, b in sites if b})), where='yui-matrix/src/dense/lll.rs')


def _v3(bodies, sites, rep):
    for fn in sorted({f for f, _, _ in sites}):
        rows = sorted({r for f, r, _ in sites if f == fn})
        b = bodies[fn]
        short = fn[len(H):]
        for r in rows:
            if not re.match(r'arg\d$', r):
                continue
            inst = 'LLLHNFCalc::%s|row %s is normalised on every path on which it has a pivot' % (short, r)
            have = 0
            bad = []
            for p in SymEx(b, havoc_loops=True, max_paths=20000).run():
                if p.end != 'return':
                    continue
                conds = [(sk(e.term), e.value) for e in p.branches()]
                nz = [v for t, v in conds if re.match(r'discr\(nz_col_in\(&?\*?arg1\.data, %s\)\)$' % r, t)]
                if not nz or nz[-1] != 1:
                    continue
                have += 1
                done = any(e.name.split('::')[-1] == 'mul_row' and len(e.args) == 3 and sk(e.args[1]) == r and 'normalizing_unit(' in sk(e.args[2]) for e in p.calls())
                is_one = any(re.match(r'is_one\(&?normalizing_unit\(index\(&?\*?arg1\.data\.target, \(%s, ' % r, t) and v != 0 for t, v in conds)
                if not (done or is_one):
                    extra = [t for t, v in conds if not t.startswith('discr(nz_col_in(') and not re.match(r'(Lt|Le|Gt|Ge)\(arg\d, arg\d\)$', t)]
                    bad.append(extra[-1][:140] if extra else 'no further condition')
            if not have:
                rep.indet('E26.V3: %s has no path on which nz_col_in(%s) is Some' % (short, r))
            elif bad:
                rep.violation('E26.V3-normalised-whenever-pivot', inst,
                              'LLLHNFCalc::%s can return with row %s holding a pivot that was neither multiplied by its normalising unit nor tested to be normalised (path decided by `%s`): a row whose later partners all have a zero in its pivot column keeps a negative / non-normalised pivot in H' % (short, r, sorted(set(bad))[0]),
                              where=b.where())
            else:
                rep.ok('E26.V3-normalised-whenever-pivot', inst, '%d paths with a pivot, all normalise or find the unit to be one' % have)
