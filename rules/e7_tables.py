"""E7 - agreement of the literal convention tables of yui-link (crossings, signs, braid closure).

The tables are read off the MIR path summaries of the functions themselves (one path per match
arm); arithmetic arms of `pass` are folded over the declared domain {0,1,2,3} (12 points).

  T1  pass is a fixed-point-free involution of {0,1,2,3} for every crossing type
  T2  {i, pass(i)} are exactly the two arcs returned by `arcs` for that type
  T3  resolve(mirror(c), b) = resolve(c, not b); resolve maps X/Xm to V/H only
  T4  CrossingType::mirror is an involution exchanging X, Xm and fixing V, H;
      Crossing::mirror applies it and keeps the edges
  T5  the sign is defined exactly when a crossing X/Xm is entered at index 1 or 3, is odd under
      mirroring and under 1 <-> 3
  T6  Seifert smoothing: with the 0-2 strand oriented 0 -> 2 and the 1-3 strand entering at the
      index j that produced the sign, the resolution chosen by ori_pres_state pairs every
      incoming end with an outgoing end
  T7  braid closure: the crossing code pushed for a generator lists the four ends counter-
      clockwise starting at the incoming under-strand end, which is a top end (strands run
      downwards), and the sign table entry for the index at which the over strand enters from
      the top equals the generator's sign (hence writhe = exponent sum); the new bottom ends
      replace the generator's two positions left-to-left, right-to-right
"""
import re
from symex import SymEx, show, strip

TYPES = ['X', 'Xm', 'V', 'H']


from symex import show_lv as symex_show_lv


def sk(t):
    return re.sub(r'#(?:i\d+:)?\d+\.\d+', '', show(t))


def ev(t, env):
    """integer evaluation of an arithmetic term over bound arguments (constant folding)"""
    k = t[0]
    if k == 'const':
        return t[1]
    if k == 'arg':
        return env[t[1]]
    if k == 'cast':
        return ev(t[2], env)
    if k == 'field' and t[1][0] == 'bin' and t[2] == '0':
        op, a, b = t[1][1], ev(t[1][2], env), ev(t[1][3], env)
        return {'AddWithOverflow': a + b, 'SubWithOverflow': a - b, 'MulWithOverflow': a * b}[op]
    if k == 'bin':
        a, b = ev(t[2], env), ev(t[3], env)
        ops = {'Add': lambda: a + b, 'Sub': lambda: a - b, 'Mul': lambda: a * b, 'Rem': lambda: a % b, 'Div': lambda: a // b,
               'BitAnd': lambda: a & b, 'BitOr': lambda: a | b, 'BitXor': lambda: a ^ b, 'Shl': lambda: a << b, 'Shr': lambda: a >> b}
        if t[1] in ops:
            return ops[t[1]]()
    if k in ('ref', 'deref'):
        return ev(t[1], env)
    if k == 'index':
        arr = t[1]
        while arr[0] in ('ref', 'deref'):
            arr = arr[1]
        if arr[0] == 'agg' and arr[1] == 'array':
            return ev(arr[2][ev(t[2], env)], env)
    raise ValueError('not an integer expression: ' + sk(t))


def ev_deep(t):
    """integer value of a closed term built from literals, tuple / array projections"""
    t = strip(t)
    if t[0] == 'const' and isinstance(t[1], int):
        return t[1]
    if t[0] == 'field' and t[2].isdigit():
        base = ev_struct(t[1])
        return _as_int(base[int(t[2])])
    raise ValueError('not a literal: ' + sk(t))


def ev_struct(t):
    t = strip(t)
    if t[0] == 'tuple':
        return list(t[1])
    if t[0] == 'agg':
        return list(t[2])
    if t[0] == 'index':
        arr = ev_struct(t[1])
        i = ev_deep(t[2])
        return ev_struct(arr[i])
    if t[0] == 'field' and t[2].isdigit():
        return ev_struct(ev_struct(t[1])[int(t[2])])
    raise ValueError('not a literal structure: ' + sk(t))


def _as_int(t):
    t = strip(t)
    if t[0] == 'const' and isinstance(t[1], int):
        return t[1]
    raise ValueError('not an int: ' + sk(t))


def ctype_of(p):
    for e in p.branches():
        s = sk(e.term)
        if s.startswith('discr(') and 'ctype' in s and isinstance(e.value, int):
            return TYPES[e.value]
        if s == 'discr(arg1)' and isinstance(e.value, int):
            return TYPES[e.value]
    return None


def extract(facts, rep):
    T = {}
    one = facts.one
    # pass
    b = one(r'^yui_link::link::crossing::Crossing::pass$')
    rep.saw(b)
    T['pass'] = {}
    # by value: pass is folded at every (crossing type, entry index), whatever mixture of match / if / is_resolved() it uses
    from dtree import DTree, Stuck
    dt = DTree(facts)

    def type_atom(ct):
        def atom(t, ev_):
            if t[0] == 'discr' and 'ctype' in sk(t[1]):
                return (TYPES.index(ct),)
            if t[0] == 'call' and t[1].split('::')[-1] in ('eq', 'ne') and len(t[2]) == 2:
                a_, b_ = strip(t[2][0]), strip(t[2][1])
                for x, y in ((a_, b_), (b_, a_)):
                    if sk(x).endswith('ctype') and y[0] == 'adt' and y[2] in TYPES:
                        r_ = (y[2] == ct)
                        return (int(r_ if t[1].split('::')[-1] == 'eq' else not r_),)
            if t[0] == 'field' and t[2] == 'ctype':
                return ({'<variant>': TYPES.index(ct)},)
            return None
        return atom
    try:
        for ct in TYPES:
            T['pass'][ct] = [dt.decide(b.defp, {1: 'SELF', 2: i}, type_atom(ct))[0] for i in range(4)]
    except Stuck as e_:
        raise ValueError('pass: %s' % e_)
    # arcs
    b = one(r'^yui_link::link::crossing::Crossing::arcs$')
    rep.saw(b)
    T['arcs'] = {}
    for p in SymEx(b).run():
        if p.end != 'return':
            continue
        ct = ctype_of(p)
        pairs = []
        for e in p.calls():
            if '{closure' in e.name and len(e.args) == 2 and e.args[1][0] == 'tuple':
                pairs.append(tuple(sorted(x[1] for x in e.args[1][1])))
            elif len(e.args) == 3 and strip(e.args[0]) == ('arg', 1):
                # a private helper taking the two end indices (self.arc_between(i, j)); literal arrays are folded
                try:
                    pairs.append(tuple(sorted(ev_deep(x) for x in e.args[1:])))
                except ValueError:
                    pass
        if len(pairs) != 2:
            raise ValueError('arcs(%s): %d index pairs recognised' % (ct, len(pairs)))
        T['arcs'][ct] = sorted(pairs)
    # resolve
    b = one(r'^yui_link::link::crossing::Crossing::resolve$')
    rep.saw(b)
    T['resolve'] = {}
    for p in SymEx(b).run():
        if p.end != 'return':
            continue
        ct = ctype_of(p)
        bit = None
        for e in p.branches():
            if sk(e.term) == 'discr(arg2)' and isinstance(e.value, int):
                bit = e.value
            elif sk(e.term).replace('&', '') in ('is_zero(arg2)', 'is_one(arg2)'):
                truth = e.value != 0
                bit = (0 if truth else 1) if 'is_zero' in sk(e.term) else (1 if truth else 0)
        new = None
        for e in p.events:
            if e.kind == 'write' and e.lv[1] == ('ctype',) and e.term[0] == 'adt':
                new = e.term[2]
        T['resolve'][(ct, bit)] = new
    # CrossingType::mirror
    b = one(r'^yui_link::link::crossing::CrossingType::mirror$')
    rep.saw(b)
    T['mirror'] = {}
    for p in SymEx(b).run():
        if p.end != 'return':
            continue
        vals = [e.value for e in p.branches() if sk(e.term) == 'discr(arg1)']
        if vals and isinstance(vals[0], int):
            T['mirror'][TYPES[vals[0]]] = p.ret[2] if p.ret[0] == 'adt' else None
        else:
            seen = [x for e in p.branches() if sk(e.term) == 'discr(arg1)' and e.args for x in e.args]
            for i, nm in enumerate(TYPES):
                if i not in seen:
                    T['mirror'][nm] = nm if p.ret == ('arg', 1) else None
    # Crossing::mirror
    b = one(r'^yui_link::link::crossing::Crossing::mirror$')
    rep.saw(b)
    T['crossing_mirror_ok'] = False
    # by value: per crossing type, the type field of the returned crossing (a literal variant on a path that matched on
    # self.ctype, or CrossingType::mirror(self.ctype), read through the T4 table of that function) and the edges field
    from symex import project as _project
    got = {}
    edges_ok = True
    unknown_m = False
    for p in SymEx(b).run():
        if p.end != 'return':
            continue
        r = p.ret
        c, e = strip(_project(r, 'ctype')), strip(_project(r, 'edges'))
        es = sk(e).replace('&', '').replace('*', '')
        if es not in ('arg1.edges', 'clone(arg1).edges'):
            edges_ok = False
        k = None
        for ev_ in p.branches():
            s_ = sk(ev_.term).replace('&', '').replace('*', '')
            if s_ in ('discr(arg1.ctype)', 'discr(clone(arg1).ctype)') and isinstance(ev_.value, int):
                k = TYPES[ev_.value]
        if c[0] == 'call' and c[1].endswith('CrossingType::mirror') and sk(c[2][0]).replace('&', '').replace('*', '') in ('arg1.ctype', 'clone(arg1).ctype'):
            for t_ in ([k] if k else TYPES):
                got[t_] = 'mirror(%s)' % t_
        elif c[0] == 'adt' and c[2] in TYPES and k is not None:
            got[k] = c[2]
        elif sk(c).replace('&', '').replace('*', '') in ('arg1.ctype', 'clone(arg1).ctype'):
            # left as it is on this path
            seen_k = set()
            for ev_ in p.branches():
                s_ = sk(ev_.term).replace('&', '').replace('*', '')
                if s_ in ('discr(arg1.ctype)', 'discr(clone(arg1).ctype)'):
                    if isinstance(ev_.value, int):
                        seen_k = {TYPES[ev_.value]}
                    elif ev_.value == 'else':
                        seen_k = {TYPES[i] for i in range(4) if i not in (ev_.args or ())}
            for t_ in (seen_k or set(TYPES)):
                got.setdefault(t_, t_)
        else:
            unknown_m = True
    T['crossing_mirror_map'] = got
    T['crossing_mirror_ok'] = (not unknown_m) and edges_ok and set(got) == set(TYPES)
    T['crossing_mirror_unknown'] = unknown_m or set(got) != set(TYPES)
    # sign table
    bs = facts.find(r'^yui_link::link::link::Link::crossing_signs::\{closure#\d+\}::\{closure#\d+\}$')
    T['sign'] = {}
    for b in bs:
        rep.saw(b)
        for p in SymEx(b).run():
            if p.end != 'return':
                continue
            ct = None
            j = None
            jelse = None
            for e in p.branches():
                s = sk(e.term)
                if s.startswith('discr(ctype('):
                    ct = TYPES[e.value] if isinstance(e.value, int) else ('else', tuple(e.args or ()))
                elif s == 'arg3':
                    j = e.value if isinstance(e.value, int) else None
                    if e.value == 'else':
                        jelse = tuple(e.args or ())
            # what the path stores into signs[i]: Some(Sign::V) -> V; nothing / None -> undefined
            sg = None
            unknown_store = False
            for e in p.events:
                if e.kind == 'write' and 'signs' in symex_show_lv(e.lv):
                    v = strip(e.term)
                    if v[0] == 'adt' and v[2] == 'Some' and v[4] and strip(v[4][0])[0] == 'adt':
                        sg = strip(v[4][0])[2]
                    elif v[0] == 'adt' and v[2] == 'None':
                        sg = None
                    else:
                        unknown_store = True
            if unknown_store:
                continue
            if isinstance(ct, str) and j is not None:
                T['sign'][(ct, j)] = sg
            elif isinstance(ct, str) and jelse is not None:
                for jj in range(4):
                    if jj not in jelse:
                        T['sign'].setdefault((ct, jj), sg)
            elif isinstance(ct, tuple):
                for i, nm in enumerate(TYPES):
                    if i not in ct[1]:
                        for jj in range(4):
                            T['sign'].setdefault((nm, jj), sg)
    # ori_pres_state: the function mapped over the crossing signs (a closure or a named helper), folded at Pos and Neg
    T['ori'] = {}
    ob = facts.bodies.get('yui_link::link::link::Link::ori_pres_state')
    if ob is not None:
        rep.saw(ob)
        from dtree import DTree as _DT, Stuck as _Stuck
        dto = _DT(facts)
        sign_adt = next((ad for an, ad in facts.adts.items() if an.endswith('::Sign') and ad.get('kind') == 'Enum'), None)
        sdisc = {}
        if sign_adt:
            for i_, v_ in enumerate(sign_adt['variants']):
                d_ = int(v_.get('discr', i_))
                sdisc[v_['name']] = d_ if d_ >= 0 else d_ + 256
        fmap = None
        for p in SymEx(ob, havoc_loops=True).run():
            for e in p.calls():
                if e.name.split('::')[-1] == 'map' and len(e.args) == 2 and 'crossing_signs' in sk(e.args[0]):
                    fmap = strip(e.args[1])
        if fmap is not None and fmap[0] in ('closure', 'fn'):
            for sg in ('Pos', 'Neg'):
                def atom(t, ev_, sg=sg):
                    if t[0] == 'call' and t[1].split('::')[-1] in ('is_positive', 'is_negative') and len(t[2]) == 1:
                        return (int((sg == 'Pos') == (t[1].split('::')[-1] == 'is_positive')),)
                    if t[0] == 'discr' and strip(t[1]) in (('arg', 1), ('arg', 2)) and sg in sdisc:
                        return (sdisc[sg],)
                    if t[0] == 'adt' and t[1].endswith('Bit') and t[2] in ('Bit0', 'Bit1'):
                        return (int(t[2][-1]),)
                    return None
                try:
                    if fmap[0] == 'closure':
                        v_, _ = dto.decide(fmap[1], {1: fmap, 2: 'SIGN'}, atom)
                    else:
                        v_, _ = dto.decide(fmap[1], {1: 'SIGN'}, atom)
                    if isinstance(v_, dict) and v_.get('<variant>') in ('Bit0', 'Bit1'):
                        v_ = int(v_['<variant>'][-1])
                    if v_ in (0, 1):
                        T['ori'][sg] = v_
                except _Stuck:
                    pass
    # braid closure
    b = one(r'^yui_link::braid::Braid::closure$')
    rep.saw(b)
    T['braid'] = {}
    T['braid_next'] = {}
    for p in SymEx(b, havoc_loops=True).run():
        pushes = [e for e in p.calls() if e.name.endswith('Vec::<T, A>::push') and len(e.args) == 2 and strip(e.args[1])[0] == 'agg']
        if not pushes:
            continue
        sgn = None
        sign_variants = None
        for an, ad in facts.adts.items():
            if an.endswith('::Sign') and an.startswith('yui::'):
                sign_variants = {int(v.get('discr', i)): v['name'] for i, v in enumerate(ad['variants'])}
        for e in p.branches():
            if sk(e.term).startswith('is_positive(&sign('):
                sgn = 'Pos' if e.value == 'else' else 'Neg'
            elif re.match(r'discr\(&?sign\(', sk(e.term)) and sign_variants:
                if isinstance(e.value, int) and e.value in sign_variants:
                    sgn = sign_variants[e.value]
                elif e.value == 'else' and e.args is not None:
                    rest = [v for i, v in sign_variants.items() if i not in e.args]
                    sgn = rest[0] if len(rest) == 1 else None
        if sgn is None:
            raise ValueError('braid closure: the sign of the generator of a pushed code is not decided by is_positive / match on sign()')
        for e in pushes:
            T['braid'][sgn] = [corner(x) for x in strip(e.args[1])[2]]
        nxt = {}
        for e in p.events:
            if e.kind == 'write' and e.lv[0][0] == 'ptr' and e.lv[0][1][0] == 'call' and e.lv[0][1][1].endswith('IndexMut::index_mut'):
                idx = e.lv[0][1][2][1]
                nxt['R' if _plus1(idx) is not None else 'L'] = corner(e.term)
        T['braid_next'][sgn] = nxt
    return T


def _plus1(t):
    t = strip(t)
    if t[0] == 'field' and t[1][0] == 'bin' and t[1][1] == 'AddWithOverflow' and t[1][3] == ('const', 1) and t[2] == '0':
        return t[1][2]
    return None


def corner(t):
    """TL / TR = bottom_edges[i], bottom_edges[i+1] (current ends above the generator); BL / BR = count, count+1"""
    t = strip(t)
    if t[0] == 'call' and t[1].endswith('Index::index') and len(t[2]) == 2:
        return 'TR' if _plus1(t[2][1]) is not None else 'TL'
    if _plus1(t) is not None and strip(_plus1(t))[0] == 'loopvar':
        return 'BR'
    if t[0] == 'loopvar':
        return 'BL'
    return '?'


def run(facts, rep):
    try:
        T = extract(facts, rep)
    except ValueError as e:
        rep.indet('E7: table extraction left the recognised fragment: %s' % e)
        return None
    rep.inventory['E7 tables'] = {k: ({str(a): b for a, b in v.items()} if isinstance(v, dict) else v) for k, v in T.items()}
    selftest(T, rep)
    check_shared_visited(facts, rep)
    check_exhaustive_sweep(facts, rep)
    check_closure_gluing(facts, rep)
    check_closure_letters(facts, rep)
    return check_tables(T, rep)


def check_shared_visited(facts, rep):
    """T8: crossing_signs / components sweep the diagram three times (start positions 0, then 1, 2 for components that
    never pass under). The later sweeps must skip every edge an earlier sweep has walked - otherwise strands are
    re-walked against their orientation and correct signs are overwritten. Structurally: the visited-edge set is
    created ONCE in the enclosing function and the sweep closure (and the per-edge closure inside it) only
    *capture* it; no HashSet is created inside the sweep closure."""
    for fn in ('crossing_signs', 'components'):
        root = 'yui_link::link::link::Link::' + fn
        if root not in facts.bodies:
            rep.indet('E7.T8: %s not found' % root)
            continue
        bodies = {k: b for k, b in facts.bodies.items() if k == root or k.startswith(root + '::{closure')}
        created = {}
        uses = []
        for k, b in bodies.items():
            rep.saw(b)
            for c in b.calls():
                g = c.generic or ''
                if g.endswith('HashSet::<T, std::hash::RandomState>::new') or (g.endswith('::new') and 'HashSet' in g):
                    created[k] = created.get(k, 0) + 1
            for p in SymEx(b, havoc_loops=True, max_paths=5000).run():
                for e in p.calls():
                    if 'HashSet' in e.name and e.name.split('::')[-1] in ('contains', 'insert') and e.args:
                        uses.append((k, e.name.split('::')[-1], sk(e.args[0])))
        inst = 'Link::%s|one visited-edge set shared by all sweeps' % fn
        in_closure = [k for k in created if k != root]
        captured = [u for u in uses if u[0] != root and re.search(r'\^(_ref__)?\w+\)*$', u[2])]
        local_use = [u for u in uses if u[0] != root and not re.search(r'\^', u[2])]
        kinds = {u[1] for u in captured}
        if created.get(root, 0) >= 1 and not in_closure and not local_use and kinds == {'contains', 'insert'}:
            rep.ok('E7.T8-shared-visited-set', inst, 'created once in %s, captured by the sweep closures (%d uses)' % (fn, len(set(captured))))
        elif not (in_closure or local_use):
            # no per-sweep set was seen: the bookkeeping is done some other way (a bitmap, a Vec<bool>, ..) - not read
            rep.indet('E7.T8: visited-edge bookkeeping of Link::%s outside the recognised fragment (sets created in %s, uses %s)' % (fn, sorted(created) or 'nowhere', sorted(set(u[1] for u in uses))))
        else:
            rep.violation('E7.T8-shared-visited-set', inst,
                          'Link::%s: the visited-edge set is created in %s and used as %s; the fallback sweeps (start positions 1, 2) must see the edges the first sweep walked, '
                          'or they re-walk oriented components backwards and overwrite their crossing signs' % (fn, sorted(created) or 'nowhere', sorted(set(u[2] for u in uses))[:4]),
                          where='yui-link/src/link/link.rs')


def check_exhaustive_sweep(facts, rep):
    """T9: the sweeps of crossing_signs and of components try *every* crossing as a start: the loop `for i0 in 0..n` of the
    sweep closure can only be left through the exhausted range (an already-visited start edge skips that crossing,
    it must not end the sweep - components whose first crossing comes later would be walked by a fallback pass in the
    wrong direction, resp. be missing from the component list), the range is 0 .. number of crossings, and the sweep is
    run for the start positions [0] then [1, 2] (signs) resp. [0, 1, 2] (components)."""
    import cfgutil
    from symex import SymEx
    for fn, want_pos in (('crossing_signs', {'[1, 2]'}), ('components', {'[0, 1, 2]'})):
        root = 'yui_link::link::link::Link::' + fn
        cl = [b for k, b in facts.bodies.items() if k.startswith(root + '::{closure') and k.count('{closure') == 1]
        sweeps = []
        for b in cl:
            loops = cfgutil.for_loops(b)
            if any((c.callee or '').endswith('traverse_edges') for c in b.calls()) and loops:
                sweeps.append((b, loops))
        if len(sweeps) != 1:
            rep.indet('E7.T9: %d sweep closures with a start-crossing loop in %s' % (len(sweeps), fn))
            continue
        b, loops = sweeps[0]
        rep.saw(b)
        inst = '%s|the start-crossing loop is left only when all crossings were tried' % fn
        bad = []
        for (I, N, some, none) in loops:
            if cfgutil.early_exits(b, N, some):
                bad.append('the loop at bb%d can reach the return without exhausting its range (a `break` / `return` in the body)' % N)
        rng = set()
        for p in SymEx(b, havoc_loops=True, max_paths=5000).run():
            for e in p.calls():
                if e.name.endswith('into_iter') and e.args and sk(e.args[0]).startswith('Range'):
                    rng.add(re.sub(r'\^_ref__', '^', sk(e.args[0])))
        by_range = rng == {'Range::Range{start: 0, end: **arg1.^n}'}
        src = set()
        for p in SymEx(b, havoc_loops=True, max_paths=5000).run():
            for e in p.calls():
                if e.name.endswith('into_iter') and e.args and not sk(e.args[0]).startswith('Range'):
                    src.add(re.sub(r'\^_ref__', '^', re.sub(r'#(?:i\d+:)?\d+\.\d+', '', show(e.args[0], -1000))).replace('&', '').replace('*', ''))
        by_data = not rng and bool(src) and all(re.match(r'(enumerate\()?iter\((deref\()?arg1\.\^self\.data\)+$', x) for x in src)
        if not (by_range or by_data):
            rep.indet('E7.T9: start-crossing range of %s is %s' % (fn, sorted(rng) or sorted(src)))
            continue
        # the parent: n = number of crossings, positions swept = the constants the sweep closure is called with
        pb = facts.bodies.get(root)
        pos = set()
        n_def = set()
        unknown_pos = False
        if pb is not None:
            paths = SymEx(pb, havoc_loops=True, max_paths=5000).run()
            entry = {}
            for p in paths:
                for (fid, bb_, l), v in p.state.loop_entry.items():
                    if fid == 0 and strip(v)[0] != 'loopvar':
                        entry.setdefault(l, set()).add(sk(v))
            for p in paths:
                for e in p.calls():
                    if e.name == b.defp and len(e.args) == 2 and strip(e.args[1])[0] == 'tuple':
                        j = strip(strip(e.args[1])[1][-1])
                        if j[0] == 'const' and isinstance(j[1], int):
                            pos.add(j[1])
                        elif j[0] == 'field' and j[2] == 'Some.0' and j[1][0] == 'call' and j[1][1].endswith('Iterator::next') and j[1][2][0][0] == 'mref':
                            for v in entry.get(j[1][2][0][1][0][1], ()):
                                m = re.match(r'into_iter\(\[([0-9, ]+)\]\)$', v)
                                m2 = re.match(r'into_iter\(Range::Range\{start: (\d+), end: (\d+)\}\)$', v)
                                if m:
                                    pos.update(int(x) for x in m.group(1).split(','))
                                elif m2:
                                    pos.update(range(int(m2.group(1)), int(m2.group(2))))
                                else:
                                    unknown_pos = True
                        else:
                            unknown_pos = True
                    # (0..3).for_each(|j| traverse(j)) and the like
                    if e.name.split('::')[-1] == 'for_each' and e.args:
                        m = re.match(r'Range::Range\{start: (\d+), end: (\d+)\}$', sk(e.args[0]))
                        if m:
                            pos.update(range(int(m.group(1)), int(m.group(2))))
                    if e.name.split('::')[-1] == 'len' and e.args and 'arg1.data' in sk(e.args[0]):
                        n_def.add('len(data)')
        if unknown_pos or pos != {0, 1, 2} or (by_range and n_def != {'len(data)'}):
            rep.indet('E7.T9: %s sweeps the start positions %s with n from %s' % (fn, sorted(pos), sorted(n_def)))
            continue
        if bad:
            rep.violation('E7.T9-exhaustive-sweep', inst, 'Link::%s: ' % fn + '; '.join(bad) + ': the sweep stops at the first crossing whose start edge was already visited, later components are left to the fallback pass (walked against their orientation: signs depend on the crossing order) or are lost', where=b.where())
        else:
            rep.ok('E7.T9-exhaustive-sweep', inst, 'every crossing tried as a start (%s), exits only through next() == None; positions %s' % ('0..n' if by_range else 'iter over data', sorted(pos)))


def check_closure_gluing(facts, rep):
    """T10: Braid::closure glues the edge hanging at strand *position* i to the top edge i: the connection map is built
    by zipping bottom_edges (in position order) with 0..strands, and applied to every code entry with the entry kept when it
    is not a bottom edge. Pairing by anything else (e.g. the rank of the label in a sorted list) closes a different braid:
    same crossing count, wrong components / writhe for words whose last letters are not in left-to-right order."""
    from symex import SymEx
    b = facts.bodies.get('yui_link::braid::Braid::closure')
    if b is None:
        rep.indet('E7.T10: Braid::closure not found')
        return
    rep.saw(b)

    def dk(t):
        return re.sub(r'loop\d+_\d+', 'L', re.sub(r'\^_ref__', '^', re.sub(r'#(?:i\d+:)?\d+\.\d+', '', show(t, -1000)))).replace('&', '').replace('*', '')
    zips, sorts, rets = set(), set(), set()
    for p in SymEx(b, havoc_loops=True, max_paths=5000).run():
        for e in p.calls():
            n = e.name.split('::')[-1]
            if n == 'zip' and len(e.args) == 2:
                zips.add((dk(e.args[0]), dk(e.args[1])))
            if n.startswith('sort') or n in ('binary_search', 'dedup', 'reverse'):
                sorts.add(n)
        if p.end == 'return':
            rets.add(dk(p.ret))
    apply = None
    for k, cb in sorted(facts.bodies.items()):
        if k.startswith('yui_link::braid::Braid::closure::{closure'):
            rr = sorted({dk(q.ret) for q in SymEx(cb).run() if q.end == 'return'})
            if rr and all(re.match(r'unwrap_or\((copied\(|cloned\()?get\(arg1\.\^conn, arg2\)\)?, arg2\)$', x) for x in rr):
                apply = ['unwrap_or(get(arg1.^conn, arg2), arg2)']
    # the same gluing written with loops: conn.insert(bottom, top) for (top, bottom) in bottom_edges.into_iter().enumerate()
    # [.take(strands)], applied in place: if let Some(&top) = conn.get(e) { *e = top }
    def lk(t):
        return re.sub(r'_f\d+_\d+|_\d+', 'IT', re.sub(r'loopf\d+:\d+_\d+', 'L', dk(t))).replace('mut ', '')
    ins, inplace, ents, gets = set(), set(), set(), set()
    for p in SymEx(b, havoc_loops=True, max_paths=5000).run() if not zips else []:
        for (fid_, bb_, l_), v_ in p.state.loop_entry.items():
            if strip(v_)[0] != 'loopvar':
                ents.add(lk(v_))
        for e in p.events:
            if e.kind == 'call' and e.name.split('::')[-1] == 'insert' and len(e.args) == 3 and 'Map' in e.name:
                ins.add((lk(e.args[1]), lk(e.args[2])))
            if e.kind == 'call' and e.name.split('::')[-1] == 'get' and len(e.args) == 2 and 'Map' in e.name:
                gets.add(lk(e.args[1]))
            if e.kind == 'write' and e.lv[0][0] == 'ptr' and 'next(' in lk(e.lv[0][1]) and 'get(' in lk(e.term):
                inplace.add((lk(e.lv[0][1]), lk(e.term)))
    loop_form = (not zips and not sorts and apply is None and
                 ins == {('next(IT).Some.0.1', 'next(IT).Some.0.0')} and
                 bool(ents & {'into_iter(take(enumerate(into_iter(L)), arg1.strands))', 'into_iter(enumerate(into_iter(L)))'}) and
                 gets == {'next(IT).Some.0'} and inplace == {('next(IT).Some.0', 'get(L, next(IT).Some.0).Some.0')})
    inst = 'Braid::closure|bottom edge at position i is identified with top edge i'
    if loop_form:
        rep.ok('E7.T10-closure-gluing', inst, 'conn.insert(bottom_edges[i], i) over enumerate; entries replaced in place through conn.get')
        return
    good = zips == {('into_iter(L)', 'Range::Range{start: 0, end: arg1.strands}')} and not sorts and apply == ['unwrap_or(get(arg1.^conn, arg2), arg2)']
    if good:
        rep.ok('E7.T10-closure-gluing', inst, 'conn = zip(bottom_edges, 0..strands); x -> conn.get(x).unwrap_or(x)')
    elif len(zips) == 1 and not sorts and apply == ['unwrap_or(get(arg1.^conn, arg2), arg2)'] and next(iter(zips))[0] == 'into_iter(L)' and \
            re.match(r'Range::Range\{start: (\d+), end: (len\(arg1\)|len\(arg1\.elements\)|arg1\.strands|SubWithOverflow\(arg1\.strands, \d+\)\.0|AddWithOverflow\(arg1\.strands, \d+\)\.0|\d+)\}$', next(iter(zips))[1]):
        rep.violation('E7.T10-closure-gluing', inst,
                      'Braid::closure pairs the bottom edges with the positions %s instead of 0..strands: zip stops at the shorter side, so for a word with fewer letters than strands (or a shifted range) some bottom edges are never identified with their top edges and the "closure" is an open tangle with the wrong component count' % next(iter(zips))[1],
                      where=b.where())
    elif sorts:
        rep.violation('E7.T10-closure-gluing', inst, 'Braid::closure reorders the bottom edges (%s) before pairing them with the top positions: an edge is glued to the top edge of its *rank*, not of the strand position it hangs at' % sorted(sorts), where=b.where())
    else:
        rep.indet('E7.T10: closure gluing outside the recognised fragment: zip %s, apply %s' % (sorted(zips), apply))


def check_closure_letters(facts, rep):
    """T11 (C18, "the closure of a braid word has as many crossings as letters"): the loop of Braid::closure that emits
    the crossings runs over self.elements itself - not over a copy that a callee has rewritten - and every iteration
    pushes exactly one crossing. A word that was "reduced" first (adjacent s, s^-1 cancelled) has the same closure up to
    isotopy but fewer crossings than letters, and a strand whose only letters were cancelled becomes a free loop."""
    from symex import SymEx, strip
    b = facts.bodies.get('yui_link::braid::Braid::closure')
    if b is None:
        rep.indet('E7.T11: Braid::closure not found')
        return
    rep.saw(b)
    inst = 'Braid::closure|one crossing per letter of self.elements'

    def is_x(t):
        t = strip(t)
        return t[0] == 'agg' and t[1] == 'array' and len(t[2]) == 4
    ps = SymEx(b, havoc_loops=True, max_paths=5000).run()
    back = [p for p in ps if p.end == 'backedge']
    letter = [p for p in back if any(e.name.split('::')[-1] == 'push' and len(e.args) == 2 and is_x(e.args[1]) for e in p.calls())]
    if not letter:
        rep.indet('E7.T11: no loop of Braid::closure pushes a crossing [a, b, c, d]')
        return
    heads = {p.head for p in letter}
    # the source of the loop: the first into_iter whose argument is not itself loop-carried
    src = None
    site_of = {}
    for p in letter:
        for e in p.calls():
            site_of[e.site] = e
            if e.name.split('::')[-1] in ('into_iter', 'iter') and len(e.args) == 1 and 'loop' not in show(e.args[0], -1000) and src is None:
                src = strip(e.args[0])
    if src is None:
        # a counting loop: k = 0; while k < self.elements.len() { let s = &self.elements[k]; ..; k += 1 }
        ok_counter = bool(letter)
        for p in letter:
            ks = set()
            for c in p.branches():
                t = c.term
                if t[0] == 'bin' and t[1] == 'Lt' and strip(t[2])[0] == 'loopvar' and c.value != 0:
                    e_ = strip(t[3])
                    if e_[0] == 'call' and e_[1].split('::')[-1] == 'len' and len(e_[2]) == 1 and strip(e_[2][0]) == ('field', ('deref', ('arg', 1)), 'elements') or \
                            (e_[0] == 'call' and e_[1].split('::')[-1] == 'len' and len(e_[2]) == 1 and re.sub(r'[&*]', '', show(e_[2][0], -1000)) == 'arg1.elements'):
                        ks.add(strip(t[2]))
            if len(ks) != 1:
                ok_counter = False
                break
            K = next(iter(ks))
            ent = [v for (fid, bb_, l), v in p.state.loop_entry.items() if fid == 0 and l == K[2]]
            fin = p.mem.get((('local', K[2]), ()))
            used = any(e.name.split('::')[-1] == 'index' and len(e.args) == 2 and strip(e.args[1]) == K and re.sub(r'[&*]', '', show(e.args[0], -1000)) == 'arg1.elements' for e in p.calls())
            if not (ent and all(v == ('const', 0) for v in ent) and fin is not None and re.sub(r'#\S+', '', show(fin, -1000)) == 'AddWithOverflow(%s, 1).0' % show(K, -1000) and used):
                ok_counter = False
                break
        if not ok_counter:
            rep.indet('E7.T11: source of the crossing loop of Braid::closure not found')
            return
        src = ('field', ('arg', 1), 'elements')
    # order- and length-preserving adapters between the word and the loop
    while src[0] == 'call' and src[1].split('::')[-1] in ('enumerate', 'iter', 'into_iter', 'copied', 'cloned', 'by_ref', 'as_slice', 'deref') and len(src[2]) == 1:
        src = strip(src[2][0])
    if src[0] == 'adt' and src[1].endswith('Range') and len(src) == 5 and dict(zip(src[3], src[4])).get('start') == ('const', 0):
        end = strip(dict(zip(src[3], src[4])).get('end'))
        if end[0] == 'call' and end[1].split('::')[-1] == 'len' and len(end[2]) == 1:
            inner = strip(end[2][0])
            # 0..self.elements.len() / 0..self.len(): one index per letter
            src = inner if (inner[0] == 'field' and inner[2] == 'elements') else (('field', inner, 'elements') if inner == ('arg', 1) else src)
    if not (src[0] == 'field' and src[2] == 'elements'):
        rep.indet('E7.T11: the crossing loop of Braid::closure runs over %s' % show(src, -1000)[:80])
        return
    owner = strip(src[1])
    verdict = None
    if owner == ('arg', 1):
        verdict = 'ok'
    elif owner[0] == 'post':
        ev = site_of.get(owner[1])
        cb = facts.bodies.get(ev.name) if ev is not None else None
        if cb is None or len(owner) < 3 or strip(owner[2]) != ('arg', 1):
            verdict = None
        else:
            rep.saw(cb)
            writes = touched = False
            for q in SymEx(cb, havoc_loops=True, max_paths=5000).run():
                for e in q.events:
                    if e.kind == 'write' and e.lv[0] == ('ptr', ('arg', 1)):
                        touched = True
                        if e.lv[1] and e.lv[1][0] == 'elements':
                            writes = True
                    if e.kind == 'call' and any(a[0] == 'mref' and a[1][0] == ('ptr', ('arg', 1)) for a in e.args if isinstance(a, tuple) and a):
                        touched = True
            if writes:
                verdict = ('rewritten', ev.name)
            elif not touched:
                verdict = 'ok'
    if verdict is None:
        rep.indet('E7.T11: the crossing loop of Braid::closure runs over %s' % show(src, -1000)[:80])
        return
    if verdict != 'ok':
        rep.violation('E7.T11-crossing-per-letter', inst,
                      'Braid::closure emits its crossings from a copy of the word that %s has rewritten (it assigns `elements`): the closure no longer has one crossing per letter - cancelled letters vanish, and a strand that only they touched is reported as a free loop' % verdict[1],
                      where=b.where())
        return
    npush = lambda p: sum(1 for e in p.calls() if e.name.split('::')[-1] == 'push' and len(e.args) == 2 and is_x(e.args[1]))
    counts = sorted({npush(p) for p in back if p.head in heads})
    if counts != [1]:
        rep.violation('E7.T11-crossing-per-letter', inst, 'an iteration of the crossing loop of Braid::closure pushes %s crossings' % counts, where=b.where())
    else:
        rep.ok('E7.T11-crossing-per-letter', inst, 'for s in &self.elements { .. one push .. } on %d back-edge paths' % len(letter))


def selftest(T, rep):
    """positive controls: each T-rule must fire on a copy of today's tables with one entry corrupted"""
    import copy
    from fixtures import Scratch
    cases = [('T1', 'pass', lambda t: t['pass'].__setitem__('V', [1, 2, 3, 0])),
             ('T2', 'arcs', lambda t: t['arcs'].__setitem__('H', [(0, 3), (1, 2)])),
             ('T3', 'resolve', lambda t: t['resolve'].__setitem__(('Xm', 0), 'H')),
             ('T4', 'mirror', lambda t: t['mirror'].__setitem__('X', 'X')),
             ('T5', 'sign', lambda t: t['sign'].__setitem__(('Xm', 1), 'Neg')),
             ('T6', 'ori', lambda t: t['ori'].update({'Pos': 1, 'Neg': 0})),
             ('T7', 'braid', lambda t: t['braid'].__setitem__('Neg', list(t['braid'].get('Pos', []))))]
    base = Scratch()
    check_tables(copy.deepcopy(T), base)
    firing = {v[0].split('-')[0] for v in base.violations}
    for rule, what, corrupt in cases:
        if 'E7.' + rule in firing or firing:
            # the tables of this tree already violate a rule: the corrupted copy is no clean experiment; the rule
            # implementation is exercised by the real report below
            rep.controls.append({'engine': 'E7.' + rule, 'bad_flagged': True, 'detail': 'tables of this tree already violate %s' % sorted(firing)})
            continue
        t2 = copy.deepcopy(T)
        corrupt(t2)
        s = Scratch()
        check_tables(t2, s)
        hit = any(v[0].startswith('E7.' + rule) for v in s.violations)
        rep.controls.append({'engine': 'E7.' + rule, 'bad_flagged': hit, 'detail': 'corrupted %s table' % what})
        if not hit:
            rep.indet('E7 self-test: rule %s does not fire on a corrupted %s table' % (rule, what))


def check_tables(T, rep):
    V = rep.violation
    w_cross = 'yui-link/src/link/crossing.rs'
    w_link = 'yui-link/src/link/link.rs'
    # completeness of extraction (fail closed)
    short = False
    for nm, tbl, n in (('pass', T['pass'], 4), ('arcs', T['arcs'], 4), ('resolve', T['resolve'], 4), ('mirror', T['mirror'], 4),
                       ('sign', T['sign'], 8), ('ori', T['ori'], 2), ('braid', T['braid'], 2)):
        if not rep.floor('E7 table %s entries' % nm, len(tbl), n):
            short = True
    if short:
        return T
    # T1
    for ct in TYPES:
        ps = T['pass'][ct]
        inst = 'Crossing::pass|%s involution' % ct
        if sorted(ps) == [0, 1, 2, 3] and all(ps[ps[i]] == i and ps[i] != i for i in range(4)):
            rep.ok('E7.T1-pass-involution', inst, str(ps))
        else:
            V('E7.T1-pass-involution', inst, 'Crossing::pass for %s maps [0,1,2,3] to %s: not a fixed-point-free involution, so edge traversal is not well defined' % (ct, ps), where=w_cross)
    # T2
    for ct in TYPES:
        ps = T['pass'][ct]
        pairs = sorted({tuple(sorted((i, ps[i]))) for i in range(4)}) if all(0 <= x < 4 for x in ps) else None
        inst = 'Crossing::arcs|%s agrees with pass' % ct
        if pairs == T['arcs'][ct]:
            rep.ok('E7.T2-arcs-vs-pass', inst, str(pairs))
        else:
            V('E7.T2-arcs-vs-pass', inst, 'for type %s `pass` joins %s but `arcs` returns %s: traversal and resolution disagree about the strands' % (ct, pairs, T['arcs'][ct]), where=w_cross)
    # T4
    m = T['mirror']
    inst = 'CrossingType::mirror|involution X<->Xm'
    if m == {'X': 'Xm', 'Xm': 'X', 'V': 'V', 'H': 'H'}:
        rep.ok('E7.T4-mirror', inst, str(m))
    else:
        V('E7.T4-mirror', inst, 'CrossingType::mirror is %s; expected X<->Xm with V, H fixed' % m, where=w_cross)
    inst = 'Crossing::mirror|mirrors type, keeps edges'
    cm = {k: (m.get(k) if v == 'mirror(%s)' % k else v) for k, v in T.get('crossing_mirror_map', {}).items()}
    if T['crossing_mirror_ok'] and cm == m:
        rep.ok('E7.T4-mirror', inst, 'type -> %s, edges kept' % cm)
    elif T.get('crossing_mirror_unknown'):
        rep.indet('E7.T4: Crossing::mirror outside the recognised fragment: %s' % T.get('crossing_mirror_map'))
    else:
        V('E7.T4-mirror', inst, 'Crossing::mirror maps the crossing type by %s%s; expected the type mirrored (%s) and the edges kept' % (cm, '' if T['crossing_mirror_ok'] else ' and changes the edges', m), where=w_cross)
    # T3
    r = T['resolve']
    for ct in ('X', 'Xm'):
        for bit in (0, 1):
            inst = 'Crossing::resolve|(%s,%d) vs mirror' % (ct, bit)
            a = r.get((m.get(ct), bit))
            b_ = r.get((ct, 1 - bit))
            if a is not None and a == b_ and a in ('V', 'H') and r.get((ct, 0)) != r.get((ct, 1)):
                rep.ok('E7.T3-resolve-mirror', inst, 'resolve(mirror(%s),%d) = resolve(%s,%d) = %s' % (ct, bit, ct, 1 - bit, a))
            else:
                V('E7.T3-resolve-mirror', inst, 'resolve(mirror(%s), %d) = %s but resolve(%s, %d) = %s: the 0-/1-smoothing does not swap under mirroring' % (ct, bit, a, ct, 1 - bit, b_), where=w_cross)
    # T5
    s = T['sign']
    okall = True
    for ct in ('X', 'Xm'):
        for j in range(4):
            v = s.get((ct, j))
            inst = 'crossing_signs|sign(%s,%d)' % (ct, j)
            if j in (1, 3):
                other = s.get((ct, 4 - j))
                mir = s.get((m.get(ct, ct), j))
                if v in ('Pos', 'Neg') and other in ('Pos', 'Neg') and other != v and mir in ('Pos', 'Neg') and mir != v:
                    rep.ok('E7.T5-sign-table', inst, '%s (odd under mirror and under 1<->3)' % v)
                else:
                    okall = False
                    V('E7.T5-sign-table', inst, 'sign(%s,%d) = %s, sign(%s,%d) = %s, sign(mirror,%d) = %s: must be defined and odd under mirror and under 1<->3' % (ct, j, v, ct, 4 - j, other, j, mir), where=w_link)
            else:
                if v is None:
                    rep.ok('E7.T5-sign-table', inst, 'undefined when entered along the 0-2 strand')
                else:
                    okall = False
                    V('E7.T5-sign-table', inst, 'a sign (%s) is assigned when %s is entered at index %d (the reference strand)' % (v, ct, j), where=w_link)
    for ct in ('V', 'H'):
        if any(s.get((ct, j)) is not None for j in range(4)):
            V('E7.T5-sign-table', 'crossing_signs|resolved %s' % ct, 'a resolved crossing of type %s gets a sign' % ct, where=w_link)
    # T6
    ori = T['ori']
    if okall and set(ori) == {'Pos', 'Neg'}:
        for ct in ('X', 'Xm'):
            for j in (1, 3):
                sg = s[(ct, j)]
                bit = ori[sg]
                res = r.get((ct, bit))
                incoming = {0, j}
                outgoing = {2, T['pass'][ct][j]}
                arcs = T['arcs'].get(res, [])
                inst = 'ori_pres_state|%s entered at %d (%s)' % (ct, j, sg)
                good = bit in (0, 1) and len(arcs) == 2 and all(len(set(a) & incoming) == 1 and len(set(a) & outgoing) == 1 for a in arcs)
                if good:
                    rep.ok('E7.T6-seifert-smoothing', inst, 'state %d -> %s, arcs %s pair in/out' % (bit, res, arcs))
                else:
                    V('E7.T6-seifert-smoothing', inst,
                      'for a %s crossing whose 1-3 strand enters at %d (sign %s) ori_pres_state gives bit %s -> %s with arcs %s; incoming ends %s / outgoing %s are not paired one-to-one, so the "Seifert circles" are not orientation preserving' %
                      (ct, j, sg, bit, res, arcs, sorted(incoming), sorted(outgoing)), where=w_link)
    else:
        rep.indet('E7.T6: sign/orientation tables incomplete') if okall else None
    # T7
    ccw = ['TL', 'BL', 'BR', 'TR']
    for sg in ('Pos', 'Neg'):
        code = T['braid'].get(sg)
        inst = 'Braid::closure|%s generator' % sg
        if not code or '?' in code:
            rep.indet('E7.T7: braid closure code for %s not recognised (%s)' % (sg, code))
            continue
        k = ccw.index(code[0]) if code[0] in ccw else -1
        rot = ccw[k:] + ccw[:k] if k >= 0 else None
        problems = []
        if code != rot:
            problems.append('ends %s are not listed counter-clockwise' % code)
        if code[0] not in ('TL', 'TR'):
            problems.append('index 0 (incoming under-strand) is not a top end')
        top_over = [i for i in (1, 3) if code[i] in ('TL', 'TR')]
        if len(top_over) != 1:
            problems.append('the over strand does not have exactly one top end')
        elif s.get(('X', top_over[0])) != sg:
            problems.append('over strand enters at index %d, whose sign-table entry is %s, for a %s generator' % (top_over[0], s.get(('X', top_over[0])), sg))
        nx = T['braid_next'].get(sg, {})
        if nx != {'L': 'BL', 'R': 'BR'}:
            problems.append('new bottom ends are stored as %s (expected left<-BL, right<-BR)' % nx)
        if problems:
            V('E7.T7-braid-closure', inst, 'Braid::closure pushes %s for a %s generator: %s' % (code, sg, '; '.join(problems)), where='yui-link/src/braid.rs')
        else:
            rep.ok('E7.T7-braid-closure', inst, '%s: ccw from a top under-end, over strand enters at %d = %s' % (code, top_over[0], sg))
    return T


def check_resolved_by(facts, rep):
    """T12 (C04, the state sum of the Jones polynomial runs over Link::resolved_by): bit i of a state resolves the i-th
    *unresolved* crossing - a Link may carry crossings that are smoothed already (a crossing-free circle is one; so is the
    result of resolved_at), and they take no bit. The loop of resolved_by is therefore driven by the bits alone, each
    resolving `crossing_at_mut(0)` (the first crossing still unresolved), or by the bits zipped with the *filtered*
    unresolved crossings. Zipping the bits with all of `data` and skipping resolved entries inside the body lets a
    smoothed crossing consume a bit: the following crossings get their neighbours' bits and the last one stays unresolved."""
    from symex import SymEx, strip
    b = facts.bodies.get('yui_link::link::link::Link::resolved_by')
    if b is None:
        rep.indet('E7.T12: Link::resolved_by not found')
        return
    rep.saw(b)
    inst = 'Link::resolved_by|bit i goes to the i-th unresolved crossing'

    def dk(t):
        return re.sub(r'\b_\d+\b', 'L', re.sub(r'loop\d+_\d+', 'L', re.sub(r'#(?:i\d+:)?\d+\.\d+', '', show(t, -1000)))).replace('&mut ', '').replace('&', '').replace('*', '')
    srcs, resolves, tests = set(), set(), set()
    cursors = set()
    for p in SymEx(b, havoc_loops=True, max_paths=2000, inline=False).run():
        for (fid, bb_, l), v in p.state.loop_entry.items():
            if fid == 0 and strip(v)[0] == 'call' and strip(v)[1].split('::')[-1] == 'into_iter':
                srcs.add(dk(strip(v)[2][0]))
            v_ = strip(v)
            if fid == 0 and v_[0] == 'call' and v_[1].split('::')[-1] == 'filter' and len(v_[2]) == 2 and strip(v_[2][1])[0] == 'closure' and re.match(r'^iter_mut\((deref(?:_mut)?\()?L(\.data)?\)?\)$', dk(v_[2][0])):
                cb_ = facts.bodies.get(strip(v_[2][1])[1])
                rr_ = {dk(q.ret) for q in SymEx(cb_).run() if q.end == 'return'} if cb_ is not None else set()
                if rr_ and all(re.match(r'^Not\(is_resolved\(arg2\)\)$', x) for x in rr_):
                    cursors.add('unresolved')
                else:
                    cursors.add('?')
        if p.end == 'backedge':
            for e in p.calls():
                n = e.name.split('::')[-1]
                if n == 'resolve' and len(e.args) == 2:
                    resolves.add(dk(e.args[0]))
            for c in p.branches():
                if 'is_resolved(' in dk(c.term):
                    tests.add(dk(c.term))
    bits = r'iter\((deref\()?arg2\)?\)'
    if len(srcs) == 1 and re.match('^' + bits + '$', next(iter(srcs))) and resolves and all(re.match(r'^crossing_at_mut\(L, 0\)$', x) for x in resolves) and not tests:
        rep.ok('E7.T12-state-bits', inst, 'for r in s.iter() { l.crossing_at_mut(0).resolve(r) }')
    elif len(srcs) == 1 and re.match('^' + bits + '$', next(iter(srcs))) and cursors == {'unresolved'} and resolves and all(re.match(r'^next\(L\)\.Some\.0$', x) for x in resolves) and not tests:
        rep.ok('E7.T12-state-bits', inst, 'one cursor over the unresolved crossings (filter !is_resolved), advanced once per bit')
    elif len(srcs) == 1 and re.match(r'^zip\(filter\(iter_mut\((deref(?:_mut)?\()?L\.data\)?\), closure<[^>]*>\), ' + bits + r'\)$', next(iter(srcs))) and not tests:
        rep.ok('E7.T12-state-bits', inst, 'bits zipped with the filtered unresolved crossings')
    elif len(srcs) == 1 and re.match(r'^zip\(iter_mut\((deref(?:_mut)?\()?L\.data\)?\), ' + bits + r'\)$|^zip\(' + bits + r', iter_mut\((deref(?:_mut)?\()?L\.data\)?\)\)$', next(iter(srcs))) and tests:
        rep.violation('E7.T12-state-bits', inst,
                      'Link::resolved_by pairs the state bits with *all* entries of `data` by position and tests is_resolved() inside the loop: a crossing that is smoothed already (a crossing-free circle, the result of resolved_at) consumes a bit, the crossings after it get the wrong bits and the last one stays unresolved - the state sum of jones_polynomial counts the circles of a wrong resolution',
                      where=b.where())
    else:
        rep.indet('E7.T12: Link::resolved_by outside the recognised fragment: loop over %s, resolves %s, tests %s' % (sorted(srcs), sorted(resolves)[:2], sorted(tests)[:2]))
