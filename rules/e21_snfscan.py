"""E21 - the divisibility chain of the Smith normal form is the exit condition of a scan-to-fixpoint loop (C09).

SnfCalc::diag_normalize repeats `for i in 0..r-1 { if !step(i) { restart } }` until a whole pass answers true.
"each diagonal entry divides the next" holds at the exit iff
  N1  diag_normalize_step(i) answers true only on paths that (a) took the branch  d[i].divides(d[i+1])  for the
      diagonal entries (i, i) and (i+1, i+1) and (b) did not modify the calculator (no call with &mut self);
      every path that modifies it answers false;
  N2  in diag_normalize a false answer leads back to a *fresh* range starting at 0 before any further step call or
      any exit from the loop (a modification at i can break the pair (i-1, i): continuing the pass, or leaving, with
      a false answer skips the re-check); a true answer can leave the loop only through the exhausted range;
  N3  the range is 0 .. r-1 with r = the end of the non-zero diagonal prefix (first zero entry, else min(nrows, ncols)),
      so that the pairs (0,1) .. (r-2, r-1) are all visited.
With N1-N3 the last pass is a sequence of r-1 successful divisibility tests on an unmodified diagonal. The unit
normalisation that follows multiplies rows by units and keeps divisibility. NOT decided: termination, that the
non-zero entries form a prefix of the diagonal, the elementary matrices of the gcd step (their determinant: E6/E12).
"""
import re
from symex import SymEx, show, strip
from core import op_place

S = 'yui_matrix::dense::snf::SnfCalc::<R>::'


def sk(t):
    return re.sub(r'#(?:i\d+:)?\d+\.\d+', '', show(t, -60))


def run(facts, rep, mixing_rule=False):
    st = facts.bodies.get(S + 'diag_normalize_step')
    dn = facts.bodies.get(S + 'diag_normalize')
    if not (st and dn):
        rep.indet('E21: SnfCalc::{diag_normalize, diag_normalize_step} not found')
        return
    rep.saw(st)
    rep.saw(dn)
    # ---- N1
    X, Y = 'index(&*arg1.target, (arg2, arg2))', 'index(&*arg1.target, (AddWithOverflow(arg2, 1).0, AddWithOverflow(arg2, 1).0))'
    n_true = n_false = 0
    for p in SymEx(st, max_paths=20000).run():
        if p.end != 'return':
            continue
        r = strip(p.ret)
        if r[0] != 'const' or r[1] not in (0, 1, True, False):
            rep.indet('E21.N1: diag_normalize_step returns %s' % sk(r)[:60])
            return
        ans = bool(r[1])
        muts = [e.name.split('::')[-1] for e in p.calls() if e.args and sk(e.args[0]).startswith('&mut *arg1')]
        tests = {sk(e.term): e.value for e in p.branches() if sk(e.term).startswith('divides(')}
        good_test = tests.get('divides(%s, %s)' % (X, Y), 0) != 0
        if ans:
            n_true += 1
            inst = 'SnfCalc::diag_normalize_step|answers true [%s]' % ('after ' + ', '.join(muts) if muts else 'unmodified')
            if muts:
                rep.violation('E21.N1-true-means-divides', inst,
                              'diag_normalize_step answers true ("nothing to redo") on a path that modified the diagonal through %s: the pair (i-1, i) is never re-checked and d[i-1] | d[i] can be lost' % ', '.join(muts),
                              where=st.where())
            elif not good_test:
                rep.violation('E21.N1-true-means-divides', inst,
                              'diag_normalize_step answers true without the test d[i].divides(d[i+1]) having succeeded (tests on the path: %s)' % tests, where=st.where())
            else:
                rep.ok('E21.N1-true-means-divides', inst, 'd[i] | d[i+1] tested, nothing modified')
        else:
            n_false += 1
            rep.ok('E21.N1-true-means-divides', 'SnfCalc::diag_normalize_step|answers false [%s]' % (', '.join(muts) or 'unmodified'), 'redo requested')
    if mixing_rule:
        check_mixing(st, rep, X, Y)
    rep.floor('E21.N1 return paths of diag_normalize_step', n_true + n_false, 2 if mixing_rule else 3)
    if n_true == 0:
        rep.indet('E21.N1: diag_normalize_step never answers true')
    # ---- N2 on the CFG
    step_bb = [c.bb for c in dn.calls() if (c.callee or '').endswith('diag_normalize_step')]
    if len(step_bb) == 0 and scan_by_all(facts, dn, rep):
        return
    if len(step_bb) != 1:
        rep.indet('E21.N2: %d calls of diag_normalize_step in diag_normalize' % len(step_bb))
        return
    sb = step_bb[0]
    nxt = dn.succs(sb)
    sw = None
    # follow gotos / Not to the switch that decides on the answer
    dest = dn.blocks[sb]['term']['dest']
    cur = nxt[0] if nxt else None
    negs = 0
    tracked = dest['l'] if isinstance(dest, dict) and 'l' in dest else None
    hops = 0
    while cur is not None and hops < 6:
        blk = dn.blocks[cur]
        for s_ in blk['stmts']:
            if s_.get('k') == 'assign' and s_['rv'].get('k') == 'un' and s_['rv'].get('op') == 'Not':
                pl = op_place(s_['rv']['a'])
                if pl is not None and pl['l'] == tracked and not pl.get('p'):
                    negs += 1
                    tracked = s_['place']['l']
        t = blk['term']
        if t['k'] == 'switch':
            pl = op_place(t['discr'])
            if pl is not None and pl['l'] == tracked:
                sw = (cur, t)
            break
        if t['k'] == 'goto':
            cur = t['target']
            hops += 1
            continue
        break
    if sw is None:
        rep.indet('E21.N2: the answer of diag_normalize_step is not branched on directly')
        return
    swbb, t = sw
    zero_t = [x[1] for x in t['targets'] if x[0] == 0]
    if len(zero_t) != 1:
        rep.indet('E21.N2: switch on the answer has no 0 arm')
        return
    on_zero, on_else = zero_t[0], t['otherwise']
    F, T = (on_zero, on_else) if negs % 2 == 0 else (on_else, on_zero)
    # the range feeding the index of the step call
    its = [c for c in dn.calls() if (c.generic or c.callee or '').endswith('into_iter')]
    dom = dn.dominators()
    cand = [c.bb for c in its if c.bb in dom.get(sb, ())]
    if not cand:
        rep.indet('E21.N2: no into_iter dominating the step call')
        return
    I = max(cand, key=lambda b: len(dom[b]))          # innermost dominating range
    nexts = [c.bb for c in dn.calls() if (c.callee or c.generic or '').endswith('::next') and I in dom.get(c.bb, ()) and c.bb in dom.get(sb, ())]
    if not nexts:
        rep.indet('E21.N2: no Iterator::next between the range and the step call')
        return
    N = max(nexts, key=lambda b: len(dom[b]))
    rets = set(dn.return_blocks())

    def reach_without(start, removed):
        seen, stack = set(), [start]
        while stack:
            b = stack.pop()
            if b in seen or b in removed:
                continue
            seen.add(b)
            stack.extend(dn.succs(b))
        return seen

    rf = reach_without(F, {I})
    # blocks after the loop: reachable from N's None arm; simplest exit marker = return blocks
    inst = 'SnfCalc::diag_normalize|a false answer restarts the scan from 0'
    bad = []
    if sb in rf:
        bad.append('the next step call is reached without a fresh range (the pass just continues)')
    if rf & rets:
        bad.append('the function can return without another pass')
    if I not in reach_without(F, set()):
        bad.append('no new pass is started at all')
    if bad:
        rep.violation('E21.N2-restart-on-change', inst, 'after diag_normalize_step answered false ' + '; '.join(bad) +
                      ': a changed entry d[i] is not re-compared with d[i-1]', where='%s:%d' % (dn.file, dn.blocks[sb]['term'].get('line', dn.line)))
    else:
        rep.ok('E21.N2-restart-on-change', inst, 'false -> bb%d -> range at bb%d before any step / exit' % (F, I))
    inst = 'SnfCalc::diag_normalize|a true answer leaves the loop only through the exhausted range'
    rt = reach_without(T, {N})
    if rt & rets or I in rt:
        rep.violation('E21.N2-restart-on-change', inst, 'after a true answer the scan can be left (or restarted) before the range 0..r-1 is exhausted: later pairs are not tested in the final pass',
                      where='%s:%d' % (dn.file, dn.blocks[sb]['term'].get('line', dn.line)))
    else:
        rep.ok('E21.N2-restart-on-change', inst, 'true -> bb%d -> next() at bb%d' % (T, N))
    # ---- N5: unit normalisation comes after the last modification of the diagonal
    check_normalise_last(dn, sb, rep)
    # ---- N3 range bounds
    want_r = 'unwrap_or(next(&mut _), min(nrows(&*arg1.target), ncols(&*arg1.target)))'
    rng = idx = None
    flt = None
    for p in SymEx(dn, havoc_loops=True, max_paths=20000).run():
        for e in p.calls():
            if e.bb == I and e.args:
                rng = re.sub(r'&mut _\d+', '&mut _', sk(e.args[0]))
            if e.bb == sb and len(e.args) == 2:
                idx = re.sub(r'&mut _\d+', '&mut _', sk(e.args[1]))
            if e.name.split('::')[-1] == 'filter' and len(e.args) == 2:
                flt = (sk(e.args[0]), strip(e.args[1]))
    inst = 'SnfCalc::diag_normalize|pairs (0,1) .. (r-2, r-1) of the non-zero prefix'
    ok_rng = rng == 'Range::Range{start: 0, end: SubWithOverflow(%s, 1).0}' % want_r
    ok_idx = idx == 'next(&mut _).Some.0'
    ok_flt = False
    if flt and flt[0] == 'Range::Range{start: 0, end: min(nrows(&*arg1.target), ncols(&*arg1.target))}' and flt[1][0] == 'closure':
        cb = facts.bodies.get(flt[1][1]) or facts.bodies.get(dn.defp + '::' + flt[1][1].split('::')[-1])
        if cb is not None:
            rr = {sk(q.ret) for q in SymEx(cb).run() if q.end == 'return'}
            ok_flt = len(rr) == 1 and re.match(r'is_zero\(index\(&?\*?arg1\.\^(_ref__)?self(__|\.)target, \(\*?arg2, \*?arg2\)\)\)$', next(iter(rr))) is not None
            if not ok_flt:
                flt = (flt[0], sorted(rr))
    if ok_rng and ok_idx and ok_flt:
        rep.ok('E21.N3-scan-range', inst, '0 .. r-1, r = first zero diagonal entry or min(nrows, ncols)')
        return
    m = re.match(r'Range::Range\{start: (\w+), end: (.*)\}$', rng or '')
    known_bad = None
    if m and m.group(1) != '0':
        known_bad = 'the scan starts at %s: the pairs before it are never tested' % m.group(1)
    elif m:
        k = re.match(r'SubWithOverflow\(%s, (\d+)\)\.0$' % re.escape(want_r), m.group(2))
        if k and int(k.group(1)) > 1:
            known_bad = 'the scan ends at r-%s: the last pairs of the non-zero prefix are never tested' % k.group(1)
    if known_bad and ok_flt:
        rep.violation('E21.N3-scan-range', inst, known_bad + ' (range %s)' % rng, where=dn.where())
    else:
        rep.indet('E21.N3: scan range outside the recognised fragment: range %s, index %s, r from %s' % (rng, idx, flt and flt[1]))


def check_mixing(st, rep, X, Y):
    """N4 (C03 only): two diagonal entries are *mixed* by a 2x2 elementary step only when neither divides the other; when
    d[i+1] | d[i] they are exchanged by a permutation. A permutation keeps every homology generator supported on one basis
    vector of the previous step, a mixing step adds a (homologically trivial) multiple of the neighbour: the splitting of
    the total homology into bidegrees reads the q-degree off the generator (E23 G1) and files a mixed torsion generator in
    the wrong bidegree. (Not a condition for a valid Smith normal form - hence not applied under C09.)"""
    n = 0
    for p in SymEx(st, max_paths=20000).run():
        if p.end != 'return':
            continue
        mix = [e.name.split('::')[-1] for e in p.calls() if e.name.split('::')[-1] in ('left_elementary', 'right_elementary', 'elementary', 'add_row_to', 'add_col_to')]
        if not mix:
            continue
        n += 1
        tests = {sk(e.term): e.value for e in p.branches() if sk(e.term).startswith('divides(')}
        a = tests.get('divides(%s, %s)' % (X, Y))
        b = tests.get('divides(%s, %s)' % (Y, X))
        inst = 'SnfCalc::diag_normalize_step|entries are mixed only when neither divides the other'
        if a == 0 and b == 0:
            rep.ok('E21.N4-permute-when-nested', inst, 'gcd step under x !| y and y !| x')
        else:
            rep.violation('E21.N4-permute-when-nested', inst,
                          'the 2x2 gcd step (%s) is reached without the test d[i+1].divides(d[i]) having failed: nested entries (y | x) are mixed instead of swapped, so a torsion generator of the total homology picks up a multiple of its neighbour and is filed under the wrong q-degree by collect_gen_info' % ', '.join(mix),
                          where=st.where())
    if n == 0:
        rep.indet('E21.N4: no mixing step found in diag_normalize_step')


def check_normalise_last(dn, sb, rep, step_in_closure=False):
    """N5: the diagonal entries are multiplied by their normalising units *after* the chain loop: a gcd step writes new
    entries (d, x y / d) whose product of normalised factors need not be normalised (Z[i], Z[w]: the sector is not closed
    under multiplication). On the CFG: no step call is reachable from a normalizing_unit call, every path from the step
    call to the return passes through the normalising loop, and that loop runs over 0..r and is left only by exhaustion."""
    import cfgutil
    nus = [c.bb for c in dn.calls() if (c.callee or c.generic or '').split('::')[-1] == 'normalizing_unit']
    inst = 'SnfCalc::diag_normalize|unit normalisation after the last change of the diagonal'
    if not nus:
        rep.violation('E21.N5-normalise-last', inst, 'diag_normalize never multiplies the diagonal entries by their normalising units', where=dn.where())
        return
    probs = []
    for u in nus:
        if sb in cfgutil.reach_without(dn, u, set()):
            probs.append('a diag_normalize_step call is reachable after the unit normalisation (bb%d -> bb%d): entries produced by a later gcd step are returned un-normalised' % (u, sb))
    loops = [l for l in cfgutil.for_loops(dn) if any(u in cfgutil.reach_without(dn, l[2], {l[1]}) for u in nus)]
    if len(loops) != 1:
        rep.indet('E21.N5: %d loops contain the normalising-unit call' % len(loops))
        return
    (I, N, some, none) = loops[0]
    rets = set(dn.return_blocks())
    if cfgutil.reach_without(dn, sb, {I}) & rets:
        probs.append('the function can return after a step without passing through the normalising loop')
    if cfgutil.early_exits(dn, N, some):
        probs.append('the normalising loop can be left before all entries were visited')
    if probs:
        rep.violation('E21.N5-normalise-last', inst, 'SnfCalc::diag_normalize: ' + '; '.join(sorted(set(probs))), where=dn.where())
    else:
        rep.ok('E21.N5-normalise-last', inst, 'chain loop, then for i in 0..r { mul_row(i, normalizing_unit) }')


def scan_by_all(facts, dn, rep):
    """the same scan written as `loop { if (0..r-1).all(|i| self.diag_normalize_step(i)) { break } }`: Iterator::all stops at
    the first false answer, the loop then builds a fresh range; a true result (every step answered true) leaves the loop.
    Returns True when this form was recognised and judged (N2, N3, N5 reported), False otherwise."""
    import cfgutil
    clos = [b for k, b in facts.bodies.items() if k.startswith(dn.defp + '::{closure') and any((c.callee or '').endswith('diag_normalize_step') for c in b.calls())]
    if len(clos) != 1:
        return False
    cb = clos[0]
    rets = {sk(p.ret) for p in SymEx(cb).run() if p.end == 'return'}
    if not (len(rets) == 1 and re.match(r'diag_normalize_step\(&mut \*+arg1\.\^(_ref__)?self, arg2\)$', next(iter(rets)))):
        return False
    alls = [c for c in dn.calls() if (c.generic or c.callee or '').split('::')[-1] == 'all']
    if len(alls) != 1:
        return False
    A = alls[0].bb
    # the answer of all(): switch in the successor
    nxt = dn.succs(A)
    cur = nxt[0] if nxt else None
    hops = 0
    while cur is not None and dn.blocks[cur]['term']['k'] == 'goto' and hops < 4:
        cur = dn.blocks[cur]['term']['target']
        hops += 1
    t = dn.blocks[cur]['term'] if cur is not None else None
    if not t or t['k'] != 'switch':
        return False
    zero = [x[1] for x in t['targets'] if x[0] == 0]
    if len(zero) != 1:
        return False
    F, T = zero[0], t['otherwise']
    rets_b = set(dn.return_blocks())
    inst = 'SnfCalc::diag_normalize|a false answer restarts the scan from 0'
    rf = cfgutil.reach_without(dn, F, {A})
    if A in cfgutil.reach_without(dn, F, set()) and not (rf & rets_b):
        rep.ok('E21.N2-restart-on-change', inst, 'all() stopped at a false answer -> the loop evaluates all() on a fresh range again')
    else:
        rep.violation('E21.N2-restart-on-change', inst, 'after a false answer of a step the scan is not started again before the function can return', where=dn.where())
    inst = 'SnfCalc::diag_normalize|a true answer leaves the loop only through the exhausted range'
    if A not in cfgutil.reach_without(dn, T, set()):
        rep.ok('E21.N2-restart-on-change', inst, 'all() == true (every step answered true) leaves the loop')
    else:
        rep.indet('E21.N2: the loop continues although every step answered true')
    # N3: range of the all()
    rng = None
    for p in SymEx(dn, havoc_loops=True, max_paths=20000).run():
        for e in p.calls():
            if e.bb == A and e.pre:
                rng = re.sub(r'&mut _\d+', '&mut _', sk(e.pre[0]))
    want_r = r'(unwrap_or\((next\(&mut _\)|find\(&mut _, closure<\{closure#\d\}>\)), min\(nrows\(&\*arg1\.target\), ncols\(&\*arg1\.target\)\)\))'
    inst = 'SnfCalc::diag_normalize|pairs (0,1) .. (r-2, r-1) of the non-zero prefix'
    if rng and re.match(r'Range::Range\{start: 0, end: SubWithOverflow\(%s, 1\)\.0\}$' % want_r, rng):
        rep.ok('E21.N3-scan-range', inst, '0 .. r-1')
    else:
        rep.indet('E21.N3: scan range outside the recognised fragment: %s' % rng)
    sb = A
    check_normalise_last(dn, sb, rep, step_in_closure=True)
    return True
