"""E19 - assembly of the homology coordinate maps from Smith-normal-form blocks (C07).

HomologyCalc::trans builds  P = [ Q2^-1[R2 rows] * P1[R1 rows] ; P1[T rows] ]  and
Q = [ P1^-1[R1 cols] * Q2[R2 cols] | P1^-1[T cols] ]  from the transforms of the two SNF calls (P1, P1^-1 of
d_in; Q2, Q2^-1 of the restricted d_out). With X[A rows] * X^-1[B cols] = 1 if A = B and 0 if A, B are
disjoint ranges (a block of X X^-1 = 1, decided under C09), P * Q = 1 holds iff the index ranges pair up:
    H1  the four blocks of P * Q reduce to [1 0; 0 1] by that range algebra (ranges compared as terms:
        R1 = rank(s1)..n, R2 = rank(s2)..n-rank(s1), T = rank(s1)-t..rank(s1));
    H2  d_out is restricted with the same columns R1 of P1^-1 that Q uses (the complement of im d_in);
    H3  every transform that is unwrapped is requested from snf under the same condition:
        s1 <- [with_trans, true, false, false] (p, pinv), s2 <- [false, false, with_trans, with_trans] (q, qinv);
    H4  rank = n - rank(s1) - rank(s2); torsion = the non-unit factors of s1.
This is "coordinates of the generators are the standard basis" as a structural statement. NOT decided: that the
generators are cycles / boundaries map to zero (needs the SNF equations as values), SNF itself (C09).
"""
import re
from symex import SymEx, show, strip

HC = 'yui_homology::utils::homology_calc::HomologyCalc::<R>::'


def sk(t):
    return canon(re.sub(r'#(?:i\d+:)?\d+\.\d+', '', show(t, -60)))


def canon(s):
    """one vocabulary for both functions: s1 / s2 are the two SNF results, n = rows of d_in, r1 / r2 their ranks"""
    s = re.sub(r'snf_in_place\(into_dense\(arg1\), \[[^\]]*\]\)', 'S1', s)
    s = re.sub(r'&?\bS1\b', 'S1', s)
    s = s.replace('nrows(result(arg1))', 'n').replace('nrows(&arg1)', 'n').replace('nrows(arg1)', 'n').replace('nrows(result(S1))', 'n')
    s = s.replace('rank(arg1)', 'r1').replace('rank(&S1)', 'r1').replace('rank(S1)', 'r1').replace('rank(arg2)', 'r2')
    return s


class Bad(Exception):
    pass


def factor(t):
    """into_sparse(submat_rows|cols(unwrap(acc(sN)), Range{start,end})) -> (sym, axis, (start, end))"""
    t = strip(t)
    if not (t[0] == 'call' and t[1].split('::')[-1] == 'into_sparse' and len(t[2]) == 1):
        raise Bad('not into_sparse(..): ' + sk(t)[:60])
    s = strip(t[2][0])
    if not (s[0] == 'call' and s[1].split('::')[-1] in ('submat_rows', 'submat_cols') and len(s[2]) == 2):
        raise Bad('not a row/column sub-matrix: ' + sk(s)[:60])
    axis = 'rows' if s[1].endswith('submat_rows') else 'cols'
    m = strip(s[2][0])
    if not (m[0] == 'call' and m[1].split('::')[-1] == 'unwrap'):
        raise Bad('transform is not unwrapped from an Option: ' + sk(m)[:60])
    acc = strip(m[2][0])
    if not (acc[0] == 'call' and acc[1].split('::')[-1] in ('p', 'pinv', 'q', 'qinv')):
        raise Bad('unrecognised accessor ' + sk(acc)[:60])
    owner = strip(acc[2][0])
    if owner[0] == 'arg':
        which = 's%d' % owner[1]
    elif sk(owner) == 'S1':
        which = 's1'
    else:
        raise Bad('transform of an unknown SNF result: ' + sk(owner)[:60])
    sym = (which, acc[1].split('::')[-1])
    r = strip(s[2][1])
    if not (r[0] == 'adt' and r[1].endswith('Range') and r[3] == ('start', 'end')):
        raise Bad('range is not start..end: ' + sk(r)[:60])
    return sym, axis, (sk(r[4][0]), sk(r[4][1]))


INV = {('s1', 'p'): ('s1', 'pinv'), ('s2', 'qinv'): ('s2', 'q')}


def pair(x_rows, xinv_cols):
    """X[A rows] * X^-1[B cols] -> 'I' | '0' | None"""
    (sa, axa, ra), (sb, axb, rb) = x_rows, xinv_cols
    if axa != 'rows' or axb != 'cols' or INV.get(sa) != sb:
        return None
    if ra == rb:
        return 'I'
    if ra[1] == rb[0] or rb[1] == ra[0]:
        return '0'
    return None


def run(facts, rep):
    tb = facts.bodies.get(HC + 'trans')
    ps = facts.bodies.get(HC + 'process_snf')
    rs = facts.bodies.get(HC + 'result')
    if not (tb and ps and rs):
        rep.indet('E19: HomologyCalc::{trans, process_snf, result} not found')
        return
    for b in (tb, ps, rs):
        rep.saw(b)
    try:
        from symex import private_helper
        rets = [p.ret for p in SymEx(tb, max_paths=20000, inline=private_helper()).run() if p.end == 'return']
        if len(rets) != 1:
            raise Bad('trans has %d return shapes' % len(rets))
        r = rets[0]
        if not (r[0] == 'call' and r[1].endswith('trans::Trans::<R>::new') and len(r[2]) == 2):
            raise Bad('trans does not return Trans::new(p, q)')
        P, Q = strip(r[2][0]), strip(r[2][1])
        if not (P[0] == 'call' and P[1].split('::')[-1] == 'stack' and Q[0] == 'call' and Q[1].split('::')[-1] == 'concat'):
            raise Bad('p is not a vertical stack / q not a horizontal concatenation')
        pf, pt = strip(P[2][0]), P[2][1]
        qf, qt = strip(Q[2][0]), Q[2][1]
        if not (pf[0] == 'call' and pf[1].split('::')[-1] == 'mul' and qf[0] == 'call' and qf[1].split('::')[-1] == 'mul'):
            raise Bad('free parts are not products')
        p22, p11 = factor(pf[2][0]), factor(pf[2][1])
        q12, q22 = factor(qf[2][0]), factor(qf[2][1])
        ptor, qtor = factor(pt), factor(qt)
    except Bad as e:
        rep.indet('E19: coordinate-map assembly outside the recognised fragment: %s' % e)
        return
    desc = 'P = [%s%s*%s%s ; %s%s], Q = [%s%s*%s%s | %s%s]' % (p22[0][1], list(p22[2]), p11[0][1], list(p11[2]), ptor[0][1], list(ptor[2]),
                                                               q12[0][1], list(q12[2]), q22[0][1], list(q22[2]), qtor[0][1], list(qtor[2]))
    inner = pair(p11, q12)
    blocks = {
        'free*free': ('I' if inner == 'I' and pair(p22, q22) == 'I' else None),
        'free*tor': ('0' if pair(p11, qtor) == '0' else None),
        'tor*free': ('0' if pair(ptor, q12) == '0' else None),
        'tor*tor': pair(ptor, qtor),
    }
    want = {'free*free': 'I', 'free*tor': '0', 'tor*free': '0', 'tor*tor': 'I'}
    inst = 'HomologyCalc::trans|P * Q = 1 by range algebra'
    if blocks == want:
        rep.ok('E19.H1-coordinates-standard-basis', inst, desc[:300])
    else:
        rep.violation('E19.H1-coordinates-standard-basis', inst,
                      'the blocks of P*Q reduce to %s instead of [1 0; 0 1]: the row ranges taken from a transform and the column ranges taken from its inverse do not pair up (%s)' % (blocks, desc),
                      where=tb.where())
    # H2 + H3 from process_snf
    flags = {}
    restr = None
    for p in SymEx(ps, max_paths=20000).run():
        for e in p.calls():
            if e.name.split('::')[-1] == 'snf_in_place' and len(e.args) == 2:
                fl = strip(e.args[1])
                which = 's1' if 'arg1' in sk(e.args[0]) and 'arg2' not in sk(e.args[0]) else 's2'
                if fl[0] == 'agg':
                    flags[which] = [sk(x) for x in fl[2]]
                src = strip(e.args[0])
                if which == 's2' and 'mul(' in sk(src):
                    # into_dense(mul(d2, &t2))
                    inner_ = strip(src[2][0]) if src[0] == 'call' else src
                    if inner_[0] == 'call' and inner_[1].split('::')[-1] == 'mul':
                        try:
                            restr = factor(inner_[2][1])
                        except Bad:
                            restr = None
    inst = 'HomologyCalc::process_snf|d_out restricted to the complement used by Q'
    if restr is not None and restr == q12:
        rep.ok('E19.H2-restriction', inst, 'pinv1[cols %s]' % list(restr[2]))
    elif restr is None:
        rep.indet('E19.H2: the restriction of d_out in process_snf was not read')
    else:
        rep.violation('E19.H2-restriction', inst, 'd_out is composed with %s but the coordinate map uses %s' % (restr, q12), where=ps.where())
    inst = 'HomologyCalc::process_snf|requested transforms = used transforms'
    used1 = {x[0][1] for x in (p11, q12, ptor, qtor, restr or q12) if x[0][0] == 's1'}
    used2 = {x[0][1] for x in (p22, q22) if x[0][0] == 's2'}
    ok3 = (flags.get('s1') == ['arg3', '1', '0', '0'] and flags.get('s2') == ['0', '0', 'arg3', 'arg3'] and used1 == {'p', 'pinv'} and used2 == {'q', 'qinv'})
    if ok3:
        rep.ok('E19.H3-flags', inst, 's1 %s uses %s; s2 %s uses %s' % (flags.get('s1'), sorted(used1), flags.get('s2'), sorted(used2)))
    elif set(flags) != {'s1', 's2'} or any(len(v) != 4 or not all(x in ('0', '1', 'arg3') for x in v) for v in flags.values()):
        rep.indet('E19.H3: snf flags of process_snf outside the recognised fragment: %s' % flags)
    else:
        rep.violation('E19.H3-flags', inst, 'snf flags %s but the assembly unwraps s1.%s / s2.%s: an unrequested transform is None and unwrap() panics' % (flags, sorted(used1), sorted(used2)), where=ps.where())
    # H4
    allp = SymEx(rs, havoc_loops=True, max_paths=20000).run()
    rr = [p.ret for p in allp if p.end == 'return']
    inst = 'HomologyCalc::result|rank = n - r1 - r2, torsion = non-unit factors of s1 in diagonal order'
    if len(rr) != 1 or strip(rr[0])[0] != 'tuple' or len(strip(rr[0])[1]) != 2:
        rep.indet('E19.H4: HomologyCalc::result does not return one (rank, tors) pair')
        return
    rank_t, tors_t = strip(rr[0])[1]
    probs = []
    # the rank by value: n, r1, r2 are the only atoms; folded at three points
    from dtree import DTree, Stuck
    dt = DTree(facts)

    def atom_at(n_, r1_, r2_):
        def atom(t, ev):
            x = sk(t).replace('&', '').replace('*', '')
            if x in ('n', 'nrows(result(S1))', 'nrows(result(arg1))', 'ncols(result(S2))', 'ncols(result(arg2))'):
                return (n_,)
            if x in ('r1', 'rank(S1)', 'rank(arg1)'):
                return (r1_,)
            if x in ('r2', 'rank(S2)', 'rank(arg2)'):
                return (r2_,)
            return None
        return atom
    try:
        vals = [(dt.ev(rank_t, {}, atom_at(*pt)), pt[0] - pt[1] - pt[2]) for pt in ((10, 3, 2), (7, 0, 4), (5, 5, 0))]
    except Stuck as e:
        rep.indet('E19.H4: rank formula outside the recognised fragment: %s (%s)' % (sk(rank_t)[:120], str(e)[:60]))
        return
    if any(a != b for a, b in vals):
        probs.append('rank is computed as %s, expected n - rank(s1) - rank(s2)' % sk(rank_t))
    try:
        if strip(tors_t)[0] == 'loopvar':
            sel = _torsion_loop(facts, rs, allp, strip(tors_t)[2])
        else:
            sel = torsion_chain(facts, rs, tors_t)
    except Bad as e:
        rep.indet('E19.H4: torsion list outside the recognised fragment: %s' % e)
        return
    if sel['revs'] % 2:
        probs.append('the torsion orders are listed in reversed diagonal order (%s) while trans takes the torsion generators from rows / columns r1-t..r1 in diagonal order: order i no longer belongs to generator i' % ' <- '.join(sel['chain']))
    if sel['select'] != 'nonunit':
        probs.append('the torsion list keeps %s factors of s1 (%s), expected exactly the non-units' % (sel['select'], ' <- '.join(sel['chain'])))
    if probs:
        rep.violation('E19.H4-rank-formula', inst, '; '.join(probs), where=rs.where())
    else:
        rep.ok('E19.H4-rank-formula', inst, 'n - rank(s1) - rank(s2); %s' % ' <- '.join(sel['chain']))


ORDER_KEEPING = {'iter', 'into_iter', 'cloned', 'copied', 'collect', 'to_vec', 'into_vec', 'clone', 'to_owned', 'as_slice', 'deref', 'into', 'from_iter', 'collect_vec'}


def pred_kind(facts, owner, t):
    """closure passed to filter / filter_map / skip_while / take_while -> 'nonunit' | 'unit' (what it answers true / Some for)"""
    t = strip(t)
    if t[0] != 'closure':
        raise Bad('predicate is not a closure: ' + sk(t)[:40])
    cb = facts.bodies.get(t[1]) or facts.bodies.get(owner.defp + '::' + t[1].split('::')[-1])
    if cb is None:
        raise Bad('closure body %s not found' % t[1])
    kinds = set()
    for p in SymEx(cb).run():
        if p.end != 'return':
            continue
        r = strip(p.ret)
        unit = None
        for e in p.branches():
            if re.match(r'is_unit\(', sk(e.term)):
                unit = e.value != 0
        neg = False
        while r[0] == 'un' and r[1] == 'Not':
            neg = not neg
            r = strip(r[2])
        if r[0] == 'call' and r[1].split('::')[-1] == 'is_unit':
            kinds.add('nonunit' if neg else 'unit')
            continue
        if unit is None:
            raise Bad('predicate does not test is_unit: ' + sk(p.ret)[:60])
        if r[0] == 'const' and isinstance(r[1], (bool, int)):
            truth = bool(r[1]) != neg
        elif r[0] == 'adt' and r[1].endswith('Option'):
            truth = (r[2] == 'Some')
            if truth and not re.match(r'(clone\()?\*?arg2\)?$', sk(r[4][0]).replace('&', '')):
                raise Bad('filter_map changes the factor: ' + sk(r[4][0])[:60])
        else:
            raise Bad('predicate returns ' + sk(r)[:60])
        kinds.add(('unit' if unit else 'nonunit') if truth else ('nonunit' if unit else 'unit'))
    if len(kinds) != 1:
        raise Bad('predicate is not a function of is_unit alone (%s)' % sorted(kinds))
    return kinds.pop()


def torsion_chain(facts, owner, t):
    """walk the iterator adapter chain down to factors(s1)"""
    chain, revs, select = [], 0, 'all'
    t = strip(t)
    while True:
        if t[0] != 'call':
            raise Bad('not an adapter chain over s1.factors(): ' + sk(t)[:60])
        n = t[1].split('::')[-1]
        a = t[2]
        if n == 'factors' and len(a) == 1 and sk(a[0]).replace('&', '') in ('arg1', 'S1'):
            chain.append('s1.factors()')
            break
        chain.append(n)
        if n in ORDER_KEEPING and len(a) == 1:
            pass
        elif n == 'rev' and len(a) == 1:
            revs += 1
        elif n in ('filter', 'filter_map') and len(a) == 2:
            k = pred_kind(facts, owner, a[1])
            select = k if select in ('all', k) else 'no'
        elif n == 'skip_while' and len(a) == 2:
            # units come first in a divisibility chain: skipping the leading units keeps the non-units (in order)
            k = pred_kind(facts, owner, a[1])
            if revs % 2 == 0 and k == 'unit' and not _rev_below(t):
                select = 'nonunit' if select in ('all', 'nonunit') else 'no'
            else:
                raise Bad('skip_while(%s) on a %s chain' % (k, 'reversed' if _rev_below(t) else 'forward'))
        elif n == 'take_while' and len(a) == 2:
            k = pred_kind(facts, owner, a[1])
            if k == 'nonunit' and _rev_below(t):
                select = 'nonunit' if select in ('all', 'nonunit') else 'no'
            else:
                raise Bad('take_while(%s) on a %s chain' % (k, 'reversed' if _rev_below(t) else 'forward'))
        else:
            raise Bad('adapter %s' % n)
        t = strip(a[0])
    return {'chain': chain, 'revs': revs, 'select': select}


def _torsion_loop(facts, owner, paths, L):
    """the torsion list built by `for a in <chain over s1.factors()> { if <is_unit test> {..}; tors.push(a.clone()) }`:
    the same reading as the adapter chain, the loop body being one more filter"""
    entry = {}
    for p in paths:
        for (fid, bb, l), v in p.state.loop_entry.items():
            if fid == 0 and strip(v)[0] != 'loopvar':
                entry.setdefault(l, set()).add(v)
    if {sk(v) for v in entry.get(L, ())} not in ({'new()'}, {'with_capacity(0)'}):
        raise Bad('the torsion vector does not start empty')
    kinds = set()
    src = None
    for p in paths:
        if p.end != 'backedge':
            continue
        unit = None
        for e in p.branches():
            m = re.match(r'is_unit\(next\(&mut _(\d+)\)\.Some\.0\)$', sk(e.term).replace('*', ''))
            if m:
                unit = e.value != 0
        pushes = [e for e in p.calls('push', 'insert', 'extend', 'append', 'push_front') if e.args and e.args[0] == ('mref', (('local', L), ()))]
        for e in p.calls():
            if e.args and e.args[0] == ('mref', (('local', L), ())) and e not in pushes:
                raise Bad('the torsion vector is modified by %s' % e.name.split('::')[-1])
        if any(e.name.split('::')[-1] != 'push' for e in pushes) or len(pushes) > 1:
            raise Bad('the torsion vector is filled by %s' % [e.name.split('::')[-1] for e in pushes])
        if pushes:
            v = strip(pushes[0].args[1])
            if not (v[0] == 'field' and v[2] == 'Some.0' and v[1][0] == 'call' and v[1][1].endswith('Iterator::next') and v[1][2][0][0] == 'mref'):
                raise Bad('the pushed value is not the scanned factor: ' + sk(pushes[0].args[1])[:60])
            it = v[1][2][0][1][0][1]
            cand = entry.get(it, set())
            if len(cand) != 1:
                raise Bad('source of the scanned iterator not found')
            src = next(iter(cand))
            if unit is None:
                kinds.add('all')
            else:
                kinds.add('unit' if unit else 'nonunit')
        elif unit is None:
            raise Bad('an iteration neither pushes nor tests is_unit')
    if src is None or len(kinds) != 1:
        raise Bad('the loop pushes %s factors' % sorted(kinds))
    sel = torsion_chain(facts, owner, src)
    k = kinds.pop()
    if k != 'all':
        sel['select'] = k if sel['select'] in ('all', k) else 'no'
    sel['chain'] = ['for .. push'] + sel['chain']
    return sel



def _rev_below(t):
    """parity of rev adapters below this node"""
    n = 0
    t = strip(strip(t)[2][0])
    while t[0] == 'call' and t[2]:
        if t[1].split('::')[-1] == 'rev':
            n += 1
        t = strip(t[2][0])
    return n % 2 == 1


def check_summand(facts, rep):
    """H5 (C07, "composition of coordinate maps"): a Summand turns chains into homology coordinates and back with one
    pair of maps: vectorize = trans.forward(coordinates in raw_gens), devectorize = raw_gens-combination of trans.backward(v),
    gen(i) = devectorize(e_i); vectorize_euc keeps the free coordinates (i < rank) and reduces the torsion coordinate i
    modulo its own order tors[i - rank]; merge takes rank / torsion from the finer summand and composes the transforms."""
    S = 'yui_homology::conc::summand::Summand::<X, R>::'

    def dk(t):
        return re.sub(r'\^_ref__', '^', re.sub(r'#(?:i\d+:)?\d+\.\d+', '', show(t, -1000))).replace('&', '').replace('*', '')

    def rets(name):
        b = facts.bodies.get(S + name)
        if b is None:
            return None
        rep.saw(b)
        return sorted({(dk(p.ret), tuple((dk(e.term), e.value != 0) for e in p.branches() if 'Overflow' not in dk(e.term) and not dk(e.term).startswith('Eq(dim('))) for p in SymEx(b).run() if p.end == 'return'})
    want = {
        'gen': [('devectorize(arg1, unit(dim(arg1), arg2))', ())],
        'vectorize': [('forward(arg1.trans, from_entries(len(arg1.raw_gens), map(iter(arg2), closure<{closure#0}>)))', ())],
        'vectorize::{closure#0}': [('(index_of(arg1.^self.raw_gens, arg2.0).Some.0, clone(arg2.1))', (('discr(index_of(arg1.^self.raw_gens, arg2.0))', True),))],
        'vectorize_euc': [('from_sorted_entries(dim(vectorize(arg1, arg2)), map(iter(vectorize(arg1, arg2)), closure<{closure#0}>))', ())],
        'devectorize': [('from_iter(map(iter(backward(arg1.trans, arg2)), closure<{closure#0}>))', ())],
        'devectorize::{closure#0}': [('(clone(index(arg1.^self.raw_gens, arg2.0)), clone(arg2.1))', ())],
    }
    # devectorize written with a loop: for (i, a) in self.trans.backward(v).iter() { terms.push((raw_gens[i].clone(), a.clone())) }
    from symex import apply_closure
    db = facts.bodies.get(S + 'devectorize')
    loop_form = None
    if db is not None and (S + 'devectorize::{closure#0}') not in facts.bodies:
        hp = SymEx(db, havoc_loops=True).run()
        src, pairs = set(), set()
        for p in hp:
            for (fid, bb_, l), v in p.state.loop_entry.items():
                if fid == 0 and strip(v)[0] == 'call' and strip(v)[1].endswith('into_iter'):
                    src.add(dk(v))
            for e in p.calls():
                if e.name.split('::')[-1] == 'push' and len(e.args) == 2:
                    pairs.add(re.sub(r'next\(mut _\d+\)\.Some\.0', 'IT', dk(e.args[1])))
        rr = [dk(p.ret) for p in hp if p.end == 'return']
        if src == {'into_iter(iter(backward(arg1.trans, arg2)))'} and pairs == {'(clone(index(arg1.raw_gens, IT.0)), clone(IT.1))'} and len(rr) == 1 and re.match(r'(collect|from_iter)\(into_iter\(loop\w+\)\)$', rr[0]):
            loop_form = 'ok'
        elif src and all('forward(' in x for x in src):
            loop_form = 'swapped'
    for name, w in want.items():
        if name.startswith('devectorize') and loop_form is not None:
            if name == 'devectorize':
                inst = 'Summand::devectorize|as tabulated'
                if loop_form == 'ok':
                    rep.ok('E19.H5-summand-maps', inst, 'loop over trans.backward(v): (raw_gens[i], a)')
                else:
                    rep.violation('E19.H5-summand-maps', inst, 'Summand::devectorize goes through trans.forward: coordinates -> chains must use trans.backward', where='yui-homology/src/conc/summand.rs')
            continue
        got = rets(name)
        inst = 'Summand::%s|as tabulated' % name
        if got is None:
            rep.indet('E19.H5: Summand::%s not found' % name)
        elif got == w:
            rep.ok('E19.H5-summand-maps', inst, w[0][0][:100])
        else:
            g = got[0][0] if got else ''
            swapped = ('backward(' in g and name == 'vectorize') or ('forward(' in g and name == 'devectorize')
            if swapped:
                rep.violation('E19.H5-summand-maps', inst, 'Summand::%s goes through %s: chains -> coordinates must use trans.forward, coordinates -> chains trans.backward' % (name, g[:120]), where='yui-homology/src/conc/summand.rs')
            else:
                rep.indet('E19.H5: Summand::%s outside the recognised fragment: %s' % (name, [x[0][:160] for x in got]))
    # vectorize_euc closure by value
    from dtree import DTree, Stuck
    dt = DTree(facts)
    cl = S + 'vectorize_euc::{closure#0}'
    inst = 'Summand::vectorize_euc|free coordinates kept, torsion coordinate i reduced mod tors[i - rank]'
    if cl not in facts.bodies:
        rep.indet('E19.H5: vectorize_euc closure not found')
    else:
        bad = None
        try:
            for r in (0, 1, 2, 3):
                def atom(t, ev, r=r):
                    s = dk(t)
                    if re.match(r'arg1\.\^r$', s):
                        return (r,)
                    if t[0] == 'call' and t[1].split('::')[-1] == 'rem' and len(t[2]) == 2:
                        return (('rem', ev(t[2][0]), ev(t[2][1])),)
                    if t[0] == 'call' and t[1].split('::')[-1] == 'clone' and len(t[2]) == 1:
                        return (ev(t[2][0]),)
                    if t[0] == 'call' and t[1].split('::')[-1] == 'checked_sub' and len(t[2]) == 2:
                        a_, b_ = ev(t[2][0]), ev(t[2][1])
                        return ({'<variant>': 1, 'Some.0': a_ - b_},) if a_ >= b_ else ({'<variant>': 0},)
                    if t[0] == 'index' and dk(t[1]).startswith('tors('):
                        return (('tors', ev(t[2])),)
                    if t[0] == 'call' and t[1].split('::')[-1] == 'index' and len(t[2]) == 2 and dk(t[2][0]).startswith('tors('):
                        return (('tors', ev(t[2][1])),)
                    return None
                for i in range(0, 6):
                    v, _ = dt.decide(cl, {2: (i, 'a')}, atom)
                    w = (i, 'a') if i < r else (i, ('rem', 'a', ('tors', i - r)))
                    if tuple(v) != w:
                        bad = bad or 'rank %d, coordinate %d: got %s, expected %s' % (r, i, v, w)
        except (Stuck, KeyError, TypeError, ValueError) as e:
            rep.indet('E19.H5: vectorize_euc closure outside the recognised fragment: %s' % e)
            bad = 'indet'
        if bad is None:
            rep.ok('E19.H5-summand-maps', inst, 'checked for rank 0..3, coordinates 0..5')
        elif bad != 'indet':
            rep.violation('E19.H5-summand-maps', inst, 'Summand::vectorize_euc: ' + bad + ' - a boundary no longer maps to the zero vector modulo the torsion orders', where='yui-homology/src/conc/summand.rs')
    # merge
    mb = facts.bodies.get(S + 'merge')
    if mb is None:
        rep.indet('E19.H5: Summand::merge not found')
        return
    rep.saw(mb)
    shapes = set()
    for p in SymEx(mb).run():
        if p.end != 'return':
            continue
        # a moved field and a cloned field are the same value
        ws = tuple(sorted((dk(('mref', e.lv)).replace('mut ', ''), re.sub(r'^clone\((.*)\)$', r'\1', dk(e.term))) for e in p.events if e.kind == 'write' and e.lv))
        cs = tuple((e.name.split('::')[-1], tuple(dk(a).replace('mut ', '') for a in e.args)) for e in p.calls() if e.name.split('::')[-1] in ('merge', 'reduce', 'merged'))
        shapes.add((ws, cs))
    w = {((('arg1.rank', 'arg2.rank'), ('arg1.tors', 'arg2.tors')), (('merge', ('arg1.trans', 'arg2.trans')), ('reduce', ('arg1.trans',))))}
    inst = 'Summand::merge|rank, tors from the finer summand; transforms composed self then other'
    if shapes == w:
        rep.ok('E19.H5-summand-maps', inst, 'trans.merge(other.trans); reduce()')
    else:
        rep.indet('E19.H5: Summand::merge outside the recognised fragment: %s' % sorted(shapes)[:1])
