"""E18 - consistent application of one reduction step in ChainReducer (C08).

A step at degree i picks a row permutation p and a column permutation q of d_i : C_i -> C_{i+1} (matrix m x n),
reduces [a b; c d] = P d_i Q to its Schur complement s and must then update *everything that lives on C_i
with q* and *everything that lives on C_{i+1} with p*, with the same r:
    incoming d_{i-1}: rows reduced by q        d_i := s          outgoing d_{i+1}: columns reduced by p
    transform on C_i: append_perm(q), merge(t_src)               transform on C_{i+1}: append_perm(p), merge(t_tgt)
    tracked vectors in C_i: extracted with q                     tracked vectors in C_{i+1}: permuted with p, y - c (a^-1 x)
The roles are read from the MIR path summaries (argument flow from `pivots(..).0/.1/.2`, `deg_trip`,
`Schur::disassemble`) and compared with this table; PivotType::Rows pairs with an Upper, Cols with a Lower
triangular block; Schur's fields (s, t_src, t_tgt) are disassembled in that order. A swapped p/q, a wrong
neighbour degree or a source/target mix-up type-checks (all permutations / transforms have one type).
"""
import re
from symex import SymEx, show, strip

CR = 'yui_homology::utils::chain_reducer::ChainReducer::<I, R>::'


FIELD_ROLE = {}      # field name of a struct returned by deg_trip -> tuple position ('0' | '1' | '2')


def _role(x):
    if FIELD_ROLE:
        x = re.sub(r'(deg_trip\(arg1, arg2\))\.(\w+)', lambda m: '%s.%s' % (m.group(1), FIELD_ROLE.get(m.group(2), m.group(2))), x)
    return x


def sk(t):
    x = re.sub(r'#(?:i\d+:)?\d+\.\d+', '', show(t))
    if FIELD_ROLE:
        x = re.sub(r'(deg_trip\(arg1, arg2\))\.(\w+)', lambda m: '%s.%s' % (m.group(1), FIELD_ROLE.get(m.group(2), m.group(2))), x)
    return x


def _calls(facts, name, havoc=True, inline=None):
    b = facts.bodies.get(CR + name)
    if b is None:
        return None, []
    out = []
    seen = set()
    for p in SymEx(b, havoc_loops=havoc, max_paths=40000, inline=inline).run():
        for e in p.calls():
            key = (e.name, tuple(sk(a) for a in e.args))
            if key not in seen:
                seen.add(key)
                out.append((e, p))
    return b, out


def run(facts, rep):
    FIELD_ROLE.clear()
    problems = {}
    unknowns = []

    def need(cond, rule, what, known=True):
        """known: the observed roles are all within the role vocabulary of that rule, so a mismatch is a statement about
        the code; otherwise the reader left its fragment and the outcome is INDETERMINATE"""
        problems.setdefault(rule, [])
        if not cond:
            if known:
                problems[rule].append(what)
            else:
                unknowns.append('%s: %s' % (rule, what))

    def within(vals, vocab):
        return all(v in vocab for v in vals)

    # deg_trip
    dt = facts.bodies.get(CR + 'deg_trip')
    if dt is None:
        rep.indet('E18: ChainReducer::deg_trip not found')
        return
    rep.saw(dt)
    # the three neighbouring degrees may come back as a tuple or as a private struct: components are identified by
    # value (i - d, i, i + d) and every later text `deg_trip(..).<component>` is rewritten to the positions .0 / .1 / .2
    raw = [strip(p.ret) for p in SymEx(dt).run() if p.end == 'return']
    if len(raw) == 1 and raw[0][0] == 'adt' and len(raw[0][4]) == 3:
        role = {'sub(arg2, *arg1.d_deg)': '0', 'arg2': '1', 'add(arg2, *arg1.d_deg)': '2'}
        for fname, val in zip(raw[0][3], raw[0][4]):
            if sk(val) in role:
                FIELD_ROLE[fname] = role[sk(val)]
        if len(FIELD_ROLE) == 3:
            rets = ['(%s)' % ', '.join(x for x, _ in sorted(((sk(v), FIELD_ROLE[f]) for f, v in zip(raw[0][3], raw[0][4])), key=lambda q: q[1]))]
        else:
            rets = [sk(raw[0])]
    else:
        rets = [sk(r) for r in raw]
    need(rets == ['(sub(arg2, *arg1.d_deg), arg2, add(arg2, *arg1.d_deg))'], 'deg_trip', 'deg_trip returns %s, expected (i - d, i, i + d)' % rets,
         known=len(rets) == 1 and re.match(r'\(((sub|add)\(arg2, \*arg1\.d_deg\)|arg2)(, ((sub|add)\(arg2, \*arg1\.d_deg\)|arg2)){2}\)$', rets[0]) is not None)

    # update_mats(self, i, p, q, r, s)
    b, cs = _calls(facts, 'update_mats')
    if b is None:
        rep.indet('E18: update_mats not found')
        return
    rep.saw(b)
    names = [b.local_name(k) for k in range(1, b.arg_count + 1)]
    need(names == ['self', 'i', 'p', 'q', 'r', 's'], 'update_mats', 'parameters are %s' % names, known=False)
    from symex import apply_closure
    ins = {}
    unknown_ins = []

    def value_of(t):
        """the stored matrix, seen through Option::map(closure) / unwrap"""
        t = strip(t)
        if t[0] == 'field' and t[2] == 'Some.0':
            m = strip(t[1])
            if m[0] == 'call' and m[1].split('::')[-1] == 'map' and len(m[2]) == 2:
                ps = apply_closure(m[2][1], [('field', m[2][0], 'Some.0')])
                rets = [q.ret for q in (ps or []) if q.end == 'return']
                if len({sk(r) for r in rets}) == 1:
                    return strip(rets[0])
        return t
    for e, p in cs:
        last = e.name.split('::')[-1]
        a = [sk(x) for x in e.args]
        if last == 'insert' and 'mats' in a[0] and len(e.args) == 3:
            v = value_of(e.args[2])
            ins.setdefault(a[1], set()).add(_role(re.sub(r'&mut _\d+', 'IT', re.sub(r'#(?:i\d+:)?\d+\.\d+', '', show(v, -1000)))))

    def mat_at(k):
        return r'(matrix\(arg1, deg_trip\(arg1, arg2\)\.%d\)|get\(&(post\()*\*?arg1\.mats\)*, &deg_trip\(arg1, arg2\)\.%d\))\.Some\.0' % (k, k)
    want = {'deg_trip(arg1, arg2).0': r'reduce_mat_rows\(%s, arg4, arg5\)$' % mat_at(0),
            'deg_trip(arg1, arg2).1': r'arg6$',
            'deg_trip(arg1, arg2).2': r'reduce_mat_cols\(%s, arg3, arg5\)$' % mat_at(2)}
    for key, rx in want.items():
        vals = ins.get(key, set())
        what = {'deg_trip(arg1, arg2).0': 'incoming differential d_{i-d}: rows reduced by q, r', 'deg_trip(arg1, arg2).1': 'd_i := s',
                'deg_trip(arg1, arg2).2': 'outgoing differential d_{i+d}: columns reduced by p, r'}[key]
        if vals and all(re.match(rx, v) for v in vals):
            continue
        known = vals and all(re.match(r'(reduce_mat_rows|reduce_mat_cols)\(.*, arg[345], arg[345]\)$|arg\d$', v) for v in vals)
        if known:
            need(False, 'update_mats', '%s is stored as %s' % (what, sorted(vals)))
        else:
            unknown_ins.append('%s: %s' % (key, sorted(vals)))
    if set(ins) - set(want):
        unknown_ins.append('extra keys %s' % sorted(set(ins) - set(want)))
    if unknown_ins:
        rep.indet('E18: update_mats outside the recognised fragment: %s' % '; '.join(unknown_ins)[:400])
        return
    # update_trans(self, i, p, q, t_src, t_tgt)
    b, cs = _calls(facts, 'update_trans')
    if b is None:
        rep.indet('E18: update_trans not found')
        return
    rep.saw(b)
    names = [b.local_name(k) for k in range(1, b.arg_count + 1)]
    need(names == ['self', 'i', 'p', 'q', 't_src', 't_tgt'], 'update_trans', 'parameters are %s' % names, known=False)
    tr = {}
    for e, p in cs:
        last = e.name.split('::')[-1]
        a = [sk(x) for x in e.args]
        # the transform at a neighbouring degree, through the accessor or through the map itself (a helper executed in place)
        m = re.search(r'deg_trip\(arg1, arg2\)\.(\d)', a[0]) if (a and ('trans_mut(' in a[0] or 'arg1.trans' in a[0])) else None
        if last in ('append_perm', 'merge') and m:
            tr.setdefault(m.group(1), []).append((last, a[1]))
    tv = {'view(arg3)', 'view(arg4)', 'arg5', 'arg6'}
    ktr = bool(tr.get('1')) and bool(tr.get('2')) and within([x[1] for k in ('1', '2') for x in tr[k]], tv) and set(tr) <= {'0', '1', '2'}
    need(tr.get('1') == [('append_perm', 'view(arg4)'), ('merge', 'arg5')], 'update_trans', 'transform on C_i updated by %s; expected append_perm(q), merge(t_src)' % tr.get('1'), known=ktr)
    need(tr.get('2') == [('append_perm', 'view(arg3)'), ('merge', 'arg6')], 'update_trans', 'transform on C_{i+d} updated by %s; expected append_perm(p), merge(t_tgt)' % tr.get('2'), known=ktr)

    # update_vecs(self, i, a, p, q, r, t)
    b, cs = _calls(facts, 'update_vecs')
    if b is None:
        rep.indet('E18: update_vecs not found')
        return
    rep.saw(b)
    names = [b.local_name(k) for k in range(1, b.arg_count + 1)]
    need(names == ['self', 'i', 'a', 'p', 'q', 'r', 't'], 'update_vecs', 'parameters are %s' % names, known=False)
    vv = {}
    for e, p in cs:
        last = e.name.split('::')[-1]
        a = [sk(x) for x in e.args]
        if last == 'permute':
            vv['permute'] = a[1]
        elif last == 'split':
            vv['split'] = a[1]
        elif last == 'solve_triangular_vec':
            vv['solve'] = (a[0], a[1])
        elif last == 'get_mut' and 'vecs' in a[0]:
            vv.setdefault('deg', []).append(a[1])
        elif last == 'sub' and 'ops::Sub' in e.name and 'mul(' in a[1]:
            vv['w'] = (a[0], a[1])
    need(vv.get('permute') == 'view(arg4)' and vv.get('split') == 'arg6', 'update_vecs', 'vectors in C_{i+d} permuted by %s and split at %s; expected p, r' % (vv.get('permute'), vv.get('split')),
         known=vv.get('permute') in ('view(arg4)', 'view(arg5)') and re.match(r'arg\d$', vv.get('split') or '') is not None)
    need(vv.get('solve', ('', ''))[0] == 'arg7' and vv.get('solve', ('', ''))[1].endswith('[0]'), 'update_vecs', 'triangular solve uses %s; expected (t, block a)' % (vv.get('solve'),),
         known='solve' in vv and re.match(r'arg\d$', vv['solve'][0]) is not None and re.search(r'divide4\(arg3, \(arg\d, arg\d\)\)\[\d\]$', vv['solve'][1]) is not None)
    w = vv.get('w')
    kw = bool(w) and re.search(r'mul\(&\*?divide4\(arg3, \(arg\d, arg\d\)\)\[\d\], solve_triangular_vec', w[1] or '') is not None and re.search(r'\.\d$', w[0]) is not None
    need(bool(w) and w[0].endswith('.1') and re.search(r'mul\(&\*?divide4\(arg3, \(arg6, arg6\)\)\[2\], solve_triangular_vec', w[1] or '') is not None, 'update_vecs',
         'target-side vectors become %s; expected y - c * (a^-1 x)' % (w,), known=kw)
    need(sorted(vv.get('deg', [])) == ['&deg_trip(arg1, arg2).1', '&deg_trip(arg1, arg2).2'], 'update_vecs', 'vectors looked up at %s' % vv.get('deg'),
         known=bool(vv.get('deg')) and all(re.match(r'&deg_trip\(arg1, arg2\)\.\d$', x) for x in vv['deg']))
    qs = False
    ps_ = False
    for e, p in cs:
        if e.name.split('::')[-1] == 'extract' and len(e.args) == 3 and strip(e.args[2])[0] == 'closure':
            # the index map of the extraction, applied to a symbolic index (captures substituted)
            for q_ in apply_closure(strip(e.args[2]), [('item',)]) or []:
                for e2 in q_.calls():
                    if e2.name.split('::')[-1] == 'at' and e2.args:
                        who = sk(e2.args[0]).replace('&', '').replace('*', '')
                        if who == 'arg5':
                            qs = True
                        elif who == 'arg4':
                            ps_ = True
    need(qs, 'update_vecs', 'source-side vectors are extracted with p instead of q' if ps_ else 'source-side vectors are not extracted with q', known=ps_)

    # reduce_at_spec
    from symex import private_helper
    inl = private_helper(exclude=('update_mats', 'update_trans', 'update_vecs', 'deg_trip', 'matrix', 'pivots'))
    b, cs = _calls(facts, 'reduce_at_spec', havoc=False, inline=inl)
    if b is None:
        rep.indet('E18: reduce_at_spec not found')
        return
    rep.saw(b)
    P, Q, R_ = ('&pivots(matrix(arg1, arg2).Some.0, arg3, arg4).0', '&pivots(matrix(arg1, arg2).Some.0, arg3, arg4).1', 'pivots(matrix(arg1, arg2).Some.0, arg3, arg4).2')
    tri = set()
    for e, p in cs:
        last = e.name.split('::')[-1]
        a = [sk(x) for x in e.args]
        roles = {'arg2', P, Q, R_, 'view(%s)' % P, 'view(%s)' % Q}
        if last == 'permute' and e.name.endswith('SpMat::<R>::permute'):
            need(a[1] == 'view(%s)' % P and a[2] == 'view(%s)' % Q, 'reduce_at_spec', 'd_i permuted with (%s, %s); expected (p, q)' % (a[1], a[2]), known=within(a[1:3], roles))
        elif last == 'update_mats':
            need(a[1:5] == ['arg2', P, Q, R_] and a[5].startswith('disassemble(') and a[5].endswith('.0'), 'reduce_at_spec', 'update_mats called with %s' % a[1:],
                 known=within(a[1:5], roles) and re.match(r'disassemble\(.*\)\.\d$', a[5]) is not None)
        elif last == 'update_trans':
            need(a[1:4] == ['arg2', P, Q] and a[4].endswith('.1)') and a[5].endswith('.2)'), 'reduce_at_spec', 'update_trans called with %s' % [x[-30:] for x in a[1:]],
                 known=within(a[1:4], roles) and all(re.search(r'disassemble\(.*\)\.\d\)$', x) for x in a[4:6]))
        elif last == 'update_vecs':
            need(a[1] == 'arg2' and a[3:6] == [P, Q, R_], 'reduce_at_spec', 'update_vecs called with %s' % [x[-40:] for x in a[1:]], known=within([a[1]] + a[3:6], roles))
        elif last == 'from_partial_triangular':
            pt = None
            for ev in p.branches():
                if sk(ev.term) == 'discr(arg3)' and isinstance(ev.value, int):
                    pt = ['Rows', 'Cols'][ev.value]
            tri.add((pt, a[0]))
    # every path that reduces the matrices also updates the tracked vectors; the transforms exactly when they are recorded
    combos = set()
    for e, p in cs:
        pass
    b_ras = facts.bodies.get(CR + 'reduce_at_spec')
    for p in SymEx(b_ras, havoc_loops=False, max_paths=40000, inline=inl).run():
        if p.end != 'return':
            continue
        names = [e.name.split('::')[-1] for e in p.calls()]
        m_, t_, v_ = 'update_mats' in names, 'update_trans' in names, 'update_vecs' in names
        if m_ or t_ or v_:
            combos.add((m_, t_, v_))
    need(combos == {(True, True, True), (True, False, True)}, 'reduce_at_spec',
         'the (update_mats, update_trans, update_vecs) combinations taken along the paths are %s; expected matrices and tracked vectors on every reducing path, transforms only when they are recorded' % sorted(combos))
    need(tri == {('Rows', 'TriangularType::Upper{}'), ('Cols', 'TriangularType::Lower{}')}, 'reduce_at_spec', 'pivot type / triangular type pairing is %s' % sorted(tri, key=str),
         known=bool(tri) and all(x in ('Rows', 'Cols') and re.match(r'TriangularType::(Upper|Lower)\{\}$', y) for x, y in tri))
    # Schur::disassemble order
    ds = facts.bodies.get('yui_matrix::sparse::schur::Schur::<R>::disassemble')
    if ds is not None:
        rep.saw(ds)
        rets = [sk(p.ret) for p in SymEx(ds).run() if p.end == 'return']
        need(rets == ['(arg1.s, arg1.t_src, arg1.t_tgt)'], 'disassemble', 'Schur::disassemble returns %s' % rets,
             known=len(rets) == 1 and re.match(r'\(arg1\.(s|t_src|t_tgt), arg1\.(s|t_src|t_tgt), arg1\.(s|t_src|t_tgt)\)$', rets[0]) is not None)
    if unknowns and not any(problems.values()):
        rep.indet('E18: reduction step outside the recognised fragment: %s' % '; '.join(unknowns)[:400])
        return
    for rule, probs in sorted(problems.items()):
        inst = 'ChainReducer::%s|source side uses q, target side uses p, same r' % rule
        if probs:
            rep.violation('E18.consistent-step', inst, 'one reduction step is applied inconsistently: ' + '; '.join(probs[:3]),
                          where='yui-homology/src/utils/chain_reducer.rs')
        else:
            rep.ok('E18.consistent-step', inst, 'matches the role table')


def check_complex_glue(facts, rep):
    """R9 (C08, "reduced complex reuses the original d through the transfer maps"): the matrix of d_i has column j =
    coordinates *in degree i + d_deg* of d(i, generator j of degree i), its shape is (rank C_{i+d}, rank C_i); reduced()
    keeps d_map / d_deg and replaces the summand of degree i by (same raw generators, reduced rank, no torsion,
    original transform followed by the reducer's transform of the same degree)."""
    C = 'yui_homology::conc::complex::ChainComplexBase::<I, X, R>::'

    def dk(t):
        return re.sub(r'\^_ref__', '^', re.sub(r'#(?:i\d+:)?\d+\.\d+', '', show(t, -1000))).replace('&', '').replace('*', '')

    from symex import private_helper

    def canon(x):
        # self[i] and self.summands.get(i) are the same summand; captured names may differ
        x = re.sub(r'#i\d+:\d+\.\d+', '', x)
        x = re.sub(r'get\(arg1\.\^self\.summands, (arg\d)\)', r'index(arg1.^self, \1)', x)
        x = re.sub(r'arg1\.\^(reducer|red)\b', 'arg1.^r', x)
        if EQUIV['index_is_get']:
            x = re.sub(r'\bget\(arg1, ', 'index(arg1, ', x)
        if EQUIV['d_is_d_map']:
            x = re.sub(r'call\((?:deref\()?arg1\.d_map\)?, \((.*?), (gen\(.*\))\)\)', r'd(arg1, \1, \2)', x)
        return x
    # self[i] is self.get(i) and self.d(i, z) is (self.d_map)(i, z): read from the two one-line bodies, not assumed
    EQUIV = {'index_is_get': False, 'd_is_d_map': False}
    for k_, b_ in facts.bodies.items():
        if 'ChainComplexBase<I, X, R> as std::ops::Index<I>>::index' in k_:
            rr_ = {dk(p.ret) for p in SymEx(b_, inline=False).run() if p.end == 'return'}
            EQUIV['index_is_get'] = rr_ == {'get(arg1, arg2)'}
        if k_.endswith('ChainComplexBase<I, X, R> as abst::complex::ChainComplexTrait<I>>::d'):
            rr_ = {dk(p.ret) for p in SymEx(b_, inline=False).run() if p.end == 'return'}
            EQUIV['d_is_d_map'] = rr_ in ({'call(deref(arg1.d_map), (arg2, arg3))'}, {'call(arg1.d_map, (arg2, arg3))'})

    def rets(name):
        b = facts.bodies.get(C + name)
        if b is None:
            return None
        rep.saw(b)
        return sorted({canon(dk(p.ret)) for p in SymEx(b, inline=private_helper(exclude=('d_matrix_col', 'reduced', 'd_matrix'))).run() if p.end == 'return'})
    want = {
        'd_matrix_col': ['vectorize(index(arg1, add(arg2, arg1.d_deg)), d(arg1, arg2, gen(index(arg1, arg2), arg3)))'],
        'd_matrix::{closure#0}': ['d_matrix_col(arg1.^self, arg1.^i, arg2)'],
        'reduced::{closure#0}': ['new(clone(raw_gens(index(arg1.^self, arg2))), unwrap(rank(arg1.^r, arg2)), new(), merged(trans(index(arg1.^self, arg2)), unwrap(trans(arg1.^r, arg2))))'],
    }
    for name, w in want.items():
        got = rets(name)
        inst = 'ChainComplex::%s|as tabulated' % name
        if got is None:
            rep.indet('E18.R9: ChainComplex::%s not found' % name)
        elif got == w:
            rep.ok('E18.R9-complex-glue', inst, w[0][:110])
        else:
            g = got[0] if got else ''
            bad = None
            if name == 'd_matrix_col' and re.match(r'vectorize\(index\(arg1, .*\), d\(arg1, .*, gen\(index\(arg1, .*\), arg3\)\)\)$', g):
                bad = 'column j of d_i is %s: the generator must come from degree i and the coordinates be taken in degree i + d_deg' % g[:200]
            if name == 'reduced::{closure#0}' and re.match(r'new\(clone\(raw_gens\(index\(arg1\.\^self, arg2\)\)\), .*\)$', g):
                if 'merged(unwrap(trans(arg1.^r, arg2)), trans(index(arg1.^self, arg2)))' in g:
                    bad = 'the reducer transform is composed *before* the original one (%s)' % g[-140:]
                elif not g.endswith('merged(trans(index(arg1.^self, arg2)), unwrap(trans(arg1.^r, arg2))))') or 'unwrap(rank(arg1.^r, arg2))' not in g:
                    bad = 'the reduced summand of degree i is %s' % g[:260]
            if bad:
                rep.violation('E18.R9-complex-glue', inst, bad, where='yui-homology/src/conc/complex.rs')
            else:
                rep.indet('E18.R9: ChainComplex::%s outside the recognised fragment: %s' % (name, [x[:200] for x in got]))
    # shape of d_matrix and reuse of d_map
    dm = rets('d_matrix')
    inst = 'ChainComplex::d_matrix|shape (rank C_{i+d}, rank C_i)'
    if dm and len(dm) == 1 and re.match(r'from_col_vecs\(rank\(index\(arg1, add\(arg2, arg1\.d_deg\)\)\), collect\(map\((into_par_iter\()?Range::Range\{start: 0, end: rank\(index\(arg1, arg2\)\)\}\)?, closure<\{closure#0\}>\)\)\)$', dm[0]):
        rep.ok('E18.R9-complex-glue', inst, 'columns 0..rank C_i, rows rank C_{i+d}')
    elif dm and len(dm) == 1 and dm[0].startswith('from_col_vecs(rank(index(arg1, '):
        rep.violation('E18.R9-complex-glue', inst, 'd_matrix is assembled as %s' % dm[0][:260], where='yui-homology/src/conc/complex.rs')
    else:
        rep.indet('E18.R9: d_matrix outside the recognised fragment: %s' % dm)
    rd = rets('reduced')
    inst = 'ChainComplex::reduced|keeps d_deg and d_map'
    if rd and len(rd) == 1 and re.match(r'ChainComplexBase::ChainComplexBase\{summands: generate\(support\(arg1\.summands\), closure<\{closure#0\}>\), d_deg: arg1\.d_deg, d_map: \(clone\(arg1\.d_map\) as .*\)\}$', rd[0]):
        rep.ok('E18.R9-complex-glue', inst, 'same d through the new summands')
    else:
        rep.indet('E18.R9: reduced outside the recognised fragment: %s' % (rd and [x[:200] for x in rd]))
