"""Thorough tier extras: compile-fail witnesses (E11) and the checker's own both-ways self-test
(stored mutants of this property must be reported, stored neutral edits must stay silent)."""
import os, re, json, glob, subprocess, shutil, time
import harness
from harness import VERIF, CACHE, sh

WITNESS_PROPS = {'RatioFields': ['C14'], 'RatioLiteral': ['C14'], 'RatioNewRaw': ['C14'], 'FFCtor': ['C14'],
                 'LcData': ['C16'], 'MultiDegData': ['C16'], 'BitSeqFields': ['C17'], 'TngCobComps': ['C01', 'C05']}


def witnesses(rep):
    items = [k for k, v in WITNESS_PROPS.items() if rep.pid in v]
    if not items:
        return
    w = os.path.join(VERIF, 'witness')
    tpl = open(os.path.join(w, 'Cargo.toml.in')).read()
    open(os.path.join(w, 'Cargo.toml'), 'w').write(tpl.replace('@REPO@', harness.REPO))
    shutil.copy(os.path.join(harness.REPO, 'Cargo.lock'), os.path.join(w, 'Cargo.lock'))
    env = dict(os.environ, CARGO_TARGET_DIR=os.path.join(CACHE, 'target-witness'), CARGO_NET_OFFLINE='true')
    r = sh(['cargo', '+nightly', 'test', '--doc', '--offline'], cwd=w, env=env)
    res = dict(re.findall(r'test src/lib\.rs - (\w+) \(line \d+\) (?:- compile fail )?\.\.\. (\w+)', r.stdout))
    per = {}
    for m in re.finditer(r'test src/lib\.rs - (\w+) \(line (\d+)\)( - compile fail)? \.\.\. (\w+)', r.stdout):
        per.setdefault(m.group(1), []).append((int(m.group(2)), bool(m.group(3)), m.group(4)))
    if not per:
        rep.indet('E11: witness crate did not run: %s' % r.stdout[-400:])
        return
    for it in items:
        for line, cf, status in per.get(it, []):
            inst = 'witness %s (lib.rs:%d)%s' % (it, line, ' compile_fail' if cf else ' twin')
            if status == 'ok':
                rep.ok('E11.compile-fail-witness', inst, 'rustc rejects the intrusion with the expected error code' if cf else 'the legitimate twin compiles')
            elif cf:
                rep.violation('E11.compile-fail-witness', inst,
                              'external code reaching into the private representation (%s) now COMPILES: the invariant can be broken from outside the module' % it,
                              where='witness/src/lib.rs:%d' % line)
            else:
                rep.indet('E11: the compiling twin of %s no longer compiles (API changed); witness inconclusive' % it)
        if it not in per:
            rep.indet('E11: witness %s missing from the doctest output' % it)


def selftest(rep):
    """both-ways test of this property's rules on stored variants of /repo (scratch worktree, removed afterwards)"""
    if os.environ.get('VERIF_SCRATCH'):
        return      # we are already inside a self-test
    tool = os.path.join(VERIF, 'tools', 'runmutants.py')
    out = {}
    for kind in ('mutants', 'neutral'):
        names = []
        for jf in sorted(glob.glob(os.path.join(VERIF, kind, '*.json'))):
            meta = json.load(open(jf))
            if rep.pid in meta.get('expect', {}):
                names.append(os.path.basename(jf)[:-5])
        if not names:
            continue
        # runmutants overwrites evidence of the property while it runs quick checks; keep ours aside
        r = sh(['python3', tool, '--kind', kind, '--only', rep.pid] + names, cwd=VERIF)
        lines = [l for l in r.stdout.splitlines() if re.search(r'\b%s\b' % rep.pid, l) and ('CAUGHT' in l or 'MISSED' in l or 'OK' in l or 'FALSE ALARM' in l)]
        good = [l for l in lines if 'CAUGHT' in l or ' OK ' in l]
        bad = [l for l in lines if 'MISSED' in l or 'FALSE ALARM' in l]
        out[kind] = {'run': len(lines), 'as_expected': len(good), 'names': names}
        for l in bad:
            rep.indet('self-test (%s): %s' % (kind, l.strip()[:160]))
        if len(lines) < len(names):
            rep.indet('self-test (%s): only %d of %d variants produced a verdict' % (kind, len(lines), len(names)))
    rep.inventory['self-test (stored variants of /repo)'] = out
